//go:build verif

package execute

import (
	"bytes"
	"context"
	"fmt"
	"sort"
	"sync"
	"testing"
	"time"

	commonconfig "github.com/smartcontractkit/chainlink-common/pkg/config"
	"github.com/smartcontractkit/libocr/commontypes"
	"github.com/smartcontractkit/libocr/offchainreporting2plus/ocr3types"
	"github.com/smartcontractkit/libocr/offchainreporting2plus/types"
	libocrtypes "github.com/smartcontractkit/libocr/ragep2p/types"

	"github.com/smartcontractkit/chainlink-ccip/execute/costlymessages"
	"github.com/smartcontractkit/chainlink-ccip/execute/exectypes"
	"github.com/smartcontractkit/chainlink-ccip/execute/report"
	"github.com/smartcontractkit/chainlink-ccip/execute/tokendata"
	typeconv "github.com/smartcontractkit/chainlink-ccip/internal/libs/typeconv"
	"github.com/smartcontractkit/chainlink-ccip/internal/mocks"
	readerpkg "github.com/smartcontractkit/chainlink-ccip/pkg/reader"
	cciptypes "github.com/smartcontractkit/chainlink-ccip/pkg/types/ccipocr3"
	"github.com/smartcontractkit/chainlink-ccip/pluginconfig"
	plugintypes2 "github.com/smartcontractkit/chainlink-ccip/plugintypes"
)

// C09, history level on LONG-LIVED plugins: four execute.Plugin instances built once per history with NewPlugin (the
// production constructor: contract discovery and chain support wired as in the factory) run many complete cycles
// (GetCommitReports -> GetMessages -> Filter) over ONE simulated destination whose content changes between cycles:
// commit reports land at different times, the cycle's execution report lands at once / partly / late / never, other
// executions become visible, the clock moves the fetch window, sequenced messages become ready or not, curses come and
// go, source chains leave and re-enter the home chain configuration.  One case = one whole history:
// (config, event list) and, per cycle, what the reader was asked (lower bound, limit), the pending reports agreed in
// the GetCommitReports round, the messages of the transmitted report (Plugin.Reports, decoded) and the pending
// reports of the Filter outcome.
//
// time.Now is not injectable.  The clock is simulated by ageing the destination: a report committed at simulated
// minute t is presented with the timestamp (real now - (simulated now - t) minutes), identical for all oracles of a
// cycle; the reader translates the lower bound it is asked for back into simulated minutes.

const vC09HDest = cciptypes.ChainSelector(900)

type vC09HRep struct {
	id    uint64 // block number of the commit report (shared by the roots of one report)
	chain cciptypes.ChainSelector
	lo    uint64
	hi    uint64
	ts    int64 // simulated minute of the commit
	root  cciptypes.Bytes32
}

type vC09HMsg struct{ c, s uint64 }

// what a reader shows: the destination at some moment
type vC09HView struct {
	now      int64
	reps     []vC09HRep
	executed map[vC09HMsg]bool
	blocked  map[vC09HMsg]bool
	global   bool
	destC    bool
	cursed   map[cciptypes.ChainSelector]bool
}

type vC09HWorld struct {
	r        *vRand
	V        int64
	chains   []cciptypes.ChainSelector
	known    map[cciptypes.ChainSelector]bool
	msgs     map[cciptypes.ChainSelector]map[uint64]cciptypes.Message
	ordered  map[vC09HMsg]bool
	bySender map[string]vC09HMsg
	next     map[cciptypes.ChainSelector]uint64
	nextID   uint64
	cur      vC09HView
	prevView *vC09HView // the destination one cycle ago (what a lagging oracle reads)
	hc       *vHomeChain
	peers    []libocrtypes.PeerID
	// the clock: simulated by ageing the destination (unit = 1 minute), or the real one (unit = vC09HUnit, the
	// simulated instant n is the real instant real0 + (n - t0) units; reports are stamped half a unit later)
	realClock bool
	unit      time.Duration // real clock: the real time one simulated instant stands for
	real0     time.Time
	t0        int64
	shapeSeed uint64
	// probes only: messages per report / bytes of message data (0 = the generator's choice)
	fixedLen, dataLen int
	// per cycle
	cycleReal time.Time
	reads     [][2]uint64
	events    []string // Coq terms
	shown     []string
}

func vC09HMsgs(ms []vC09HMsg) string {
	s := make([]string, len(ms))
	for i, m := range ms {
		s[i] = cPair(cN(m.c), cN(m.s))
	}
	return cList(s)
}
func vC09HSortMsgs(ms []vC09HMsg) {
	sort.Slice(ms, func(i, j int) bool {
		if ms[i].c != ms[j].c {
			return ms[i].c < ms[j].c
		}
		return ms[i].s < ms[j].s
	})
}

func (w *vC09HWorld) emit(coq, show string) {
	w.events = append(w.events, coq)
	w.shown = append(w.shown, show)
}

func (v *vC09HView) clone() *vC09HView {
	c := &vC09HView{now: v.now, reps: append([]vC09HRep{}, v.reps...), executed: map[vC09HMsg]bool{}, blocked: map[vC09HMsg]bool{},
		global: v.global, destC: v.destC, cursed: map[cciptypes.ChainSelector]bool{}}
	for k, b := range v.executed {
		c.executed[k] = b
	}
	for k, b := range v.blocked {
		c.blocked[k] = b
	}
	for k, b := range v.cursed {
		c.cursed[k] = b
	}
	return c
}

// ---- events ----
func (w *vC09HWorld) tick(d int64) {
	if d <= 0 {
		return
	}
	w.cur.now += d
	w.emit(cApp("ETick", cN(uint64(d))), fmt.Sprintf("tick +%d (now %d)", d, w.cur.now))
}

// one commit report with a root for each of the given chains
func (w *vC09HWorld) commit(chains []cciptypes.ChainSelector) error {
	w.nextID++
	for _, c := range chains {
		if w.r.Chance(1, 4) {
			w.next[c] += uint64(w.r.Range(1, 2)) // sequence numbers no report covers
		}
		lo := w.next[c]
		hi := lo + uint64(w.r.Intn(4))
		if w.fixedLen > 0 {
			hi = lo + uint64(w.fixedLen) - 1
		}
		w.next[c] = hi + 1
		var ms []cciptypes.Message
		for s := lo; s <= hi; s++ {
			key := vC09HMsg{uint64(c), s}
			sender := cciptypes.UnknownAddress{0x5e, byte(c), byte(s >> 16), byte(s >> 8), byte(s)}
			m := cciptypes.Message{
				Header: cciptypes.RampMessageHeader{MessageID: vC17B32x(uint64(c)*1000000 + s), SourceChainSelector: c,
					DestChainSelector: vC09HDest, SequenceNumber: cciptypes.SeqNum(s)},
				Sender: sender, Data: cciptypes.Bytes{byte(s)},
				FeeTokenAmount: cciptypes.NewBigIntFromInt64(1), FeeValueJuels: cciptypes.NewBigIntFromInt64(1),
			}
			if w.dataLen > 0 {
				m.Data = bytes.Repeat([]byte{byte(s)}, w.dataLen)
			}
			if w.r.Chance(2, 5) { // a sequenced message: ready only while the destination's nonce for its sender is 8
				m.Header.Nonce = 9
				w.ordered[key] = true
				w.bySender[typeconv.AddressBytesToString(sender, uint64(vC09HDest))] = key
			}
			w.msgs[c][s] = m
			ms = append(ms, m)
		}
		data := exectypes.CommitData{SourceChain: c,
			SequenceNumberRange: cciptypes.NewSeqNumRange(cciptypes.SeqNum(lo), cciptypes.SeqNum(hi)), Messages: ms}
		tree, err := report.ConstructMerkleTree(context.Background(), mocks.NewMessageHasher(), data, mocks.NullLogger)
		if err != nil {
			return err
		}
		w.cur.reps = append(w.cur.reps, vC09HRep{id: w.nextID, chain: c, lo: lo, hi: hi, ts: w.cur.now, root: tree.Root()})
		w.emit(cApp("ECommit", cN(uint64(c)), cN(w.nextID), cN(lo), cN(hi)),
			fmt.Sprintf("commit report %d: chain %d [%d,%d] at instant %d", w.nextID, c, lo, hi, w.cur.now))
	}
	return nil
}

func (w *vC09HWorld) exec(ms []vC09HMsg, why string) {
	if len(ms) == 0 {
		return
	}
	vC09HSortMsgs(ms)
	for _, m := range ms {
		w.cur.executed[m] = true
	}
	w.emit(cApp("EExec", vC09HMsgs(ms)), fmt.Sprintf("executed (%s): %v", why, ms))
}

func (w *vC09HWorld) setBlocked(ms []vC09HMsg) {
	vC09HSortMsgs(ms)
	w.cur.blocked = map[vC09HMsg]bool{}
	for _, m := range ms {
		w.cur.blocked[m] = true
	}
	w.emit(cApp("EBlocked", vC09HMsgs(ms)), fmt.Sprintf("not ready now: %v", ms))
}

func (w *vC09HWorld) setCurse(g, d bool, srcs []cciptypes.ChainSelector) {
	w.cur.global, w.cur.destC = g, d
	w.cur.cursed = map[cciptypes.ChainSelector]bool{}
	var xs []uint64
	for _, c := range srcs {
		w.cur.cursed[c] = true
		xs = append(xs, uint64(c))
	}
	vSortU64(xs)
	w.emit(cApp("ECurse", cBool(g), cBool(d), cListN(xs)), fmt.Sprintf("curses: global=%v dest=%v sources=%v", g, d, xs))
}

func (w *vC09HWorld) setKnown(cs []cciptypes.ChainSelector) {
	for _, c := range w.chains {
		delete(w.hc.Configs, c)
	}
	w.known = map[cciptypes.ChainSelector]bool{}
	var xs []uint64
	for _, c := range cs {
		w.hc.SetChain(c, 1, w.peers)
		w.known[c] = true
		xs = append(xs, uint64(c))
	}
	vSortU64(xs)
	w.emit(cApp("ESources", cListN(xs)), fmt.Sprintf("source chains on the home chain: %v", xs))
}

// committed messages that are not executed (any report, in or out of the window)
func (w *vC09HWorld) unexecuted() []vC09HMsg {
	var out []vC09HMsg
	for _, p := range w.cur.reps {
		for s := p.lo; s <= p.hi; s++ {
			if m := (vC09HMsg{uint64(p.chain), s}); !w.cur.executed[m] {
				out = append(out, m)
			}
		}
	}
	return out
}

// Real-clock histories: one simulated instant is one unit of real time; a cycle must make its observations inside the
// first half of its unit. The unit is 100 ms on an idle machine and grows with the scheduling latency measured when the
// part starts (vSchedScale); a history that still misses a slot is run again with the unit doubled (twice at most)
// before it is given up as discarded-timing.
const vC09HUnit = 100 * time.Millisecond

// the timestamp a report committed at instant n carries
func (w *vC09HWorld) stamp(n int64) time.Time {
	if w.realClock {
		return w.real0.Add(time.Duration(n-w.t0)*w.unit + w.unit/2)
	}
	return w.cycleReal.Add(-time.Duration(w.cur.now-n) * time.Minute)
}

// the first instant whose reports a query "timestamp >= ts" returns
func (w *vC09HWorld) lowerBound(ts time.Time) int64 {
	var lb int64
	if w.realClock {
		x := ts.Sub(w.real0) - w.unit/2 // stamp(n) >= ts  <=>  (n - t0) units >= x
		q := int64(x / w.unit)
		if x > 0 && x%w.unit != 0 {
			q++
		}
		lb = w.t0 + q
	} else {
		age := w.cycleReal.Sub(ts)
		ageMin := int64((age + 30*time.Second) / time.Minute)
		if age < 0 {
			ageMin = -int64((-age + 30*time.Second) / time.Minute)
		}
		lb = w.cur.now - ageMin
	}
	if lb < 0 {
		lb = 0
	}
	return lb
}

// ---- the reader of one oracle ----
func (w *vC09HWorld) reader(view func() *vC09HView, record bool) *vCCIPReader {
	return &vCCIPReader{
		CommitReportsFn: func(dest cciptypes.ChainSelector, ts time.Time, limit int) ([]plugintypes2.CommitPluginReportWithMeta, error) {
			v := view()
			lb := w.lowerBound(ts) // the lower bound asked for, on the CURRENT clock
			if record { // a lagging oracle's reads are its own matter (it may not see a curse yet)
				w.reads = append(w.reads, [2]uint64{uint64(lb), uint64(limit)})
			}
			var out []plugintypes2.CommitPluginReportWithMeta
			for _, p := range v.reps {
				if p.ts < lb { // committed before the lower bound
					continue
				}
				root := cciptypes.MerkleRootChain{ChainSel: p.chain,
					SeqNumsRange: cciptypes.NewSeqNumRange(cciptypes.SeqNum(p.lo), cciptypes.SeqNum(p.hi)), MerkleRoot: p.root}
				if n := len(out); n > 0 && out[n-1].BlockNum == p.id {
					out[n-1].Report.MerkleRoots = append(out[n-1].Report.MerkleRoots, root)
					continue
				}
				if len(out) >= limit {
					break
				}
				out = append(out, plugintypes2.CommitPluginReportWithMeta{
					Report:    cciptypes.CommitPluginReport{MerkleRoots: []cciptypes.MerkleRootChain{root}},
					Timestamp: w.stamp(p.ts), BlockNum: p.id})
			}
			return out, nil
		},
		ExecutedFn: func(source, dest cciptypes.ChainSelector, q cciptypes.SeqNumRange) ([]cciptypes.SeqNumRange, error) {
			v := view()
			var set []uint64
			for m := range v.executed {
				if m.c == uint64(source) {
					set = append(set, m.s)
				}
			}
			vSortU64(set)
			// the shape of the answer: chosen per (history, cycle, chain, query), not from the history's own stream -
			// the plugin asks chain by chain in map order, which must not influence the rest of the history
			sr := vNewRand(w.shapeSeed ^ uint64(len(w.events))<<40 ^ uint64(source)<<20 ^ uint64(q.Start()))
			ans, _ := vC09Shape(sr, set, uint64(q.Start()), uint64(q.End()), false)
			return vC09ToSeqRanges(ans), nil
		},
		MsgsFn: func(chain cciptypes.ChainSelector, q cciptypes.SeqNumRange) ([]cciptypes.Message, error) {
			var out []cciptypes.Message
			for s := uint64(q.Start()); s <= uint64(q.End()); s++ {
				if m, ok := w.msgs[chain][s]; ok {
					out = append(out, m)
				}
			}
			return out, nil
		},
		NoncesFn: func(source, dest cciptypes.ChainSelector, addrs []string) (map[string]uint64, error) {
			v := view()
			out := map[string]uint64{}
			for _, a := range addrs {
				out[a] = 0
				if m, ok := w.bySender[a]; ok && !v.blocked[m] {
					out[a] = 8
				}
			}
			return out, nil
		},
		CurseFn: func(dest cciptypes.ChainSelector, src []cciptypes.ChainSelector) (*readerpkg.CurseInfo, error) {
			v := view()
			ci := &readerpkg.CurseInfo{CursedSourceChains: map[cciptypes.ChainSelector]bool{}, GlobalCurse: v.global, CursedDestination: v.destC}
			for _, c := range src {
				ci.CursedSourceChains[c] = v.cursed[c]
			}
			return ci, nil
		},
	}
}

func vC09HPend(ds []exectypes.CommitData) string {
	pend := append([]exectypes.CommitData{}, ds...)
	sort.SliceStable(pend, func(i, j int) bool {
		if pend[i].SourceChain != pend[j].SourceChain {
			return pend[i].SourceChain < pend[j].SourceChain
		}
		return pend[i].SequenceNumberRange.Start() < pend[j].SequenceNumberRange.Start()
	})
	var ps []string
	for _, d := range pend {
		ps = append(ps, cPair(cN(uint64(d.SourceChain)), vC09RepOut(d)))
	}
	return cList(ps)
}

type vC09HDon struct {
	nodes   []*Plugin
	ids     []commontypes.OracleID
	faulty  string
	prev    []byte
	round   uint64
	obsDone time.Time // when the last observation of the last round returned
}

// one OCR round: observations of every oracle, validated by oracle 0, Outcome on EVERY oracle (all must agree)
func (d *vC09HDon) roundOnce(ctx context.Context) (oc exectypes.Outcome, fail string) {
	d.round++
	outctx := ocr3types.OutcomeContext{SeqNr: d.round, PreviousOutcome: d.prev}
	var aos []types.AttributedObservation
	for i, n := range d.nodes {
		if i == 3 && d.faulty == "silent" {
			continue
		}
		obs, err := n.Observation(ctx, outctx, nil)
		if err != nil {
			return oc, "observation of oracle " + fmt.Sprint(i) + ": " + err.Error()
		}
		if i == 3 && d.faulty == "garbage" {
			obs, _ = exectypes.Observation{CostlyMessages: []cciptypes.Bytes32{vC17B32x(7), vC17B32x(7)}}.Encode()
		}
		ao := types.AttributedObservation{Observation: obs, Observer: d.ids[i]}
		if err := d.nodes[0].ValidateObservation(ctx, outctx, nil, ao); err == nil {
			aos = append(aos, ao)
		} else if !(i == 3 && d.faulty != "none") {
			return oc, "observation of honest oracle " + fmt.Sprint(i) + " rejected: " + err.Error()
		}
	}
	d.obsDone = time.Now()
	var first []byte
	for i, n := range d.nodes {
		o, err := n.Outcome(ctx, outctx, nil, aos)
		if err != nil {
			return oc, "outcome of oracle " + fmt.Sprint(i) + ": " + err.Error()
		}
		if i == 0 {
			first = o
		} else if !bytes.Equal(first, o) {
			return oc, "oracles disagree on the outcome"
		}
	}
	oc, err := exectypes.DecodeOutcome(first)
	if err != nil {
		return oc, "outcome does not decode"
	}
	d.prev = first
	return oc, ""
}

type vC09HCycle struct {
	reads, pend1, offered, pend3 string
	sel                          []vC09HMsg
	rounds                       int
	obsTook                      time.Duration
}

// "timing": the real clock left the slot of the scripted instant (loaded machine); the history is discarded
func (d *vC09HDon) cycle(ctx context.Context, w *vC09HWorld) (res vC09HCycle, fail string) {
	if w.realClock {
		// the cycle runs in the first half of the unit that stands for the scripted instant; when the machine is too
		// slow for that slot the clock is simply later (more ticks) - nothing has run yet
		for {
			slot := w.real0.Add(time.Duration(w.cur.now-w.t0) * w.unit)
			if late := time.Since(slot); late > w.unit/10 {
				w.tick(int64(late/w.unit) + 1)
				continue
			}
			time.Sleep(time.Until(slot.Add(w.unit / 20)))
			if time.Since(slot) <= w.unit/4 {
				break
			}
			w.tick(1)
		}
	}
	w.cycleReal = time.Now().UTC()
	w.reads = nil
	res.pend1, res.offered, res.pend3 = "[]", "[]", "[]"
	finish := func() {
		var rs []string
		for _, x := range w.reads {
			rs = append(rs, cPair(cN(x[0]), cN(x[1])))
		}
		res.reads = cList(rs)
	}
	for k := 1; k <= 3; k++ {
		oc, f := d.roundOnce(ctx)
		res.rounds = k
		if k == 1 && w.realClock {
			slot := w.real0.Add(time.Duration(w.cur.now-w.t0) * w.unit)
			res.obsTook = d.obsDone.Sub(w.cycleReal)
			if w.cycleReal.Before(slot) || d.obsDone.After(slot.Add(w.unit/2-w.unit/10)) {
				return res, "timing"
			}
		}
		if f != "" {
			return res, fmt.Sprintf("round %d of the cycle: %s", k, f)
		}
		want := []exectypes.PluginState{exectypes.GetCommitReports, exectypes.GetMessages, exectypes.Filter}[k-1]
		if oc.State == exectypes.Initialized || oc.State == exectypes.Unknown {
			// nothing pending (or nothing observed): the next round starts a new cycle
			if k == 3 {
				res.offered, res.pend3 = "[]", "[]"
			}
			finish()
			return res, ""
		}
		if oc.State != want {
			return res, fmt.Sprintf("round %d of the cycle is in state %q", k, oc.State)
		}
		switch k {
		case 1:
			res.pend1 = vC09HPend(oc.PendingCommitReports)
		case 3:
			res.pend3 = vC09HPend(oc.PendingCommitReports)
			reps, err := d.nodes[0].Reports(ctx, d.round, d.prev)
			var sent cciptypes.ExecutePluginReport
			if err == nil && len(reps) == 1 {
				sent, err = d.nodes[0].reportCodec.Decode(ctx, reps[0].ReportWithInfo.Report)
			}
			if err != nil || len(reps) != 1 {
				return res, "Reports failed"
			}
			for _, cr := range sent.ChainReports {
				for _, m := range cr.Messages {
					res.sel = append(res.sel, vC09HMsg{uint64(cr.SourceChainSelector), uint64(m.Header.SequenceNumber)})
				}
			}
			vC09HSortMsgs(res.sel)
			res.offered = vC09HMsgs(res.sel)
		}
	}
	finish()
	return res, ""
}

type vC09HCase struct {
	cls  string
	nt   bool
	coq  string
	show map[string]any
}

func TestVerif_C09_cycles(t *testing.T) {
	r := vNewRand(vSeed() + 97)
	nHist := vEnvInt("VERIF_N", 40)
	sink := vOpenSink("C09_cycles")
	defer sink.Close()
	cases := make([]vC09HCase, nHist)
	seeds := make([]uint64, nHist)
	for h := range seeds {
		seeds[h] = r.U64()
	}
	unit := vScaled(vC09HUnit).Round(10 * time.Millisecond)
	if unit > 5*vC09HUnit {
		unit = 5 * vC09HUnit
	}
	// every third history runs on the real clock (it sleeps): those run beside the others, a few at a time
	var wg sync.WaitGroup
	sem := make(chan struct{}, 10)
	for h := 0; h < nHist; h++ {
		if h%3 != 2 {
			continue
		}
		wg.Add(1)
		go func(h int) {
			defer wg.Done()
			sem <- struct{}{}
			defer func() { <-sem }()
			for try := 0; try < 3; try++ {
				cases[h] = vC09HHistory(vNewRand(seeds[h]), h, true, unit<<try)
				if cases[h].cls != "discarded-timing" {
					break
				}
			}
		}(h)
	}
	for h := 0; h < nHist; h++ {
		if h%3 != 2 {
			cases[h] = vC09HHistory(vNewRand(seeds[h]), h, false, time.Minute)
		}
	}
	wg.Wait()
	for _, c := range cases {
		sink.Emit("C09_cycles", c.cls, c.nt, c.coq, c.show)
	}
}

type vC09HLate struct {
	due int
	ms  []vC09HMsg
}

func vC09HHistory(hr *vRand, h int, realClock bool, unit time.Duration) vC09HCase {
	ctx := context.Background()
	V := int64(vPick(hr, []int{30, 60, 240, 480}))
	if realClock {
		V = int64(vPick(hr, []int{5, 8, 12}))
	}
	nch := hr.Range(1, 3)
	// what varies between the cycles of this history: everything, or one aspect only
	aspect := vPick(hr, []string{"all", "all", "all", "landing", "clock", "commits", "readiness", "curses", "roles", "pinned"})
	if h%10 == 0 {
		aspect = "pinned"
	}
	on := func(a string) bool { return aspect == "all" || aspect == a || (aspect == "pinned" && (a == "landing" || a == "readiness")) }
	faulty := vPick(hr, []string{"none", "none", "silent", "garbage", "stale"})
	w := &vC09HWorld{r: hr, V: V, known: map[cciptypes.ChainSelector]bool{}, realClock: realClock, unit: unit,
		fixedLen: vEnvInt("VERIF_C09_PROBE_LEN", 0), dataLen: vEnvInt("VERIF_C09_PROBE_DATA", 0),
		msgs: map[cciptypes.ChainSelector]map[uint64]cciptypes.Message{}, ordered: map[vC09HMsg]bool{}, bySender: map[string]vC09HMsg{},
		next: map[cciptypes.ChainSelector]uint64{}, hc: vNewHomeChain(),
		cur: vC09HView{now: int64(100000 + hr.Intn(1000)), executed: map[vC09HMsg]bool{}, blocked: map[vC09HMsg]bool{},
			cursed: map[cciptypes.ChainSelector]bool{}}}
	t0 := w.cur.now
	w.t0 = t0
	w.shapeSeed = hr.U64()
	clock := "aged"
	if realClock {
		clock = "real"
	}
	cls := aspect + "/" + faulty + "/clock-" + clock
	show := map[string]any{"history": h, "visibilityInterval": (time.Duration(V) * unit).String(), "start": t0, "aspect": aspect,
		"faulty": faulty, "clock": clock + " (1 unit = " + unit.String() + ")"}
	broken := func(why string) vC09HCase { // the harness itself failed: shows up as a failing case
		show["fail"] = why
		show["events"] = w.shown
		return vC09HCase{cls, false, cPair(cTup(cN(uint64(V)), cN(uint64(t0)), cList(w.events)), "Err"), show}
	}
	for c := 1; c <= nch; c++ {
		sel := cciptypes.ChainSelector(c)
		w.chains = append(w.chains, sel)
		w.msgs[sel] = map[uint64]cciptypes.Message{}
		w.next[sel] = uint64(hr.Range(1, 30))
	}
	ids := []commontypes.OracleID{0, 1, 2, 3}
	p2p := map[commontypes.OracleID]libocrtypes.PeerID{}
	for _, o := range ids {
		p2p[o] = vPeer(int(o))
		w.peers = append(w.peers, vPeer(int(o)))
	}
	w.hc.SetChain(vC09HDest, 1, w.peers)
	w.setKnown(w.chains)
	don := &vC09HDon{ids: ids, faulty: faulty}
	for i, o := range ids {
		view := func() *vC09HView { return &w.cur }
		if i == 3 && faulty == "stale" {
			view = func() *vC09HView {
				if w.prevView != nil {
					return w.prevView
				}
				return &w.cur
			}
		}
		rd := w.reader(view, !(i == 3 && faulty == "stale"))
		// the production constructor; the plugin lives for the whole history
		don.nodes = append(don.nodes, NewPlugin(1, ocr3types.ReportingPluginConfig{OracleID: o, F: 1, N: 4},
			pluginconfig.ExecuteOffchainConfig{BatchGasLimit: 100000000,
				MessageVisibilityInterval: *commonconfig.MustNewDuration(time.Duration(V) * unit)},
			vC09HDest, p2p, rd, mocks.NewExecutePluginJSONReportCodec(), mocks.NewMessageHasher(), w.hc,
			&tokendata.NoopTokenDataObserver{}, vC09Gas{}, mocks.NullLogger, costlymessages.NewObserver(mocks.NullLogger, false, nil, nil)))
	}
	// contract discovery round: the plugin only makes discovery observations until the contracts are initialised
	w.cycleReal = time.Now().UTC()
	w.real0 = w.cycleReal
	if oc, f := don.roundOnce(ctx); f != "" || (oc.State != exectypes.Initialized && oc.State != exectypes.Unknown) {
		return broken(fmt.Sprintf("discovery round: %s state %q", f, oc.State))
	}
	w.reads = nil
	w.real0 = time.Now().UTC().Add(unit) // the scripted instant t0

	// the history starts with a backlog of reports committed at different times
	for k := hr.Range(1, 3); k > 0; k-- {
		if err := w.commit([]cciptypes.ChainSelector{vPick(hr, w.chains)}); err != nil {
			return broken(err.Error())
		}
		w.tick(int64(hr.Range(0, int(V)/3)))
	}
	cycles := hr.Range(5, 12)
	var late []vC09HLate
	var outs, showCycles []string
	nontrivial := false
	reoffered := 0
	lastSel := map[vC09HMsg]bool{}
	lastCycleAt := w.cur.now - 2
	for cy := 1; cy <= cycles; cy++ {
		// ---- the destination moves between cycles ----
		if cy > 1 {
			w.prevView = w.cur.clone()
		}
		if on("clock") && hr.Chance(1, 2) {
			switch hr.Intn(5) {
			case 0:
				w.tick(int64(hr.Range(1, 10)))
			case 1:
				w.tick(V / 4)
			case 2, 3: // bring the oldest report that is still inside the window exactly onto its edge, or one unit past it
				for _, p := range w.cur.reps {
					if age := w.cur.now - p.ts; age < V {
						w.tick(V - age + int64(hr.Intn(2)))
						break
					}
				}
			default:
				w.tick(V + int64(hr.Range(0, 5)))
			}
		}
		if on("commits") || cy == 1 {
			for k := hr.Intn(3); k > 0; k-- {
				cs := []cciptypes.ChainSelector{vPick(hr, w.chains)}
				if hr.Chance(1, 4) && nch > 1 { // one commit report with roots of several chains: equal timestamps
					cs = append([]cciptypes.ChainSelector{}, w.chains...)
				}
				if err := w.commit(cs); err != nil {
					return broken(err.Error())
				}
				if hr.Chance(2, 3) {
					w.tick(int64(hr.Range(1, 7)))
				}
			}
		}
		if realClock && w.cur.now < lastCycleAt+2 { // a cycle needs its own slot of the real clock
			w.tick(lastCycleAt + 2 - w.cur.now)
		}
		// late landings / executions whose events became final
		var due []vC09HMsg
		rest := late[:0]
		for _, l := range late {
			if l.due <= cy {
				due = append(due, l.ms...)
			} else {
				rest = append(rest, l)
			}
		}
		late = rest
		w.exec(due, "report landed late / became final")
		if on("landing") && hr.Chance(1, 4) { // executions from elsewhere: singly, out of order, across report boundaries
			var ms []vC09HMsg
			for _, m := range w.unexecuted() {
				if hr.Chance(1, 4) {
					ms = append(ms, m)
				}
			}
			w.exec(ms, "manual execution")
		}
		if on("readiness") && (hr.Chance(1, 2) || aspect == "pinned") {
			var ms []vC09HMsg
			for _, m := range w.unexecuted() {
				if w.ordered[m] && (hr.Chance(1, 2) || (aspect == "pinned" && w.cur.blocked[m])) {
					ms = append(ms, m)
				}
			}
			w.setBlocked(ms)
		}
		if on("curses") && hr.Chance(1, 3) {
			switch hr.Intn(6) {
			case 0:
				w.setCurse(true, false, nil)
			case 1:
				w.setCurse(false, true, nil)
			case 2, 3:
				w.setCurse(false, false, []cciptypes.ChainSelector{vPick(hr, w.chains)})
			default:
				w.setCurse(false, false, nil)
			}
		}
		if on("roles") && hr.Chance(1, 4) {
			var cs []cciptypes.ChainSelector
			for _, c := range w.chains {
				if hr.Chance(2, 3) {
					cs = append(cs, c)
				}
			}
			w.setKnown(cs)
		}
		// ---- one cycle ----
		nobs := 4
		if faulty == "silent" || faulty == "stale" {
			nobs = 3
		}
		res, f := don.cycle(ctx, w)
		lastCycleAt = w.cur.now
		if f == "timing" {
			// the machine was too slow for the real clock's slots: no judgement on this history
			show["discarded"] = fmt.Sprintf("cycle %d missed its slot of the real clock (observations took %v)", cy, res.obsTook)
			return vC09HCase{"discarded-timing", false, cPair(cTup(cN(uint64(V)), cN(uint64(t0)), "[]"), "(Ok [])"), show}
		}
		if f != "" {
			show["cycles"] = showCycles
			return broken(fmt.Sprintf("cycle %d: %s", cy, f))
		}
		for _, m := range res.sel {
			if lastSel[m] {
				reoffered++
			}
		}
		lastSel = map[vC09HMsg]bool{}
		for _, m := range res.sel {
			lastSel[m] = true
		}
		if len(res.sel) > 0 {
			nontrivial = true
		}
		// ---- the report lands: at once, partly, late, never ----
		var land []vC09HMsg
		landing := "never"
		if len(res.sel) > 0 {
			choice := hr.Intn(6)
			if !on("landing") {
				choice = 0
			}
			if aspect == "pinned" {
				choice = 4 + hr.Intn(2)
			}
			switch choice {
			case 0, 1:
				landing = "at once"
				land = append(land, res.sel...)
			case 2:
				landing = "partly"
				for _, m := range res.sel {
					if hr.Bool() {
						land = append(land, m)
					}
				}
			case 3:
				landing = "late"
				var ms []vC09HMsg
				for _, m := range res.sel {
					if hr.Chance(3, 4) {
						ms = append(ms, m)
					}
				}
				late = append(late, vC09HLate{due: cy + hr.Range(2, 4), ms: ms})
			}
		}
		for _, m := range land {
			w.cur.executed[m] = true
		}
		w.emit(cApp("ECycle", cNi(nobs), vC09HMsgs(land)), fmt.Sprintf("CYCLE %d (%d rounds): report %v lands %s: %v", cy, res.rounds, res.sel, landing, land))
		outs = append(outs, cTup(res.reads, res.pend1, res.offered, res.pend3))
		showCycles = append(showCycles, fmt.Sprintf("cycle %d: reads(lower bound, limit)=%s pending=%s report=%s pendingAfterFilter=%s",
			cy, res.reads, res.pend1, res.offered, res.pend3))
	}
	if reoffered > 0 {
		cls += "/reoffered"
	}
	show["events"] = w.shown
	show["cycles"] = showCycles
	return vC09HCase{cls, nontrivial, cPair(cTup(cN(uint64(V)), cN(uint64(t0)), cList(w.events)), "(Ok "+cList(outs)+")"), show}
}

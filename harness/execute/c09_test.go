//go:build verif

package execute

import (
	"bytes"
	"context"
	"fmt"
	"sort"
	"testing"
	"time"

	commonconfig "github.com/smartcontractkit/chainlink-common/pkg/config"
	"github.com/smartcontractkit/libocr/commontypes"
	"github.com/smartcontractkit/libocr/offchainreporting2plus/ocr3types"
	"github.com/smartcontractkit/libocr/offchainreporting2plus/types"
	libocrtypes "github.com/smartcontractkit/libocr/ragep2p/types"

	"github.com/smartcontractkit/chainlink-ccip/execute/costlymessages"
	"github.com/smartcontractkit/chainlink-ccip/execute/exectypes"
	"github.com/smartcontractkit/chainlink-ccip/execute/report"
	"github.com/smartcontractkit/chainlink-ccip/execute/tokendata"
	"github.com/smartcontractkit/chainlink-ccip/internal/mocks"
	"github.com/smartcontractkit/chainlink-ccip/internal/plugincommon"
	cciptypes "github.com/smartcontractkit/chainlink-ccip/pkg/types/ccipocr3"
	"github.com/smartcontractkit/chainlink-ccip/pluginconfig"
	plugintypes2 "github.com/smartcontractkit/chainlink-ccip/plugintypes"
)

// C09 (function level): computeRanges, filterOutExecutedMessages, getPendingExecutedReports over a scripted reader.

const vC09Top = ^uint64(0) - 1 // ends stay below 2^64-1: the loop over s never ends there (recorded as Spin in the model)

var vC09T0 = time.Date(2024, 5, 1, 10, 0, 0, 0, time.UTC)

type vC09Rep struct {
	id     uint64
	lo, hi uint64
}

func vC09Run(a, b uint64) string { return cPair(cN(a), cN(b)) }

// maximal +1-runs of a flat slice
func vC09Runs(xs []cciptypes.SeqNum) string {
	var rs []string
	for i := 0; i < len(xs); {
		j := i
		for j+1 < len(xs) && uint64(xs[j+1]) == uint64(xs[j])+1 {
			j++
		}
		rs = append(rs, vC09Run(uint64(xs[i]), uint64(xs[j])))
		i = j + 1
	}
	return cList(rs)
}
func vC09RepIn(r vC09Rep) string { return cApp("mkRep", cN(r.id), cN(r.lo), cN(r.hi), "[]") }
func vC09RepOut(d exectypes.CommitData) string {
	return cApp("mkRep", cN(d.BlockNum), cN(uint64(d.SequenceNumberRange.Start())), cN(uint64(d.SequenceNumberRange.End())),
		vC09Runs(d.ExecutedMessages))
}
func vC09Data(chain cciptypes.ChainSelector, r vC09Rep) exectypes.CommitData {
	return exectypes.CommitData{SourceChain: chain, BlockNum: r.id, Timestamp: vC09T0.Add(time.Duration(r.id) * time.Second),
		MerkleRoot: vC17B32x(r.id), SequenceNumberRange: cciptypes.NewSeqNumRange(cciptypes.SeqNum(r.lo), cciptypes.SeqNum(r.hi))}
}
func vC17B32x(x uint64) cciptypes.Bytes32 {
	var b cciptypes.Bytes32
	b[0] = 0xC9
	for i := 0; i < 8; i++ {
		b[31-i] = byte(x >> (8 * i))
	}
	return b
}

// ---- layouts: reports of one chain ----
func vC09Layout(r *vRand, idBase uint64) ([]vC09Rep, string) {
	cls := vPick(r, []string{"adjacent", "adjacent", "holes", "holes", "mixed", "single", "high", "overlap", "touch-by-one"})
	n := r.Range(1, 6)
	if cls == "single" {
		n = 1
	}
	lens := make([]uint64, n)
	gaps := make([]uint64, n)
	span := uint64(0)
	for i := range lens {
		lens[i] = uint64(r.Range(1, 8))
		switch cls {
		case "holes":
			gaps[i] = uint64(r.Range(1, 3))
		case "mixed", "high", "single":
			gaps[i] = uint64(r.Intn(3))
		}
		span += lens[i] + gaps[i]
	}
	base := uint64(r.Range(0, 40))
	if cls == "high" {
		base = vC09Top - span - uint64(r.Intn(3))
	}
	var reps []vC09Rep
	next := base
	for i := 0; i < n; i++ {
		lo := next + gaps[i]
		hi := lo + lens[i] - 1
		next = hi + 1
		reps = append(reps, vC09Rep{id: idBase + uint64(i) + 1, lo: lo, hi: hi})
	}
	if cls == "overlap" && n >= 2 {
		k := r.Range(1, n-1)
		reps[k].lo = reps[k-1].hi - uint64(r.Intn(int(lens[k-1])))
		if reps[k].hi < reps[k].lo {
			reps[k].hi = reps[k].lo
		}
		if reps[k].lo == reps[k-1].lo { // keep starts distinct (sort.Slice is not stable)
			reps[k].lo++
			if reps[k].hi < reps[k].lo {
				reps[k].hi = reps[k].lo
			}
		}
	}
	if cls == "touch-by-one" && n >= 2 { // next report starts on the previous report's last number
		k := r.Range(1, n-1)
		if reps[k-1].hi > reps[k-1].lo {
			reps[k].lo = reps[k-1].hi
		}
	}
	return reps, cls
}

// ---- executed sets over the layout's span, as a sorted list of sequence numbers ----
func vC09Executed(r *vRand, reps []vC09Rep) ([]uint64, string) {
	lo, hi := reps[0].lo, reps[0].hi
	for _, p := range reps {
		if p.lo < lo {
			lo = p.lo
		}
		if p.hi > hi {
			hi = p.hi
		}
	}
	cls := vPick(r, []string{"none", "all", "random-30", "random-70", "prefix", "suffix", "one-report", "all-but-one",
		"edges", "span-2", "span-3", "inside"})
	in := map[uint64]bool{}
	add := func(a, b uint64) {
		for s := a; s <= b && s >= a; s++ {
			in[s] = true
		}
	}
	k := r.Intn(len(reps))
	switch cls {
	case "all":
		add(lo, hi)
	case "random-30", "random-70":
		p := 3
		if cls == "random-70" {
			p = 7
		}
		for s := lo; s <= hi; s++ {
			if r.Chance(p, 10) {
				in[s] = true
			}
		}
	case "prefix":
		add(lo, lo+uint64(r.Intn(int(hi-lo+1))))
	case "suffix":
		add(hi-uint64(r.Intn(int(hi-lo+1))), hi)
	case "one-report":
		add(reps[k].lo, reps[k].hi)
	case "all-but-one":
		add(lo, hi)
		delete(in, reps[k].lo+uint64(r.Intn(int(reps[k].hi-reps[k].lo+1))))
	case "edges": // first and last number of some reports: runs that touch report boundaries on each side
		for _, p := range reps {
			if r.Bool() {
				in[p.lo] = true
			}
			if r.Bool() {
				in[p.hi] = true
			}
		}
	case "span-2", "span-3": // a run from inside report k to inside report k+1 (k+2)
		j := k + 1
		if cls == "span-3" {
			j = k + 2
		}
		if j >= len(reps) {
			j = len(reps) - 1
		}
		a := reps[k].lo + uint64(r.Intn(int(reps[k].hi-reps[k].lo+1)))
		b := reps[j].lo + uint64(r.Intn(int(reps[j].hi-reps[j].lo+1)))
		if a <= b {
			add(a, b)
		}
	case "inside":
		if reps[k].hi-reps[k].lo >= 2 {
			add(reps[k].lo+1, reps[k].hi-1)
		}
	}
	var xs []uint64
	for s := range in {
		xs = append(xs, s)
	}
	vSortU64(xs)
	return xs, cls
}

type vC09Range struct{ a, b uint64 }

// ---- the shapes a reader may give to an executed set restricted to [qlo, qhi] ----
func vC09Shape(r *vRand, set []uint64, qlo, qhi uint64, allowBad bool) ([]vC09Range, string) {
	shapes := []string{"per-message", "per-message", "per-message-sorted", "merged", "chunks", "repeats", "touching"}
	if allowBad {
		shapes = append(shapes, "overlapping", "malformed", "beyond")
	}
	cls := vPick(r, shapes)
	var xs []uint64
	for _, s := range set {
		if s >= qlo && s <= qhi {
			xs = append(xs, s)
		}
	}
	var runs []vC09Range
	for i := 0; i < len(xs); {
		j := i
		for j+1 < len(xs) && xs[j+1] == xs[j]+1 {
			j++
		}
		runs = append(runs, vC09Range{xs[i], xs[j]})
		i = j + 1
	}
	var out []vC09Range
	switch cls {
	case "merged", "beyond":
		out = append(out, runs...)
		if cls == "beyond" && len(out) > 0 {
			out[len(out)-1].b += uint64(r.Range(1, 3))
		}
	case "chunks":
		for _, ru := range runs {
			a := ru.a
			for a <= ru.b {
				b := a + uint64(r.Intn(3))
				if b > ru.b {
					b = ru.b
				}
				out = append(out, vC09Range{a, b})
				a = b + 1
			}
		}
	case "touching": // [a,m],[m,b]: legal for the overlap test (start == previous end)
		for _, ru := range runs {
			if ru.b > ru.a {
				m := ru.a + 1 + uint64(r.Intn(int(ru.b-ru.a))) // a < m <= b: distinct starts (sort.Slice is not stable)
				out = append(out, vC09Range{ru.a, m}, vC09Range{m, ru.b})
			} else {
				out = append(out, ru)
			}
		}
	case "overlapping":
		for _, ru := range runs {
			out = append(out, ru)
			if ru.b > ru.a {
				out = append(out, vC09Range{ru.a + 1, ru.b + 1})
			}
		}
	case "malformed":
		out = append(out, runs...)
		if len(out) > 0 {
			k := r.Intn(len(out))
			if out[k].b > out[k].a {
				out[k].a, out[k].b = out[k].b, out[k].a
			}
		}
	default: // one range per message; "repeats": some messages executed twice (one event per attempt)
		for _, s := range xs {
			out = append(out, vC09Range{s, s})
			if cls == "repeats" && r.Chance(1, 3) {
				out = append(out, vC09Range{s, s})
			}
		}
	}
	if cls != "per-message-sorted" && cls != "merged" {
		for i := len(out) - 1; i > 0; i-- {
			j := r.Intn(i + 1)
			out[i], out[j] = out[j], out[i]
		}
	}
	return out, cls
}

func vC09RangesCoq(rs []vC09Range) string {
	s := make([]string, len(rs))
	for i, x := range rs {
		s[i] = vC09Run(x.a, x.b)
	}
	return cList(s)
}
func vC09ToSeqRanges(rs []vC09Range) []cciptypes.SeqNumRange {
	var out []cciptypes.SeqNumRange
	for _, x := range rs {
		out = append(out, cciptypes.NewSeqNumRange(cciptypes.SeqNum(x.a), cciptypes.SeqNum(x.b)))
	}
	return out
}

func TestVerif_C09_ranges(t *testing.T) {
	r := vNewRand(vSeed() + 91)
	n := vEnvInt("VERIF_N", 300)
	sink := vOpenSink("C09_ranges")
	defer sink.Close()
	for i := 0; i < n; i++ {
		reps, cls := vC09Layout(r, 0)
		if r.Chance(1, 8) && len(reps) > 1 { // out of order
			j := r.Intn(len(reps) - 1)
			reps[j], reps[j+1] = reps[j+1], reps[j]
			cls += "+unsorted"
		}
		var data []exectypes.CommitData
		var in []string
		for _, p := range reps {
			data = append(data, vC09Data(1, p))
			in = append(in, vC09Run(p.lo, p.hi))
		}
		var out string
		func() {
			defer func() {
				if rec := recover(); rec != nil {
					out = "Panic"
				}
			}()
			rs, err := computeRanges(data)
			if err != nil {
				out = "Err"
				return
			}
			s := make([]string, len(rs))
			for k, x := range rs {
				s[k] = vC09Run(uint64(x.Start()), uint64(x.End()))
			}
			out = "(Ok " + cList(s) + ")"
		}()
		sink.Emit("C09_ranges", cls, len(reps) >= 2, cPair(cList(in), out), map[string]any{"reports": reps, "out": out})
	}
}

func TestVerif_C09_filter(t *testing.T) {
	r := vNewRand(vSeed() + 92)
	n := vEnvInt("VERIF_N", 1000)
	sink := vOpenSink("C09_filter")
	defer sink.Close()
	for i := 0; i < n; i++ {
		reps, lcls := vC09Layout(r, 0)
		set, ecls := vC09Executed(r, reps)
		qlo, qhi := reps[0].lo, reps[len(reps)-1].hi
		for _, p := range reps {
			if p.hi > qhi {
				qhi = p.hi
			}
		}
		ex, scls := vC09Shape(r, set, qlo, qhi, true)
		if r.Chance(1, 5) { // unordered input is supported
			for k := len(reps) - 1; k > 0; k-- {
				j := r.Intn(k + 1)
				reps[k], reps[j] = reps[j], reps[k]
			}
		}
		var data []exectypes.CommitData
		var in []string
		for _, p := range reps {
			data = append(data, vC09Data(1, p))
			in = append(in, vC09RepIn(p))
		}
		var out string
		func() {
			defer func() {
				if rec := recover(); rec != nil {
					out = "Panic"
				}
			}()
			res, err := filterOutExecutedMessages(data, vC09ToSeqRanges(ex))
			if err != nil {
				out = "Err"
				return
			}
			out = "(Ok " + cMap(res, vC09RepOut) + ")"
		}()
		sink.Emit("C09_filter", lcls+"/"+ecls+"/"+scls, len(set) > 0, cPair(cPair(cList(in), vC09RangesCoq(ex)), out),
			map[string]any{"reports": fmt.Sprint(reps), "executed": fmt.Sprint(set), "ranges": fmt.Sprint(ex), "out": out})
	}
}

// exhaustive sub-space (thorough tier): all layouts of <= 3 reports of length <= 3 with holes 0..1, all executed
// subsets, three deterministic shapes
func TestVerif_C09_filter_exhaustive(t *testing.T) {
	sink := vOpenSink("C09_filter_all")
	defer sink.Close()
	limit := vEnvInt("VERIF_N", 3000)
	count := 0
	var layouts [][]vC09Rep
	var build func(cur []vC09Rep, next uint64)
	build = func(cur []vC09Rep, next uint64) {
		if len(cur) > 0 {
			layouts = append(layouts, append([]vC09Rep{}, cur...))
		}
		if len(cur) == 3 {
			return
		}
		for gap := uint64(0); gap <= 1; gap++ {
			for l := uint64(1); l <= 3; l++ {
				lo := next + gap
				build(append(cur, vC09Rep{id: uint64(len(cur) + 1), lo: lo, hi: lo + l - 1}), lo+l)
			}
		}
	}
	build(nil, 5)
	for _, reps := range layouts {
		lo, hi := reps[0].lo, reps[len(reps)-1].hi
		span := int(hi - lo + 1)
		for mask := 0; mask < 1<<span; mask++ {
			for shape := 0; shape < 3; shape++ {
				if count >= limit {
					return
				}
				var ex []vC09Range
				var set []uint64
				for b := 0; b < span; b++ {
					if mask&(1<<b) != 0 {
						set = append(set, lo+uint64(b))
					}
				}
				switch shape {
				case 0: // per message, descending
					for k := len(set) - 1; k >= 0; k-- {
						ex = append(ex, vC09Range{set[k], set[k]})
					}
				case 1: // merged
					for i := 0; i < len(set); {
						j := i
						for j+1 < len(set) && set[j+1] == set[j]+1 {
							j++
						}
						ex = append(ex, vC09Range{set[i], set[j]})
						i = j + 1
					}
				case 2: // per message with every message twice
					for _, s := range set {
						ex = append(ex, vC09Range{s, s}, vC09Range{s, s})
					}
				}
				var data []exectypes.CommitData
				var in []string
				for _, p := range reps {
					data = append(data, vC09Data(1, p))
					in = append(in, vC09RepIn(p))
				}
				var out string
				func() {
					defer func() {
						if rec := recover(); rec != nil {
							out = "Panic"
						}
					}()
					res, err := filterOutExecutedMessages(data, vC09ToSeqRanges(ex))
					if err != nil {
						out = "Err"
						return
					}
					out = "(Ok " + cMap(res, vC09RepOut) + ")"
				}()
				sink.Emit("C09_filter_all", fmt.Sprintf("exhaustive/%d-reports/shape-%d", len(reps), shape), len(set) > 0,
					cPair(cPair(cList(in), vC09RangesCoq(ex)), out), nil)
				count++
			}
		}
	}
}

func TestVerif_C09_pending(t *testing.T) {
	ctx := context.Background()
	r := vNewRand(vSeed() + 93)
	n := vEnvInt("VERIF_N", 300)
	sink := vOpenSink("C09_pending")
	defer sink.Close()
	for i := 0; i < n; i++ {
		nch := r.Range(1, 3)
		type chainW struct {
			sel  cciptypes.ChainSelector
			reps []vC09Rep
			set  []uint64
		}
		var chains []chainW
		var cls string
		for k := 0; k < nch; k++ {
			reps, lc := vC09Layout(r, uint64(k)*100)
			for lc == "touch-by-one" {
				// two reports sharing a number make computeRanges query that number twice; the two answers then hold
				// ranges with one start and different ends, whose order after sort.Slice (not stable) is not defined
				reps, lc = vC09Layout(r, uint64(k)*100)
			}
			set, ec := vC09Executed(r, reps)
			chains = append(chains, chainW{cciptypes.ChainSelector(k + 1), reps, set})
			cls = lc + "/" + ec
		}
		// commit reports as the destination reader returns them: one or several roots per report, interleaved chains,
		// per chain in ascending order
		var crs []plugintypes2.CommitPluginReportWithMeta
		idx := make([]int, nch)
		ts := 0
		for {
			var roots []cciptypes.MerkleRootChain
			var meta uint64
			for k := range chains {
				if idx[k] < len(chains[k].reps) && (len(roots) == 0 || r.Bool()) {
					p := chains[k].reps[idx[k]]
					idx[k]++
					roots = append(roots, cciptypes.MerkleRootChain{ChainSel: chains[k].sel,
						SeqNumsRange: cciptypes.NewSeqNumRange(cciptypes.SeqNum(p.lo), cciptypes.SeqNum(p.hi)), MerkleRoot: vC17B32x(p.id)})
					meta = p.id
				}
			}
			if len(roots) == 0 {
				break
			}
			ts++
			_ = meta
			crs = append(crs, plugintypes2.CommitPluginReportWithMeta{Report: cciptypes.CommitPluginReport{MerkleRoots: roots},
				Timestamp: vC09T0.Add(time.Duration(ts) * time.Minute), BlockNum: uint64(ts)})
		}
		readerErr := r.Chance(1, 25)
		execErrChain := cciptypes.ChainSelector(0)
		if r.Chance(1, 15) {
			execErrChain = chains[r.Intn(nch)].sel
		}
		type call struct {
			c    cciptypes.ChainSelector
			q    cciptypes.SeqNumRange
			ans  []vC09Range
			fail bool
		}
		var calls []call
		shapeRand := vNewRand(r.U64())
		rd := &vCCIPReader{
			CommitReportsFn: func(dest cciptypes.ChainSelector, t time.Time, limit int) ([]plugintypes2.CommitPluginReportWithMeta, error) {
				if readerErr {
					return nil, vErrNext()
				}
				return crs, nil
			},
			ExecutedFn: func(source, dest cciptypes.ChainSelector, q cciptypes.SeqNumRange) ([]cciptypes.SeqNumRange, error) {
				if source == execErrChain {
					calls = append(calls, call{source, q, nil, true})
					return nil, vErrNext()
				}
				for _, cw := range chains {
					if cw.sel == source {
						ans, _ := vC09Shape(shapeRand, cw.set, uint64(q.Start()), uint64(q.End()), false)
						calls = append(calls, call{source, q, ans, false})
						return vC09ToSeqRanges(ans), nil
					}
				}
				return nil, nil
			},
		}
		var out string
		func() {
			defer func() {
				if rec := recover(); rec != nil {
					out = "Panic"
				}
			}()
			got, err := getPendingExecutedReports(ctx, rd, 900, vC09T0, mocks.NullLogger)
			if err != nil {
				out = "Err"
				return
			}
			keys := make([]cciptypes.ChainSelector, 0, len(got))
			for c := range got {
				keys = append(keys, c)
			}
			sort.Slice(keys, func(a, b int) bool { return keys[a] < keys[b] })
			var cs []string
			for _, c := range keys {
				cs = append(cs, cPair(cN(uint64(c)), cMap(got[c], func(d exectypes.CommitData) string {
					// identity of the report = (timestamp-derived block number, root): map back to the layout id by the root
					id := uint64(0)
					for x := 0; x < 8; x++ {
						id = id<<8 | uint64(d.MerkleRoot[24+x])
					}
					return cApp("mkRep", cN(id), cN(uint64(d.SequenceNumberRange.Start())), cN(uint64(d.SequenceNumberRange.End())),
						vC09Runs(d.ExecutedMessages))
				})))
			}
			out = "(Ok " + cList(cs) + ")"
		}()
		// input rendering
		inReports := "None"
		if !readerErr {
			var rs []string
			for _, cr := range crs {
				var roots []string
				for _, m := range cr.Report.MerkleRoots {
					id := uint64(0)
					for x := 0; x < 8; x++ {
						id = id<<8 | uint64(m.MerkleRoot[24+x])
					}
					roots = append(roots, cPair(cN(uint64(m.ChainSel)),
						cApp("mkRep", cN(id), cN(uint64(m.SeqNumsRange.Start())), cN(uint64(m.SeqNumsRange.End())), "[]")))
				}
				rs = append(rs, cList(roots))
			}
			inReports = cSome(cList(rs))
		}
		var tab []string
		for _, c := range calls {
			a := "None"
			if !c.fail {
				a = cSome(vC09RangesCoq(c.ans))
			}
			tab = append(tab, cTup(cN(uint64(c.c)), vC09Run(uint64(c.q.Start()), uint64(c.q.End())), a))
		}
		var world []string
		for _, cw := range chains {
			xs := make([]cciptypes.SeqNum, len(cw.set))
			for k, s := range cw.set {
				xs[k] = cciptypes.SeqNum(s)
			}
			world = append(world, cPair(cN(uint64(cw.sel)), vC09Runs(xs)))
		}
		sink.Emit("C09_pending", cls, !readerErr && execErrChain == 0, cPair(cTup(inReports, cList(tab), cList(world)), out),
			map[string]any{"chains": fmt.Sprint(chains), "readerErr": readerErr, "execErrChain": execErrChain, "out": out})
	}
}

// ---------------------------------------------------------------------------------------------------------------
// History level: four real execute.Plugin instances over a scripted destination / source world, OCR rounds driven by
// a minimal runner (Observation -> ValidateObservation -> Outcome), commit reports and executions landing between
// rounds. Every round is emitted with the world snapshot taken at the first observation of its three-round cycle.

type vC09Gas struct{}

func (vC09Gas) CalculateMerkleTreeGas(int) uint64               { return 0 }
func (vC09Gas) CalculateMessageMaxGas(cciptypes.Message) uint64 { return 0 }

type vC09World struct {
	r        *vRand
	chains   []cciptypes.ChainSelector
	msgs     map[cciptypes.ChainSelector]map[uint64]cciptypes.Message
	reps     map[cciptypes.ChainSelector][]vC09Rep
	reports  []plugintypes2.CommitPluginReportWithMeta
	executed map[cciptypes.ChainSelector]map[uint64]bool
	next     map[cciptypes.ChainSelector]uint64
	now      time.Time
	nextID   uint64
}

func (w *vC09World) msg(c cciptypes.ChainSelector, s uint64) cciptypes.Message {
	return cciptypes.Message{
		Header: cciptypes.RampMessageHeader{MessageID: vC17B32x(uint64(c)*100000 + s), SourceChainSelector: c,
			DestChainSelector: 900, SequenceNumber: cciptypes.SeqNum(s)},
		Sender: cciptypes.UnknownAddress{1, 2, 3}, Data: cciptypes.Bytes{byte(s)},
		FeeTokenAmount: cciptypes.NewBigIntFromInt64(1), FeeValueJuels: cciptypes.NewBigIntFromInt64(1),
	}
}

func (w *vC09World) commitLands(t *testing.T, c cciptypes.ChainSelector) {
	if w.r.Chance(1, 5) {
		w.next[c]++ // a sequence number that no commit report covers (hole between reports)
	}
	lo := w.next[c]
	hi := lo + uint64(w.r.Intn(4))
	w.next[c] = hi + 1
	var ms []cciptypes.Message
	for s := lo; s <= hi; s++ {
		m := w.msg(c, s)
		w.msgs[c][s] = m
		ms = append(ms, m)
	}
	data := exectypes.CommitData{SourceChain: c,
		SequenceNumberRange: cciptypes.NewSeqNumRange(cciptypes.SeqNum(lo), cciptypes.SeqNum(hi)), Messages: ms}
	tree, err := report.ConstructMerkleTree(context.Background(), mocks.NewMessageHasher(), data, mocks.NullLogger)
	if err != nil {
		t.Fatal(err)
	}
	w.nextID++
	w.now = w.now.Add(time.Second)
	w.reps[c] = append(w.reps[c], vC09Rep{id: w.nextID, lo: lo, hi: hi})
	w.reports = append(w.reports, plugintypes2.CommitPluginReportWithMeta{
		Report: cciptypes.CommitPluginReport{MerkleRoots: []cciptypes.MerkleRootChain{{ChainSel: c,
			SeqNumsRange: data.SequenceNumberRange, MerkleRoot: tree.Root()}}},
		Timestamp: w.now, BlockNum: w.nextID})
}

func (w *vC09World) snapshot() string {
	var cs []string
	for _, c := range w.chains {
		var reps []string
		for _, p := range w.reps[c] {
			reps = append(reps, vC09RepIn(p))
		}
		var xs []cciptypes.SeqNum
		for s := range w.executed[c] {
			xs = append(xs, cciptypes.SeqNum(s))
		}
		sort.Slice(xs, func(i, j int) bool { return xs[i] < xs[j] })
		cs = append(cs, cTup(cN(uint64(c)), cList(reps), vC09Runs(xs)))
	}
	return cList(cs)
}

func (w *vC09World) reader() *vCCIPReader {
	return &vCCIPReader{
		CommitReportsFn: func(dest cciptypes.ChainSelector, ts time.Time, limit int) ([]plugintypes2.CommitPluginReportWithMeta, error) {
			return append([]plugintypes2.CommitPluginReportWithMeta{}, w.reports...), nil
		},
		ExecutedFn: func(source, dest cciptypes.ChainSelector, q cciptypes.SeqNumRange) ([]cciptypes.SeqNumRange, error) {
			var set []uint64
			for s := range w.executed[source] {
				set = append(set, s)
			}
			vSortU64(set)
			ans, _ := vC09Shape(w.r, set, uint64(q.Start()), uint64(q.End()), false)
			return vC09ToSeqRanges(ans), nil
		},
		MsgsFn: func(chain cciptypes.ChainSelector, q cciptypes.SeqNumRange) ([]cciptypes.Message, error) {
			var out []cciptypes.Message
			for s := uint64(q.Start()); s <= uint64(q.End()); s++ {
				if m, ok := w.msgs[chain][s]; ok {
					out = append(out, m)
				}
			}
			return out, nil
		},
	}
}

// a report of [width] messages of which the first [executed] are already executed
func (w *vC09World) commitWide(t *testing.T, c cciptypes.ChainSelector, width, executed int) {
	lo := w.next[c]
	hi := lo + uint64(width) - 1
	w.next[c] = hi + 1
	ms := make([]cciptypes.Message, 0, width)
	for s := lo; s <= hi; s++ {
		m := w.msg(c, s)
		w.msgs[c][s] = m
		ms = append(ms, m)
		if int(s-lo) < executed {
			w.executed[c][s] = true
		}
	}
	data := exectypes.CommitData{SourceChain: c,
		SequenceNumberRange: cciptypes.NewSeqNumRange(cciptypes.SeqNum(lo), cciptypes.SeqNum(hi)), Messages: ms}
	tree, err := report.ConstructMerkleTree(context.Background(), mocks.NewMessageHasher(), data, mocks.NullLogger)
	if err != nil {
		t.Fatal(err)
	}
	w.nextID++
	w.now = w.now.Add(time.Second)
	w.reps[c] = append(w.reps[c], vC09Rep{id: w.nextID, lo: lo, hi: hi})
	w.reports = append(w.reports, plugintypes2.CommitPluginReportWithMeta{
		Report: cciptypes.CommitPluginReport{MerkleRoots: []cciptypes.MerkleRootChain{{ChainSel: c,
			SeqNumsRange: data.SequenceNumberRange, MerkleRoot: tree.Root()}}},
		Timestamp: w.now, BlockNum: w.nextID})
}

func TestVerif_C09_history(t *testing.T) {
	r := vNewRand(vSeed() + 94)
	nHist := vEnvInt("VERIF_N", 40)
	sink := vOpenSink("C09_history")
	defer sink.Close()
	for h := 0; h < nHist; h++ {
		vC09History(t, vNewRand(r.U64()), sink, "C09_history", false, h)
	}
}

// histories that start with an oversized backlog: a small report followed by reports of 5001 messages with 5000
// executed each, numbered near 2^62 so that the GetCommitReports observation exceeds maxObservationLength
func TestVerif_C09_history_big(t *testing.T) {
	r := vNewRand(vSeed() + 95)
	nHist := vEnvInt("VERIF_N", 1)
	sink := vOpenSink("C09_history_big")
	defer sink.Close()
	for h := 0; h < nHist; h++ {
		vC09History(t, vNewRand(r.U64()), sink, "C09_history_big", true, h)
	}
}

func vC09History(t *testing.T, hr *vRand, sink *vSink, sinkName string, big bool, h int) {
	ctx := context.Background()
	{
		policy := vPick(hr, []string{"all-land", "all-land", "lossy", "none-land"})
		w := &vC09World{r: hr, chains: []cciptypes.ChainSelector{1, 2}, msgs: map[cciptypes.ChainSelector]map[uint64]cciptypes.Message{},
			reps: map[cciptypes.ChainSelector][]vC09Rep{}, executed: map[cciptypes.ChainSelector]map[uint64]bool{},
			next: map[cciptypes.ChainSelector]uint64{}, now: time.Now().UTC().Add(-time.Hour)}
		if hr.Bool() {
			w.chains = w.chains[:1]
		}
		for _, c := range w.chains {
			w.msgs[c] = map[uint64]cciptypes.Message{}
			w.executed[c] = map[uint64]bool{}
			w.next[c] = uint64(hr.Range(1, 30))
		}
		if big {
			w.chains = w.chains[:1]
			w.next[1] = uint64(1)<<62 + uint64(hr.Range(1, 1000))
			w.commitWide(t, 1, 3, 1)
			for k := hr.Range(11, 13); k > 0; k-- {
				w.commitWide(t, 1, 5001, 5000)
			}
		}
		// the DON: four oracles, all reading every chain; one of them may lag or stay silent
		hc := vNewHomeChain()
		ids := []commontypes.OracleID{0, 1, 2, 3}
		p2p := map[commontypes.OracleID]libocrtypes.PeerID{}
		var peers []libocrtypes.PeerID
		for _, o := range ids {
			p2p[o] = vPeer(int(o))
			peers = append(peers, vPeer(int(o)))
		}
		for _, c := range append(append([]cciptypes.ChainSelector{}, w.chains...), 900) {
			hc.SetChain(c, 1, peers)
		}
		faulty := vPick(hr, []string{"none", "none", "silent", "garbage"})
		var nodes []*Plugin
		for _, o := range ids {
			nodes = append(nodes, &Plugin{
				reportingCfg: ocr3types.ReportingPluginConfig{OracleID: o, F: 1, N: 4},
				offchainCfg: pluginconfig.ExecuteOffchainConfig{BatchGasLimit: 100000000,
					MessageVisibilityInterval: *commonconfig.MustNewDuration(8 * time.Hour)},
				destChain: 900, ccipReader: w.reader(), reportCodec: mocks.NewExecutePluginJSONReportCodec(),
				msgHasher: mocks.NewMessageHasher(), homeChain: hc,
				chainSupport:          plugincommon.NewChainSupport(mocks.NullLogger, hc, p2p, o, 900),
				oracleIDToP2pID:       p2p,
				tokenDataObserver:     &tokendata.NoopTokenDataObserver{},
				costlyMessageObserver: costlymessages.NewObserver(mocks.NullLogger, false, nil, nil),
				estimateProvider:      vC09Gas{},
				lggr:                  mocks.NullLogger,
			})
		}
		var prev []byte
		prevState := exectypes.Unknown
		cycleSnap := w.snapshot()
		rounds := hr.Range(6, 30)
		if big {
			rounds = 6
		}
		for round := 1; round <= rounds; round++ {
			// ---- the world moves ----
			for _, c := range w.chains {
				if big {
					break // the backlog is the history
				}
				if hr.Chance(2, 5) {
					w.commitLands(t, c)
				}
				if hr.Chance(1, 4) { // executions from elsewhere: singly, out of order, across report boundaries
					for _, p := range w.reps[c] {
						for s := p.lo; s <= p.hi; s++ {
							if hr.Chance(1, 4) {
								w.executed[c][s] = true
							}
						}
					}
				}
			}
			state := prevState.Next()
			if state == exectypes.GetCommitReports {
				cycleSnap = w.snapshot()
			}
			outctx := ocr3types.OutcomeContext{SeqNr: uint64(round), PreviousOutcome: prev}
			var aos []types.AttributedObservation
			fail := ""
			for i, n := range nodes {
				if i == 3 && faulty == "silent" {
					continue
				}
				obs, err := n.Observation(ctx, outctx, nil)
				if err != nil {
					fail = "observation: " + err.Error()
					break
				}
				if i == 3 && faulty == "garbage" {
					obs, _ = exectypes.Observation{CostlyMessages: []cciptypes.Bytes32{vC17B32x(7), vC17B32x(7)}}.Encode()
				}
				ao := types.AttributedObservation{Observation: obs, Observer: ids[i]}
				if err := nodes[0].ValidateObservation(ctx, outctx, nil, ao); err == nil {
					aos = append(aos, ao)
				}
			}
			out := ""
			var oc exectypes.Outcome
			func() {
				defer func() {
					if rec := recover(); rec != nil {
						out = "Panic"
					}
				}()
				if fail != "" {
					out = "Err"
					return
				}
				o1, err := nodes[0].Outcome(ctx, outctx, nil, aos)
				if err != nil {
					out = "Err"
					return
				}
				o2, err2 := nodes[1].Outcome(ctx, outctx, nil, aos)
				if err2 != nil || !bytes.Equal(o1, o2) {
					out = "Err" // two honest oracles disagree on the outcome
					return
				}
				oc, err = exectypes.DecodeOutcome(o1)
				if err != nil {
					out = "Err"
					return
				}
				prev = o1
			}()
			stateN := map[exectypes.PluginState]int{exectypes.GetCommitReports: 1, exectypes.GetMessages: 2, exectypes.Filter: 3}[state]
			if out == "" {
				pend := append([]exectypes.CommitData{}, oc.PendingCommitReports...)
				sort.Slice(pend, func(i, j int) bool {
					if pend[i].SourceChain != pend[j].SourceChain {
						return pend[i].SourceChain < pend[j].SourceChain
					}
					return pend[i].SequenceNumberRange.Start() < pend[j].SequenceNumberRange.Start()
				})
				var ps, ms []string
				for _, d := range pend {
					ps = append(ps, cPair(cN(uint64(d.SourceChain)), vC09RepOut(d)))
				}
				type cs struct{ c, s uint64 }
				var sel []cs
				// what the DON would transmit: execute.Plugin.Reports on the outcome, decoded with the report codec
				reps, rerr := nodes[0].Reports(ctx, uint64(round), prev)
				var sent cciptypes.ExecutePluginReport
				if rerr == nil && len(reps) > 0 {
					sent, rerr = nodes[0].reportCodec.Decode(ctx, reps[0].ReportWithInfo.Report)
				}
				if rerr != nil || len(reps) > 1 {
					sent = cciptypes.ExecutePluginReport{ChainReports: []cciptypes.ExecutePluginReportSingleChain{{SourceChainSelector: 0,
						Messages: []cciptypes.Message{{}}}}} // shows up as a message of no chain
				}
				for _, cr := range sent.ChainReports {
					for _, m := range cr.Messages {
						sel = append(sel, cs{uint64(cr.SourceChainSelector), uint64(m.Header.SequenceNumber)})
					}
				}
				sort.Slice(sel, func(i, j int) bool {
					if sel[i].c != sel[j].c {
						return sel[i].c < sel[j].c
					}
					return sel[i].s < sel[j].s
				})
				for _, x := range sel {
					ms = append(ms, cPair(cN(x.c), cN(x.s)))
				}
				// the messages of the outcome's own report, for comparison with what is transmitted
				var osel []cs
				for _, cr := range oc.Report.ChainReports {
					for _, m := range cr.Messages {
						osel = append(osel, cs{uint64(cr.SourceChainSelector), uint64(m.Header.SequenceNumber)})
					}
				}
				sort.Slice(osel, func(i, j int) bool {
					if osel[i].c != osel[j].c {
						return osel[i].c < osel[j].c
					}
					return osel[i].s < osel[j].s
				})
				var oms []string
				for _, x := range osel {
					oms = append(oms, cPair(cN(x.c), cN(x.s)))
				}
				out = "(Ok " + cTup(cList(ps), cList(ms), cList(oms)) + ")"
				// the report lands (or not)
				for _, x := range sel {
					switch policy {
					case "all-land":
						w.executed[cciptypes.ChainSelector(x.c)][x.s] = true
					case "lossy":
						if hr.Bool() {
							w.executed[cciptypes.ChainSelector(x.c)][x.s] = true
						}
					}
				}
				if oc.State == exectypes.Unknown { // empty outcome: the next round starts a new cycle
					prevState = exectypes.Unknown
					prev = nil
				} else {
					prevState = oc.State
				}
			}
			sink.Emit(sinkName, fmt.Sprintf("%s/%s/state-%d", policy, faulty, stateN), stateN == 3,
				cPair(cPair(cNi(stateN), cycleSnap), out),
				map[string]any{"history": h, "round": round, "state": stateN, "policy": policy, "faulty": faulty, "snapshot": cycleSnap, "out": out})
			if out == "Err" || out == "Panic" {
				break
			}
		}
	}
}

// ---------------------------------------------------------------------------------------------------------------
// GetCommitReports phase at Plugin.Observation level with backlogs whose encoded observation lies around
// maxObservationLength (sequence numbers near 2^62: 20 bytes per executed number). Judged like the pending part:
// the decoded observation must hold, per pending report, the destination's executed set inside its interval -
// whatever the size of the observation.
func TestVerif_C09_observe(t *testing.T) {
	ctx := context.Background()
	r := vNewRand(vSeed() + 96)
	n := vEnvInt("VERIF_N", 6)
	sink := vOpenSink("C09_observe")
	defer sink.Close()
	classes := []string{"above-limit", "just-below-limit", "above-limit-two-chains", "far-above", "small", "above-limit"}
	for i := 0; i < n; i++ {
		lr := vNewRand(r.U64())
		cls := classes[i%len(classes)]
		// encoded bytes of the executed numbers the observation will carry (20 bytes per number, ~330 per report)
		target := map[string]int{"above-limit": 1090000, "just-below-limit": 985000, "above-limit-two-chains": 1120000, "far-above": 1800000, "small": 6000}[cls]
		nch := 1
		if cls == "above-limit-two-chains" {
			nch = 2
		}
		type chainW struct {
			sel  cciptypes.ChainSelector
			reps []vC09Rep
			set  []uint64
		}
		var chains []chainW
		var crs []plugintypes2.CommitPluginReportWithMeta
		ts := 0
		for k := 0; k < nch; k++ {
			cw := chainW{sel: cciptypes.ChainSelector(k + 1)}
			next := uint64(1)<<62 + uint64(lr.Range(1, 100000))
			left := target / nch
			for id := uint64(1); left > 0 || id == 1; id++ {
				width := uint64(lr.Range(3000, 6000))
				if id == 1 || cls == "small" {
					width = uint64(lr.Range(2, 6))
				}
				if lr.Chance(1, 5) {
					next += uint64(lr.Range(1, 3)) // hole
				}
				p := vC09Rep{id: uint64(k)*100 + id, lo: next, hi: next + width - 1}
				next = p.hi + 1
				cw.reps = append(cw.reps, p)
				// executed: everything but a few, everything (the report is no longer pending), or a prefix
				miss := map[uint64]bool{}
				switch lr.Intn(6) {
				case 0:
				case 1:
					for s := p.lo + width/2; s <= p.hi; s++ {
						miss[s] = true
					}
				default:
					for m := lr.Range(1, 3); m > 0; m-- {
						miss[p.lo+uint64(lr.Intn(int(width)))] = true
					}
				}
				left -= 330
				for s := p.lo; s <= p.hi; s++ {
					if !miss[s] {
						cw.set = append(cw.set, s)
						if len(miss) > 0 { // a fully executed report is not in the observation
							left -= 20
						}
					}
				}
				ts++
				crs = append(crs, plugintypes2.CommitPluginReportWithMeta{Report: cciptypes.CommitPluginReport{
					MerkleRoots: []cciptypes.MerkleRootChain{{ChainSel: cw.sel,
						SeqNumsRange: cciptypes.NewSeqNumRange(cciptypes.SeqNum(p.lo), cciptypes.SeqNum(p.hi)), MerkleRoot: vC17B32x(p.id)}}},
					Timestamp: time.Now().UTC().Add(-time.Hour).Add(time.Duration(ts) * time.Second), BlockNum: uint64(ts)})
			}
			chains = append(chains, cw)
		}
		type call struct {
			c   cciptypes.ChainSelector
			q   cciptypes.SeqNumRange
			ans []vC09Range
		}
		var calls []call
		rd := &vCCIPReader{
			CommitReportsFn: func(dest cciptypes.ChainSelector, t time.Time, limit int) ([]plugintypes2.CommitPluginReportWithMeta, error) {
				return crs, nil
			},
			ExecutedFn: func(source, dest cciptypes.ChainSelector, q cciptypes.SeqNumRange) ([]cciptypes.SeqNumRange, error) {
				for _, cw := range chains {
					if cw.sel != source {
						continue
					}
					// runs of the executed set inside the query, cut into chunks, in any order
					var ans []vC09Range
					for i := 0; i < len(cw.set); {
						if cw.set[i] < uint64(q.Start()) || cw.set[i] > uint64(q.End()) {
							i++
							continue
						}
						j := i
						lim := lr.Range(500, 3000)
						for j+1 < len(cw.set) && cw.set[j+1] == cw.set[j]+1 && cw.set[j+1] <= uint64(q.End()) && j-i < lim {
							j++
						}
						ans = append(ans, vC09Range{cw.set[i], cw.set[j]})
						i = j + 1
					}
					for k := len(ans) - 1; k > 0; k-- {
						x := lr.Intn(k + 1)
						ans[k], ans[x] = ans[x], ans[k]
					}
					calls = append(calls, call{source, q, ans})
					return vC09ToSeqRanges(ans), nil
				}
				return nil, nil
			},
		}
		hc := vNewHomeChain()
		p2p := map[commontypes.OracleID]libocrtypes.PeerID{0: vPeer(0)}
		for _, c := range []cciptypes.ChainSelector{1, 2, 900} {
			hc.SetChain(c, 1, []libocrtypes.PeerID{vPeer(0)})
		}
		p := &Plugin{
			reportingCfg: ocr3types.ReportingPluginConfig{OracleID: 0, F: 1, N: 4},
			offchainCfg: pluginconfig.ExecuteOffchainConfig{BatchGasLimit: 100000000,
				MessageVisibilityInterval: *commonconfig.MustNewDuration(8 * time.Hour)},
			destChain: 900, ccipReader: rd, reportCodec: mocks.NewExecutePluginJSONReportCodec(),
			msgHasher: mocks.NewMessageHasher(), homeChain: hc,
			chainSupport:          plugincommon.NewChainSupport(mocks.NullLogger, hc, p2p, 0, 900),
			oracleIDToP2pID:       p2p,
			tokenDataObserver:     &tokendata.NoopTokenDataObserver{},
			costlyMessageObserver: costlymessages.NewObserver(mocks.NullLogger, false, nil, nil),
			estimateProvider:      vC09Gas{},
			lggr:                  mocks.NullLogger,
		}
		var out string
		size := 0
		func() {
			defer func() {
				if rec := recover(); rec != nil {
					out = "Panic"
				}
			}()
			b, err := p.Observation(ctx, ocr3types.OutcomeContext{SeqNr: 1}, nil)
			if err != nil {
				out = "Err"
				return
			}
			size = len(b)
			obs, err := exectypes.DecodeObservation(b)
			if err != nil {
				out = "Err"
				return
			}
			keys := make([]cciptypes.ChainSelector, 0, len(obs.CommitReports))
			for c := range obs.CommitReports {
				keys = append(keys, c)
			}
			sort.Slice(keys, func(a, b int) bool { return keys[a] < keys[b] })
			var cs []string
			for _, c := range keys {
				cs = append(cs, cPair(cN(uint64(c)), cMap(obs.CommitReports[c], func(d exectypes.CommitData) string {
					id := uint64(0)
					for x := 0; x < 8; x++ {
						id = id<<8 | uint64(d.MerkleRoot[24+x])
					}
					return cApp("mkRep", cN(id), cN(uint64(d.SequenceNumberRange.Start())), cN(uint64(d.SequenceNumberRange.End())),
						vC09Runs(d.ExecutedMessages))
				})))
			}
			out = "(Ok " + cList(cs) + ")"
		}()
		var rs []string
		for _, cr := range crs {
			m := cr.Report.MerkleRoots[0]
			id := uint64(0)
			for x := 0; x < 8; x++ {
				id = id<<8 | uint64(m.MerkleRoot[24+x])
			}
			rs = append(rs, cList([]string{cPair(cN(uint64(m.ChainSel)),
				cApp("mkRep", cN(id), cN(uint64(m.SeqNumsRange.Start())), cN(uint64(m.SeqNumsRange.End())), "[]"))}))
		}
		var tab, world []string
		for _, c := range calls {
			tab = append(tab, cTup(cN(uint64(c.c)), vC09Run(uint64(c.q.Start()), uint64(c.q.End())), cSome(vC09RangesCoq(c.ans))))
		}
		nExec := 0
		for _, cw := range chains {
			xs := make([]cciptypes.SeqNum, len(cw.set))
			for k, s := range cw.set {
				xs[k] = cciptypes.SeqNum(s)
			}
			nExec += len(xs)
			world = append(world, cPair(cN(uint64(cw.sel)), vC09Runs(xs)))
		}
		sink.Emit("C09_observe", cls, true, cPair(cTup(cSome(cList(rs)), cList(tab), cList(world)), out),
			map[string]any{"class": cls, "reports": len(crs), "executedNumbers": nExec, "observationBytes": size, "limit": maxObservationLength})
	}
}

//go:build verif

// C16 — long-lived execute plugins on the REAL home-chain poller while the role map changes between polls: the
// transmit gate must follow the destination-writer set of the configuration fetched last, not anything remembered
// from an earlier poll (seeded change C16-5 kept stale per-peer chain sets in the poller).
package execute

import (
	"context"
	"fmt"
	"strings"
	"sync"
	"sync/atomic"
	"testing"
	"time"

	cctypes3 "github.com/smartcontractkit/chainlink-common/pkg/types"
	"github.com/smartcontractkit/chainlink-common/pkg/types/query/primitives"
	"github.com/smartcontractkit/libocr/commontypes"
	"github.com/smartcontractkit/libocr/offchainreporting2plus/ocr3types"
	libocrtypes "github.com/smartcontractkit/libocr/ragep2p/types"

	"github.com/smartcontractkit/chainlink-ccip/chainconfig"
	"github.com/smartcontractkit/chainlink-ccip/execute/exectypes"
	"github.com/smartcontractkit/chainlink-ccip/internal/mocks"
	"github.com/smartcontractkit/chainlink-ccip/internal/plugincommon"
	"github.com/smartcontractkit/chainlink-ccip/internal/reader"
	"github.com/smartcontractkit/chainlink-ccip/pkg/consts"
	cciptypes "github.com/smartcontractkit/chainlink-ccip/pkg/types/ccipocr3"
)

// scripted CCIPHome: chain -> readers; candidate digest byte; every read is counted
type vC16Home struct {
	cctypes3.UnimplementedContractReader
	mu      sync.Mutex
	readers map[cciptypes.ChainSelector][]int
	cand    byte
	fetches atomic.Int64
}

func (h *vC16Home) GetLatestValue(ctx context.Context, id string, conf primitives.ConfidenceLevel, params, ret any) error {
	h.mu.Lock()
	defer h.mu.Unlock()
	switch {
	case strings.HasSuffix(id, consts.MethodNameGetAllChainConfigs):
		out, ok := ret.(*[]reader.ChainConfigInfo)
		if !ok {
			return fmt.Errorf("verif: unexpected return %T", ret)
		}
		pm, _ := params.(map[string]any)
		if idx, _ := pm["pageIndex"].(uint64); idx > 0 {
			*out = nil
			return nil
		}
		cfg, _ := chainconfig.EncodeChainConfig(chainconfig.ChainConfig{GasPriceDeviationPPB: cciptypes.NewBigIntFromInt64(1000), OptimisticConfirmations: 1})
		var res []reader.ChainConfigInfo
		for ch, rs := range h.readers {
			var ps []libocrtypes.PeerID
			for _, o := range rs {
				ps = append(ps, vPeer(o))
			}
			res = append(res, reader.ChainConfigInfo{ChainSelector: ch, ChainConfig: reader.HomeChainConfigMapper{Readers: ps, FChain: 1, Config: cfg}})
		}
		*out = res
		h.fetches.Add(1)
		return nil
	case strings.HasSuffix(id, consts.MethodNameGetOCRConfig):
		out, ok := ret.(*reader.ActiveAndCandidate)
		if !ok {
			return fmt.Errorf("verif: unexpected return %T", ret)
		}
		*out = reader.ActiveAndCandidate{ActiveConfig: reader.OCR3ConfigWithMeta{ConfigDigest: vC16Digest(200)},
			CandidateConfig: reader.OCR3ConfigWithMeta{ConfigDigest: vC16Digest(h.cand)}}
		return nil
	}
	return fmt.Errorf("verif: unexpected read %q", id)
}

// waits until two complete fetches have STARTED after the call (so the state is from a fetch that saw the change)
func (h *vC16Home) sync(t *testing.T) {
	c0 := h.fetches.Load()
	// the event: the fetch counter of the scripted contract has advanced by two (the poll loop is sequential, so the
	// first of them has gone through setState). The poller polls every 3 ms; "it does not poll" is decided by a watch
	// (30 s that stretch when the machine is starved), and only after a second, longer one has expired as well.
	polled := func() bool { return h.fetches.Load() >= c0+2 }
	if !vAwait(30*time.Second, polled) && !vAwait(60*time.Second, polled) {
		t.Fatalf("verif: home-chain poller did not poll")
	}
	time.Sleep(2 * time.Millisecond) // not needed for the sequential poll loop; leaves room for a setState that lags its fetch
}

func TestVerif_C16_exec_roles(t *testing.T) {
	ctx := context.Background()
	r := vNewRand(vSeed() + 81)
	n := vEnvInt("VERIF_N", 40)
	sink := vOpenSink("C16_gate_exec_roles")
	defer sink.Close()
	rsink := vOpenSink("C16_rep_exec_roles")
	defer rsink.Close()
	oc := exectypes.Outcome{State: exectypes.Filter,
		Report: cciptypes.ExecutePluginReport{ChainReports: []cciptypes.ExecutePluginReportSingleChain{{SourceChainSelector: 5}}}}
	ocb, err := oc.Encode()
	if err != nil {
		t.Fatal(err)
	}
	codec := mocks.NewExecutePluginJSONReportCodec()
	rep := cciptypes.ExecutePluginReport{ChainReports: []cciptypes.ExecutePluginReportSingleChain{{SourceChainSelector: 5}}}
	rb, _ := codec.Encode(ctx, rep)
	const N = 4
	m := map[commontypes.OracleID]libocrtypes.PeerID{}
	for o := 0; o < N; o++ {
		m[commontypes.OracleID(o)] = vPeer(o)
	}
	for i := 0; i < n; i++ {
		home := &vC16Home{readers: map[cciptypes.ChainSelector][]int{}, cand: 2}
		first := true
		draw := func() {
			home.mu.Lock()
			defer home.mu.Unlock()
			for _, ch := range []cciptypes.ChainSelector{vC16Dest, 5, 6} {
				var rs []int
				for o := 0; o < N; o++ {
					if r.Chance(2, 3) {
						rs = append(rs, o)
					}
				}
				home.readers[ch] = rs
			}
			home.cand = byte(r.Range(0, 2))
			if !first && r.Chance(1, 5) {
				// the home chain answers with NO chain configuration at all (a successful, empty poll): nobody is a
				// destination writer any more (seeded change C16-6 kept the previous role map in that case)
				for ch := range home.readers {
					delete(home.readers, ch)
				}
			}
			first = false
		}
		draw()
		hc := reader.NewHomeChainConfigPoller(home, mocks.NullLogger, 3*time.Millisecond,
			cctypes3.BoundContract{Address: "0xCC", Name: consts.ContractNameCCIPConfig})
		if err := hc.Start(ctx); err != nil {
			t.Fatal(err)
		}
		home.sync(t)
		plugins := make([]*Plugin, N)
		for o := 0; o < N; o++ {
			me := commontypes.OracleID(o)
			plugins[o] = &Plugin{
				donID:           vC16Don,
				reportingCfg:    ocr3types.ReportingPluginConfig{ConfigDigest: vC16Digest(1), OracleID: me},
				destChain:       vC16Dest,
				ccipReader:      &vCCIPReader{},
				reportCodec:     codec,
				homeChain:       hc,
				chainSupport:    plugincommon.NewChainSupport(mocks.NullLogger, hc, m, me, vC16Dest),
				oracleIDToP2pID: m,
				lggr:            mocks.NullLogger,
			}
		}
		steps := r.Range(2, 4)
		for st := 0; st < steps; st++ {
			if st > 0 {
				draw() // the role map (and the candidate digest) changes between rounds
				home.sync(t)
			}
			home.mu.Lock()
			cand := home.cand
			writer := map[int]bool{}
			for _, o := range home.readers[vC16Dest] {
				writer[o] = true
			}
			home.mu.Unlock()
			for o := 0; o < N; o++ {
				ok, err := plugins[o].ShouldTransmitAcceptedReport(ctx, uint64(st+1), ocr3types.ReportWithInfo[[]byte]{Report: rb})
				code := cN(0)
				if err != nil {
					code = cN(2)
				} else if ok {
					code = cN(1)
				}
				in := cApp("GExecT", cSome(cBool(writer[o])), cN(1), cSome(cN(uint64(cand))), cBool(true))
				cls := "roles-first-poll"
				if st > 0 {
					cls = "roles-after-change"
				}
				if !writer[o] {
					cls += "-nonwriter"
				}
				sink.Emit("C16_gate_exec_roles", cls, true, cPair(in, code),
					map[string]any{"history": i, "step": st, "oracle": o, "dest_writers": fmt.Sprint(home.readers[vC16Dest]), "candidate": cand})
			}
			vC16RolesReports(ctx, rsink, plugins, ocb, writer, i, st)
		}
		_ = hc.Close()
	}
}

// Plugin.Reports of every long-lived oracle for the same outcome: all oracles must attach the schedule derived from
// the destination-writer set fetched last (seeded change C10-5 computed the schedule once per instance)
func vC16RolesReports(ctx context.Context, rsink *vSink, plugins []*Plugin, ocb []byte, writer map[int]bool, i, st int) {
	var outs []string
	seen := map[string]bool{}
	for o := range plugins {
		reports, err := plugins[o].Reports(ctx, uint64(st+1), ocb)
		var s string
		switch {
		case err != nil:
			s = "Err"
		case len(reports) == 0:
			s = "(Ok None)"
		default:
			sc := reports[0].TransmissionScheduleOverride
			if sc == nil {
				s = "Panic"
			} else {
				tr := make([]string, len(sc.Transmitters))
				for x, id := range sc.Transmitters {
					tr[x] = cN(uint64(id))
				}
				dl := make([]string, len(sc.TransmissionDelays))
				for x, d := range sc.TransmissionDelays {
					dl[x] = cZ(int64(d))
				}
				s = "(Ok (Some " + cPair(cList(tr), cList(dl)) + "))"
			}
		}
		if !seen[s] {
			seen[s] = true
			outs = append(outs, s)
		}
	}
	items := make([]string, len(plugins))
	nw := 0
	for o := range plugins {
		w := 0
		if writer[o] {
			w = 1
			nw++
		}
		items[o] = cPair(cN(uint64(o)), cNi(w))
	}
	in := cTup(cN(1), cList(items), cBool(false), cZ(int64(transmissionDelayMultiplier)))
	cls := "reports-first-poll"
	if st > 0 {
		cls = "reports-after-change"
	}
	rsink.Emit("C16_rep_exec_roles", cls, nw >= 1, cPair(in, cList(outs)),
		map[string]any{"history": i, "step": st, "dest_writers": nw, "long_lived_instances": len(plugins)})
}

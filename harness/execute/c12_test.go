//go:build verif

package execute

import (
	"context"
	"sort"
	"testing"

	"github.com/smartcontractkit/libocr/commontypes"
	"github.com/smartcontractkit/libocr/offchainreporting2plus/ocr3types"
	"github.com/smartcontractkit/libocr/offchainreporting2plus/types"
	libocrtypes "github.com/smartcontractkit/libocr/ragep2p/types"

	"github.com/smartcontractkit/chainlink-ccip/execute/exectypes"
	"github.com/smartcontractkit/chainlink-ccip/internal/mocks"
	dt "github.com/smartcontractkit/chainlink-ccip/internal/plugincommon/discovery/discoverytypes"
	readerpkg "github.com/smartcontractkit/chainlink-ccip/pkg/reader"
	cciptypes "github.com/smartcontractkit/chainlink-ccip/pkg/types/ccipocr3"
	"github.com/smartcontractkit/chainlink-ccip/pluginconfig"
)

// ---------- role configuration shared by the C12 generators of this package ----------
type vC12Cfg struct {
	Oracles []int                // oracle ids with a peer id
	Chains  []uint64             // home-chain configured chains, in emission order
	F       map[uint64]int       // fChain
	Readers map[uint64][]int     // chain -> designated oracle ids
	Dest    uint64
	Feed    uint64
}

func (c *vC12Cfg) known(o int) bool {
	for _, x := range c.Oracles {
		if x == o {
			return true
		}
	}
	return false
}
func (c *vC12Cfg) reads(o int, ch uint64) bool {
	for _, x := range c.Readers[ch] {
		if x == o {
			return true
		}
	}
	return false
}
func (c *vC12Cfg) coq() string {
	chains := make([]string, len(c.Chains))
	for i, ch := range c.Chains {
		rs := make([]string, len(c.Readers[ch]))
		for k, o := range c.Readers[ch] {
			rs[k] = cNi(o)
		}
		chains[i] = cPair(cN(ch), cPair(cZ(int64(c.F[ch])), cList(rs)))
	}
	os := make([]string, len(c.Oracles))
	for i, o := range c.Oracles {
		os[i] = cNi(o)
	}
	return cApp("mkCfg", cList(os), cList(chains), cN(c.Dest), cN(c.Feed))
}

// vC12GenCfg: 4..7 oracles, destination 900, 2..3 source chains, feed chain either a chain of its own, a source or the
// destination; role shapes: everybody everything / random subsets / a group without destination / without feed.
func vC12GenCfg(r *vRand) *vC12Cfg {
	n := r.Range(4, 7)
	perm := r.Perm(10)
	c := &vC12Cfg{F: map[uint64]int{}, Readers: map[uint64][]int{}, Dest: 900}
	for i := 0; i < n; i++ {
		c.Oracles = append(c.Oracles, perm[i])
	}
	sort.Ints(c.Oracles)
	srcs := []uint64{5, 6, 11}[:r.Range(2, 3)]
	switch r.Intn(4) {
	case 0:
		c.Feed = 900
	case 1:
		c.Feed = 5
	default:
		c.Feed = 700
	}
	c.Chains = append([]uint64{900}, srcs...)
	if c.Feed == 700 {
		c.Chains = append(c.Chains, 700)
	}
	if r.Chance(1, 25) {
		c.Chains = c.Chains[1:] // destination not configured on the home chain
	}
	shape := r.Intn(4)
	for _, ch := range c.Chains {
		c.F[ch] = r.Range(1, 2)
		for _, o := range c.Oracles {
			in := true
			switch shape {
			case 0:
			case 1:
				in = r.Chance(2, 3)
			case 2:
				in = !(ch == 900 && o == c.Oracles[len(c.Oracles)-1]) && (ch == 900 || r.Chance(3, 4))
			default:
				in = !(ch == c.Feed && o >= c.Oracles[len(c.Oracles)/2]) && r.Chance(4, 5)
			}
			if in {
				c.Readers[ch] = append(c.Readers[ch], o)
			}
		}
	}
	return c
}

func (c *vC12Cfg) homeChain() (*vHomeChain, map[commontypes.OracleID]libocrtypes.PeerID) {
	hc := vNewHomeChain()
	m := map[commontypes.OracleID]libocrtypes.PeerID{}
	for _, o := range c.Oracles {
		m[commontypes.OracleID(o)] = vPeer(o)
	}
	for _, ch := range c.Chains {
		var peers []libocrtypes.PeerID
		for _, o := range c.Readers[ch] {
			peers = append(peers, vPeer(o))
		}
		hc.SetChain(cciptypes.ChainSelector(ch), c.F[ch], peers)
	}
	return hc, m
}

// picks an observer: mostly a partial-role oracle, sometimes a full-role one, rarely an id without peer id
func (c *vC12Cfg) pickObserver(r *vRand) int {
	if r.Chance(1, 30) {
		for o := 0; o < 12; o++ {
			if !c.known(o) {
				return o
			}
		}
	}
	var partial []int
	for _, o := range c.Oracles {
		for _, ch := range c.Chains {
			if !c.reads(o, ch) {
				partial = append(partial, o)
				break
			}
		}
	}
	if len(partial) > 0 && r.Chance(3, 4) {
		return vPick(r, partial)
	}
	return vPick(r, c.Oracles)
}

func vC12ReadChains(c *vC12Cfg, o int) (rd []uint64, unread []uint64) {
	for _, ch := range c.Chains {
		if c.known(o) && c.reads(o, ch) {
			rd = append(rd, ch)
		} else {
			unread = append(unread, ch)
		}
	}
	unread = append(unread, 77) // a chain the home chain does not know
	return
}

func vC12Subset(r *vRand, xs []uint64) []uint64 {
	var out []uint64
	for _, x := range xs {
		if r.Bool() {
			out = append(out, x)
		}
	}
	return out
}

var vC12DiscNames = []string{"OnRamp", "OffRamp", "NonceManager", "RMNRemote", "FeeQuoter", "Router", "AggregatorV3Interface"}

// discovery observation: conformant entries for what the observer reads, plus optional violating entry
func vC12Disc(r *vRand, c *vC12Cfg, rd []uint64, readsDest bool, fill int, bad string, unread []uint64) (readerpkg.ContractAddresses, string) {
	ca := readerpkg.ContractAddresses{}
	type ent struct {
		code   int
		chains []uint64
	}
	var ents []ent
	add := func(code int, chains []uint64) {
		name := vC12DiscNames[code]
		if _, ok := ca[name]; ok {
			return
		}
		ca[name] = map[cciptypes.ChainSelector]cciptypes.UnknownAddress{}
		for _, ch := range chains {
			ca[name][cciptypes.ChainSelector(ch)] = []byte{byte(code + 1), byte(ch)}
		}
		ents = append(ents, ent{code, chains})
	}
	if fill > 0 {
		if readsDest && r.Bool() {
			add(0, vC12Subset(r, c.Chains))
			add(r.Range(1, 3), []uint64{c.Dest})
		}
		if len(rd) > 0 && r.Bool() {
			add(4+r.Intn(2), vC12Subset(r, rd))
		}
	}
	switch bad {
	case "disc-dest":
		code := r.Range(0, 3)
		chs := []uint64{c.Dest}
		if code == 0 {
			chs = vC12Subset(r, c.Chains) // possibly empty: the entry alone is rejected
		}
		add(code, chs)
	case "disc-own":
		add(4+r.Intn(2), append(vC12Subset(r, rd), vPick(r, unread)))
	case "disc-name":
		add(6, []uint64{c.Dest})
	case "disc-empty":
		add(r.Range(0, 5), nil) // a contract name with an empty address map
	}
	items := make([]string, len(ents))
	for i, e := range ents {
		items[i] = cPair(cNi(e.code), cListN(e.chains))
	}
	return ca, cList(items)
}


func vC12Plugin(c *vC12Cfg, me int) *Plugin {
	hc, m := c.homeChain()
	var rd readerpkg.CCIPReader = &vCCIPReader{}
	return NewPlugin(1, ocr3types.ReportingPluginConfig{F: 1, N: len(c.Oracles), OracleID: commontypes.OracleID(me)},
		pluginconfig.ExecuteOffchainConfig{}, cciptypes.ChainSelector(c.Dest), m, rd,
		mocks.NewExecutePluginJSONReportCodec(), mocks.NewMessageHasher(), hc, nil, nil, mocks.NullLogger, nil)
}

var vC12ExecClasses = []string{
	"none", "none", "none", "messages", "messages-empty", "commitreports", "nonces", "tokendata", "costly",
	"disc-dest", "disc-own", "disc-name", "malformed", "unknown-chain",
	// a chain KEY with an empty inner value: alone, and ("cross") together with data about the same chain in another field
	"tokendata-empty", "nonces-empty", "disc-empty", "cross", "cross", "cross",
}

// options of the observation generator (zero value + fill = -1: everything drawn at random)
type vC12GenOpt struct {
	bad    string // injected class; "" = drawn
	fill   int    // 0..2; -1 = drawn
	prefer uint64 // chain the injected / conformant fields should be about when possible; 0 = none
	force  bool   // conformant chain subsets include prefer whenever the observer reads it
}

// one generated execute ValidateObservation case: observation of observer o under role map c, and the round it is validated in
type vC12ExecCase struct {
	o                int
	bad              string
	fill, pstate     int
	discOn, initd    bool
	prevB, ob        []byte
	obsS             string
	nfields, nunread int
}

func (cs *vC12ExecCase) rctx() string { return cTup(cNi(cs.pstate), cBool(cs.discOn), cBool(cs.initd)) }
func (cs *vC12ExecCase) show(c *vC12Cfg, verdict string) map[string]any {
	return map[string]any{"oracles": c.Oracles, "readers": c.Readers, "dest": c.Dest, "observer": cs.o,
		"injected": cs.bad, "fill": cs.fill, "prev_state": cs.pstate, "discovery_enabled": cs.discOn, "contracts_initialized": cs.initd,
		"observation": string(cs.ob), "accepted": verdict}
}
func (cs *vC12ExecCase) verdict(ctx context.Context, p *Plugin) (v string) {
	defer func() {
		if e := recover(); e != nil {
			v = "panic"
		}
	}()
	if err := p.ValidateObservation(ctx, ocr3types.OutcomeContext{SeqNr: 7, PreviousOutcome: cs.prevB}, types.Query{},
		types.AttributedObservation{Observation: cs.ob, Observer: commontypes.OracleID(cs.o)}); err != nil {
		return "false"
	}
	return "true"
}

func vC12GenExecCase(t *testing.T, r *vRand, c *vC12Cfg, o int, opt vC12GenOpt) *vC12ExecCase {
	rd, unread := vC12ReadChains(c, o)
	// opt.prefer: the chain the injected field / the conformant fields should be about when possible
	pickUnread := func() uint64 {
		x := vPick(r, unread)
		if opt.prefer == 0 {
			return x
		}
		for _, u := range rd {
			if u == opt.prefer {
				return x
			}
		}
		return opt.prefer // not read by the observer now (possibly no longer configured at all)
	}
	// a chain the observer does not read but the home chain configures (77 only if there is none)
	pickUnreadCfg := func() uint64 {
		var cand []uint64
		for _, u := range unread {
			if u != 77 {
				cand = append(cand, u)
			}
		}
		x := uint64(77)
		if len(cand) > 0 {
			x = vPick(r, cand)
		}
		if opt.prefer != 0 {
			for _, u := range rd {
				if u == opt.prefer {
					return x
				}
			}
			return opt.prefer
		}
		return x
	}
	sub := func(xs []uint64) []uint64 {
		out := vC12Subset(r, xs)
		if !opt.force {
			return out
		}
		for _, u := range out {
			if u == opt.prefer {
				return out
			}
		}
		for _, u := range xs {
			if u == opt.prefer {
				return append(out, u)
			}
		}
		return out
	}
	readsDest := c.known(o) && c.reads(o, c.Dest)
	bad := vPick(r, vC12ExecClasses)
	fill := r.Intn(3)
	if opt.bad != "" {
		bad = opt.bad
	}
	if opt.fill >= 0 {
		fill = opt.fill
	}
	want := func() bool { return fill == 2 || (fill == 1 && r.Bool()) }
	malformed := bad == "malformed"
	roots := vNewIntern()
	// cross-field shape: chain crossX (not read by the observer) is a key with an EMPTY inner value in field crossEmpty and
	// carries data in field crossData; fields: 0 Messages, 1 TokenData, 2 Nonces, 3 CommitReports
	crossX, crossEmpty, crossData := uint64(0), -1, -1
	if bad == "cross" {
		crossX = pickUnreadCfg()
		crossEmpty = r.Intn(4)
		crossData = (crossEmpty + 1 + r.Intn(3)) % 4
	}

	obs := exectypes.Observation{}
	// ---- commit reports (destination data, keyed by source chain)
	var crS []string
	var crChains []uint64
	if want() && readsDest {
		crChains = vC12Subset(r, []uint64{5, 6, 11})
	}
	if bad == "commitreports" || (malformed && r.Bool()) {
		crChains = vC12Dedup(append(crChains, vPick(r, []uint64{5, 6})))
	}
	if bad == "unknown-chain" && r.Chance(1, 3) {
		crChains = vC12Dedup(append(crChains, 77)) // a chain without configured F
	}
	if crossEmpty == 3 || crossData == 3 {
		crChains = vC12Dedup(append(crChains, crossX))
	}
	if len(crChains) > 0 {
		obs.CommitReports = exectypes.CommitObservations{}
	}
	nreports := 0
	for _, ch := range crChains {
		k := r.Range(0, 3)
		if bad == "commitreports" && k == 0 && r.Bool() {
			k = 1
		}
		if ch == crossX && crossEmpty == 3 {
			k = 0
		}
		if ch == crossX && crossData == 3 && k == 0 {
			k = 1
		}
		var lst []exectypes.CommitData
		var lstS []string
		start := uint64(r.Range(1, 5))
		for x := 0; x < k; x++ {
			end := start + uint64(r.Range(0, 3))
			cd := exectypes.CommitData{SourceChain: cciptypes.ChainSelector(ch), MerkleRoot: cciptypes.Bytes32{byte(ch), byte(x + 1)},
				SequenceNumberRange: cciptypes.NewSeqNumRange(cciptypes.SeqNum(start), cciptypes.SeqNum(end))}
			if r.Bool() {
				cd.ExecutedMessages = append(cd.ExecutedMessages, cciptypes.SeqNum(start+uint64(r.Intn(int(end-start)+1))))
			}
			if malformed && r.Chance(1, 3) {
				switch r.Intn(4) {
				case 0:
					if x > 0 {
						cd.MerkleRoot = lst[0].MerkleRoot
					}
				case 1:
					cd.ExecutedMessages = append(cd.ExecutedMessages, cciptypes.SeqNum(end+1))
				case 2:
					if start > 1 {
						cd.ExecutedMessages = append(cd.ExecutedMessages, cciptypes.SeqNum(start-1))
					}
				default:
					if x > 0 {
						// overlap exactly at the boundary of the previous report
						cd.SequenceNumberRange = cciptypes.NewSeqNumRange(lst[x-1].SequenceNumberRange.End(), cciptypes.SeqNum(end))
					}
				}
			}
			lst = append(lst, cd)
			ex := make([]uint64, len(cd.ExecutedMessages))
			for y, s := range cd.ExecutedMessages {
				ex[y] = uint64(s)
			}
			lstS = append(lstS, cApp("mkCdata", cN(roots.Id(cd.MerkleRoot.String())), cN(uint64(cd.SequenceNumberRange.Start())),
				cN(uint64(cd.SequenceNumberRange.End())), cListN(ex)))
			start = end + 1 + uint64(r.Intn(2))
		}
		nreports += k
		obs.CommitReports[cciptypes.ChainSelector(ch)] = lst
		crS = append(crS, cPair(cN(ch), cList(lstS)))
	}
	// ---- keyed count maps
	type kc struct {
		ch uint64
		n  int
	}
	keyed := func(chains []uint64, minN int) []kc {
		var out []kc
		for _, ch := range vC12Dedup(chains) {
			out = append(out, kc{ch, r.Range(minN, 3)})
		}
		return out
	}
	kcS := func(xs []kc) string {
		s := make([]string, len(xs))
		for i, x := range xs {
			s[i] = cPair(cN(x.ch), cNi(x.n))
		}
		return cList(s)
	}
	var msgs, toks, nonces []kc
	if want() {
		msgs = keyed(sub(rd), 0)
	}
	if want() {
		toks = keyed(sub(rd), 0)
	}
	if want() && readsDest {
		nonces = keyed(vC12Subset(r, []uint64{5, 6, 11}), 0)
	}
	switch bad {
	case "messages":
		msgs = append(msgs, kc{pickUnread(), r.Range(1, 2)})
	case "messages-empty":
		msgs = append(msgs, kc{pickUnread(), 0}) // empty inner map: not an observation about that chain
	case "tokendata":
		toks = append(toks, kc{pickUnread(), r.Range(1, 2)})
	case "nonces":
		nonces = append(nonces, kc{vPick(r, []uint64{5, 6}), r.Range(1, 2)})
	case "tokendata-empty":
		toks = append(toks, kc{pickUnread(), 0}) // empty inner map: not an observation about that chain
	case "nonces-empty":
		nonces = append(nonces, kc{vPick(r, []uint64{5, 6}), 0})
	case "cross":
		put := func(xs []kc, field int) []kc {
			if crossEmpty == field {
				return append(xs, kc{crossX, 0})
			}
			if crossData == field {
				return append(xs, kc{crossX, r.Range(1, 2)})
			}
			return xs
		}
		msgs, toks, nonces = put(msgs, 0), put(toks, 1), put(nonces, 2)
	case "unknown-chain":
		// keys of chains without configured F, empty inner maps: rejected since F13d although no role is violated
		switch r.Intn(3) {
		case 0:
			msgs = append(msgs, kc{77, 0})
		case 1:
			toks = append(toks, kc{77, 0})
		default:
			nonces = append(nonces, kc{77, 0}) // nonce keys are not checked
		}
	}
	dedupKC := func(xs []kc) []kc {
		seen := map[uint64]bool{}
		var out []kc
		for i := len(xs) - 1; i >= 0; i-- { // the injected entry wins
			if !seen[xs[i].ch] {
				seen[xs[i].ch] = true
				out = append([]kc{xs[i]}, out...)
			}
		}
		return out
	}
	msgs, toks, nonces = dedupKC(msgs), dedupKC(toks), dedupKC(nonces)
	if len(msgs) > 0 {
		obs.Messages = exectypes.MessageObservations{}
	}
	keysOK := true
	for _, m := range msgs {
		inner := map[cciptypes.SeqNum]cciptypes.Message{}
		for k := 0; k < m.n; k++ {
			hdrSeq := cciptypes.SeqNum(k + 1)
			if malformed && r.Chance(1, 4) {
				hdrSeq += 7 // filed under a key different from its header
				keysOK = false
			}
			inner[cciptypes.SeqNum(k+1)] = cciptypes.Message{Header: cciptypes.RampMessageHeader{
				SourceChainSelector: cciptypes.ChainSelector(m.ch), SequenceNumber: hdrSeq, MessageID: cciptypes.Bytes32{byte(k + 1)}}}
		}
		obs.Messages[cciptypes.ChainSelector(m.ch)] = inner
	}
	if len(toks) > 0 {
		obs.TokenData = exectypes.TokenDataObservations{}
	}
	for _, m := range toks {
		inner := map[cciptypes.SeqNum]exectypes.MessageTokenData{}
		for k := 0; k < m.n; k++ {
			inner[cciptypes.SeqNum(k+1)] = exectypes.NewMessageTokenData()
		}
		obs.TokenData[cciptypes.ChainSelector(m.ch)] = inner
	}
	if len(nonces) > 0 {
		obs.Nonces = exectypes.NonceObservations{}
	}
	for _, m := range nonces {
		inner := map[string]uint64{}
		for k := 0; k < m.n; k++ {
			inner[string(rune('a'+k))] = uint64(k)
		}
		obs.Nonces[cciptypes.ChainSelector(m.ch)] = inner
	}
	costly := 0
	if (want() && readsDest && len(msgs) > 0) || bad == "costly" {
		costly = r.Range(1, 2)
	}
	for k := 0; k < costly; k++ {
		obs.CostlyMessages = append(obs.CostlyMessages, cciptypes.Bytes32{byte(k + 1)})
	}
	ca, dS := vC12Disc(r, c, rd, readsDest, fill, bad, unread)
	obs.Contracts = dt.Observation{Addresses: ca}

	ob, err := obs.Encode()
	if err != nil {
		t.Fatal(err)
	}
	// ---- round context: previous outcome state, discovery processor present or not, contracts initialised or not
	pstate := r.Intn(6) // 0 Unknown, 1 Initialized, 2 GetCommitReports, 3 GetMessages, 4 Filter, 5 no previous outcome
	discOn := !r.Chance(1, 5)
	initd := r.Bool()
	var prevB []byte
	if pstate < 5 {
		prev := exectypes.Outcome{State: []exectypes.PluginState{exectypes.Unknown, exectypes.Initialized, exectypes.GetCommitReports,
			exectypes.GetMessages, exectypes.Filter}[pstate]}
		if pstate >= 2 {
			prev.PendingCommitReports = []exectypes.CommitData{{SourceChain: 5, MerkleRoot: cciptypes.Bytes32{9},
				SequenceNumberRange: cciptypes.NewSeqNumRange(1, 3)}}
		}
		if prevB, err = prev.Encode(); err != nil {
			t.Fatal(err)
		}
	}
	return &vC12ExecCase{o: o, bad: bad, fill: fill, pstate: pstate, discOn: discOn, initd: initd, prevB: prevB, ob: ob,
		obsS: cApp("mkEobs", cList(crS), kcS(msgs), cBool(keysOK), kcS(toks), cNi(costly), kcS(nonces), dS),
		nfields: nreports + len(msgs) + len(toks) + len(nonces) + costly + len(ca), nunread: len(unread)}
}

func TestVerif_C12_exec(t *testing.T) {
	ctx := context.Background()
	r := vNewRand(vSeed() + 1202)
	n := vEnvInt("VERIF_N", 300)
	sink := vOpenSink("C12_exec")
	defer sink.Close()
	for i := 0; i < n; i++ {
		c := vC12GenCfg(r)
		o := c.pickObserver(r)
		cs := vC12GenExecCase(t, r, c, o, vC12GenOpt{fill: -1})
		p := vC12Plugin(c, vPick(r, c.Oracles))
		if !cs.discOn {
			p.discovery = nil
		}
		p.contractsInitialized = cs.initd
		verdict := cs.verdict(ctx, p)
		if verdict == "panic" {
			t.Fatalf("ValidateObservation panicked on case %d", i)
		}
		in := cTup(c.coq(), cs.rctx(), cNi(o), cs.obsS)
		sink.Emit("C12_exec", cs.bad, cs.nfields > 0 && cs.nunread > 1, cPair(in, verdict), cs.show(c, verdict))
	}
}

func vC12Dedup(xs []uint64) []uint64 {
	seen := map[uint64]bool{}
	var out []uint64
	for _, x := range xs {
		if !seen[x] {
			seen[x] = true
			out = append(out, x)
		}
	}
	return out
}

//go:build verif

package tokendata

// C19 construction part: NewConfigBasedCompositeObservers on a USDC/CCTP observer configuration, built offline
// (stub contract reader that accepts Bind, stub encoder, attestation API URL that is never called), then an in-package
// look at what was built: foreground or background child, the background observer's worker count (field and goroutines
// started), expiry, observe timeout, and the cleanup period measured on its cache (the cleanup interval is not stored).

import (
	"context"
	"errors"
	"fmt"
	"runtime"
	"sort"
	"testing"
	"time"

	commonconfig "github.com/smartcontractkit/chainlink-common/pkg/config"
	"github.com/smartcontractkit/chainlink-common/pkg/types"
	"github.com/smartcontractkit/chainlink-common/pkg/types/query"
	"github.com/smartcontractkit/chainlink-common/pkg/types/query/primitives"

	"github.com/smartcontractkit/chainlink-ccip/execute/exectypes"
	"github.com/smartcontractkit/chainlink-ccip/internal/mocks"
	"github.com/smartcontractkit/chainlink-ccip/pkg/contractreader"
	cciptypes "github.com/smartcontractkit/chainlink-ccip/pkg/types/ccipocr3"
	"github.com/smartcontractkit/chainlink-ccip/pluginconfig"
)

type vC19StubReader struct{}

func (vC19StubReader) GetLatestValue(context.Context, string, primitives.ConfidenceLevel, any, any) error {
	return errors.New("verif: stub reader")
}
func (vC19StubReader) BatchGetLatestValues(context.Context, types.BatchGetLatestValuesRequest) (types.BatchGetLatestValuesResult, error) {
	return nil, errors.New("verif: stub reader")
}
func (vC19StubReader) Bind(context.Context, []types.BoundContract) error   { return nil }
func (vC19StubReader) Unbind(context.Context, []types.BoundContract) error { return nil }
func (vC19StubReader) QueryKey(context.Context, types.BoundContract, query.KeyFilter, query.LimitAndSort, any) ([]types.Sequence, error) {
	return nil, errors.New("verif: stub reader")
}

type vC19StubEncoder struct{}

func (vC19StubEncoder) EncodeUSDC(context.Context, cciptypes.Bytes, cciptypes.Bytes) (cciptypes.Bytes, error) {
	return nil, nil
}

func vC19GoroutinesAbove(base int, settle time.Duration) int {
	end := time.Now().Add(settle)
	n := runtime.NumGoroutine() - base
	for time.Now().Before(end) {
		time.Sleep(500 * time.Microsecond)
		n = runtime.NumGoroutine() - base
	}
	if n < 0 {
		n = 0
	}
	return n
}

func TestVerif_C19_ctor(t *testing.T) {
	r := vNewRand(vSeed() + 1903)
	n := vEnvInt("VERIF_N", 12)
	sink := vOpenSink("C19_ctor")
	defer sink.Close()
	const src = cciptypes.ChainSelector(16015286601757825753)
	perms := [][3]int{{30, 90, 270}, {30, 270, 90}, {90, 30, 270}, {90, 270, 30}, {270, 30, 90}, {270, 90, 30}}
	ms := func(v int) *commonconfig.Duration {
		return commonconfig.MustNewDuration(time.Duration(v) * time.Millisecond)
	}
	for i := 0; i < n; i++ {
		w := []int{0, 1, 4, 2}[i%4]
		p := perms[(i/4+r.Intn(6))%6]
		cfg := pluginconfig.USDCCCTPObserverConfig{
			Tokens: map[cciptypes.ChainSelector]pluginconfig.USDCCCTPTokenConfig{
				src: {SourcePoolAddress: "0x1111111111111111111111111111111111111111", SourceMessageTransmitterAddr: "0x2222222222222222222222222222222222222222"}},
			AttestationAPI: "http://127.0.0.1:1/verif", AttestationAPITimeout: ms(1000), AttestationAPIInterval: ms(100),
			NumWorkers: w, CacheExpirationInterval: ms(p[0]), CacheCleanupInterval: ms(p[1]), ObserveTimeout: ms(p[2]),
		}
		readers := map[cciptypes.ChainSelector]contractreader.ContractReaderFacade{src: vC19StubReader{}}
		runtime.Gosched()
		base := runtime.NumGoroutine()
		t0 := time.Now()
		obs, err := NewConfigBasedCompositeObservers(context.Background(), mocks.NullLogger, 900,
			[]pluginconfig.TokenDataObserverConfig{{Type: "usdc-cctp", Version: "1.0", USDCCCTPObserverConfig: &cfg}},
			vC19StubEncoder{}, readers)
		if err != nil {
			t.Fatalf("C19 ctor: NewConfigBasedCompositeObservers failed offline: %v", err)
		}
		comp, ok := obs.(*compositeTokenDataObserver)
		if !ok || len(comp.observers) != 1 {
			t.Fatalf("C19 ctor: unexpected composite %T", obs)
		}
		bg, isBg := comp.observers[0].(*backgroundObserver)
		var workers, started, expiry, cleanup, timeout int
		undecided := false
		if isBg {
			// an entry that is already expired disappears at the first cleanup tick after construction
			id := vC19ID(77)
			bg.cachedTokenData.set(id, exectypes.MessageTokenData{})
			bg.cachedTokenData.mu.Lock()
			bg.cachedTokenData.expiresAt[id] = time.Now().Add(-time.Second)
			bg.cachedTokenData.mu.Unlock()
			started = vC19GoroutinesAbove(base, 2*time.Millisecond)
			workers = bg.numWorkers
			expiry = int(bg.cachedTokenData.expirationInterval / time.Millisecond)
			timeout = int(bg.observeTimeout / time.Millisecond)
			// The cleanup interval is not stored anywhere: it is measured as the MEDIAN distance between four consecutive
			// cleanup ticks (an already expired entry disappears at the next tick). Distances between ticks do not depend on
			// how long construction took (the first version classified the absolute time of the first tick and raised a
			// false alarm under load). A measurement only counts when the machine was quiet while it was taken: the polling
			// goroutine itself was never away for more than 1/8 of the measured distance and the three distances agree
			// within 1/4 of it; otherwise it is taken again (up to 12 times). When no quiet measurement can be had the
			// cleanup observable is not judged (class discarded-timing).
			_ = t0
			measure := func() (med time.Duration, quiet bool) {
				var stamps []time.Time
				var maxGap time.Duration
				for k := 0; k < 4; k++ {
					bg.cachedTokenData.set(id, exectypes.MessageTokenData{})
					bg.cachedTokenData.mu.Lock()
					bg.cachedTokenData.expiresAt[id] = time.Now().Add(-time.Second)
					bg.cachedTokenData.mu.Unlock()
					last := time.Now()
					if !vAwait(10*time.Second, func() bool {
						now := time.Now()
						if g := now.Sub(last); g > maxGap && k > 0 {
							maxGap = g
						}
						last = now
						return bg.cachedTokenData.size() == 0
					}) {
						return 0, true // the entry is never removed: that IS the observation (cleanup = 0)
					}
					stamps = append(stamps, time.Now())
				}
				d := []time.Duration{stamps[1].Sub(stamps[0]), stamps[2].Sub(stamps[1]), stamps[3].Sub(stamps[2])}
				sort.Slice(d, func(a, b int) bool { return d[a] < d[b] })
				return d[1], maxGap < d[1]/8 && d[2]-d[0] < d[1]/4
			}
			med, quiet := measure()
			for try := 1; try < 12 && !quiet; try++ {
				med, quiet = measure()
			}
			switch {
			case !quiet:
				cleanup, undecided = p[1], true
			case med == 0:
				cleanup = 0
			case med < 52*time.Millisecond:
				cleanup = 30
			case med < 156*time.Millisecond:
				cleanup = 90
			default:
				cleanup = 270
			}
		} else {
			started = vC19GoroutinesAbove(base, 2*time.Millisecond)
		}
		_ = obs.Close()
		// the goroutines end within microseconds of Close; "some are left" is decided by a watch, not by one second
		vAwait(10*time.Second, func() bool { return runtime.NumGoroutine() <= base })
		left := runtime.NumGoroutine() - base
		if left < 0 {
			left = 0
		}
		in := cTup(cNi(w), cNi(p[0]), cNi(p[1]), cNi(p[2]))
		out := cTup(cBool(isBg), cNi(workers), cNi(started), cNi(expiry), cNi(cleanup), cNi(timeout), cNi(left))
		cls := "background"
		if w == 0 {
			cls = "foreground"
		}
		if undecided {
			cls = "discarded-timing"
		}
		sink.Emit("ctor", cls, !undecided, cPair(in, out), fmt.Sprintf("workers=%d expiry=%d cleanup=%d timeout=%d -> bg=%v workers=%d started=%d expiry=%d cleanup=%d timeout=%d left=%d",
			w, p[0], p[1], p[2], isBg, workers, started, expiry, cleanup, timeout, left))
	}
}

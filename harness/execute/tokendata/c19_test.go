//go:build verif

package tokendata

// C19 correspondence harness: the background token-data observer (observer_background.go) driven step by step
// over a gate-controlled underlying observer. Every fetch blocks on a harness channel; Observe runs under a watchdog;
// Close runs under a watchdog and the goroutine count is compared with the count before the observer was built.

import (
	"context"
	"errors"
	"fmt"
	"runtime"
	"sort"
	"strings"
	"sync/atomic"
	"testing"
	"time"

	"github.com/smartcontractkit/chainlink-ccip/execute/exectypes"
	"github.com/smartcontractkit/chainlink-ccip/internal/mocks"
	cciptypes "github.com/smartcontractkit/chainlink-ccip/pkg/types/ccipocr3"
)

type vC19Fetch struct {
	kind int // 0 ok, 1 error, 2 missing entry
	data exectypes.MessageTokenData
}

type vC19Call struct {
	id uint64
	ch chan vC19Fetch
}

type vC19Under struct {
	arrivals chan vC19Call
	// a fetch that ended through its context (the observe timeout) BEFORE Close was called: the worker came back on
	// its own, which the scripted schedule does not know - the machine was too slow for the timeout of this schedule
	closing atomic.Bool
	early   atomic.Int64
}

func vC19IDN(b cciptypes.Bytes32) uint64 { return uint64(b[31]) | uint64(b[30])<<8 }
func vC19ID(n uint64) cciptypes.Bytes32 {
	var b cciptypes.Bytes32
	b[31] = byte(n)
	b[30] = byte(n >> 8)
	b[0] = 0xc1
	return b
}

func (u *vC19Under) Observe(ctx context.Context, obs exectypes.MessageObservations) (exectypes.TokenDataObservations, error) {
	for chain, bySeq := range obs {
		for seq, msg := range bySeq {
			id := vC19IDN(msg.Header.MessageID)
			ch := make(chan vC19Fetch, 1)
			u.arrivals <- vC19Call{id, ch}
			select {
			case f := <-ch:
				switch f.kind {
				case 1:
					return nil, errors.New("verif: scripted fetch error")
				case 2:
					return exectypes.TokenDataObservations{chain: {}}, nil
				}
				return exectypes.TokenDataObservations{chain: {seq: f.data}}, nil
			case <-ctx.Done():
				if !u.closing.Load() {
					u.early.Add(1)
				}
				return nil, ctx.Err()
			}
		}
	}
	return exectypes.TokenDataObservations{}, nil
}
func (u *vC19Under) IsTokenSupported(_ cciptypes.ChainSelector, tok cciptypes.RampTokenAmount) bool {
	return len(tok.ExtraData) > 0 && tok.ExtraData[0] == 1
}
func (u *vC19Under) Close() error { return nil }

type vC19Msg struct {
	idn        uint64 // message id
	chain, seq uint64
	sup        []bool
}

func (m vC19Msg) msg() cciptypes.Message {
	toks := make([]cciptypes.RampTokenAmount, len(m.sup))
	for i, s := range m.sup {
		b := byte(0)
		if s {
			b = 1
		}
		toks[i] = cciptypes.RampTokenAmount{ExtraData: cciptypes.Bytes{b}, Amount: cciptypes.NewBigIntFromInt64(1)}
	}
	return cciptypes.Message{Header: cciptypes.RampMessageHeader{MessageID: vC19ID(m.idn),
		SourceChainSelector: cciptypes.ChainSelector(m.chain), SequenceNumber: cciptypes.SeqNum(m.seq)}, TokenAmounts: toks}
}
func (m vC19Msg) coq() string {
	return cApp("mkM", cN(m.idn), cN(m.chain), cN(m.seq), cMap(m.sup, cBool))
}

type vC19Run struct {
	t        *testing.T
	r        *vRand
	data     *vIntern
	under    *vC19Under
	o        *backgroundObserver
	top      TokenDataObserver // what the caller talks to: o itself, or a composite observer built over o
	W        int
	ttl      time.Duration
	start    time.Time
	inflight []vC19Call
	total    int // messages handed to the queue and not yet returned by a fetch (waiting + picked up)
	closed   bool
	setLo    map[uint64]time.Time
	setHi    map[uint64]time.Time
	evs      []string
	outs     []string
	show     []string
	longGC   bool
	never    bool
	blocked  bool
	discard  bool
}

func (h *vC19Run) us(t time.Time) uint64 { return uint64(t.Sub(h.start) / time.Microsecond) }

func (h *vC19Run) tdCoq(d exectypes.MessageTokenData) string {
	return cMap(d.TokenData, func(t exectypes.TokenData) string {
		dn := uint64(0)
		if len(t.Data) > 0 {
			dn = h.data.Id(fmt.Sprintf("%x", []byte(t.Data)))
		}
		return cApp("mkT", cBool(t.Ready), cBool(t.Supported), cN(dn))
	})
}

// drains gate arrivals into BTake events until the workers are saturated or nothing waits
func (h *vC19Run) settle() {
	// the deadline only matters when the observer does not do what the schedule expects (then the probe shows what is
	// there); it is a watch, not a wall-clock instant: a loaded machine stretches it
	w := vNewWatch(5 * time.Second)
	drain := func() {
		for {
			select {
			case c := <-h.under.arrivals:
				h.inflight = append(h.inflight, c)
				h.evs = append(h.evs, cApp("BTake", cN(c.id)))
				h.outs = append(h.outs, cApp("OTake", "true", "true"))
				h.show = append(h.show, fmt.Sprintf("take(%d)", c.id))
			default:
				return
			}
		}
	}
	// quiet = every message handed to the queue is either still waiting or has reached the gate, and no worker idles
	// while something waits (a worker that has dequeued but not yet called the underlying observer is still on its way)
	quiet := func() bool {
		q := h.o.msgQueue.size()
		return len(h.inflight)+q >= h.total && (len(h.inflight) >= h.W || q == 0)
	}
	for {
		drain()
		if over := h.under.early.Load() > 0 || w.Expired(); h.closed || quiet() || over {
			time.Sleep(300 * time.Microsecond)
			drain()
			if h.closed || quiet() || over {
				return
			}
		}
		w.Nap()
	}
}

func (h *vC19Run) probe() {
	if h.closed {
		return
	}
	// ids of the messages waiting in the queue (in-package view) and of the fetches held at the gate
	q := h.o.msgQueue
	q.mu.RLock()
	queued := make([]uint64, 0, len(q.msgs))
	for _, m := range q.msgs {
		queued = append(queued, vC19IDN(m.msg.Header.MessageID))
	}
	q.mu.RUnlock()
	fetching := make([]uint64, 0, len(h.inflight))
	for _, c := range h.inflight {
		fetching = append(fetching, c.id)
	}
	vSortU64(queued)
	vSortU64(fetching)
	h.evs = append(h.evs, "BProbe")
	h.outs = append(h.outs, cApp("OProbe", cListN(queued), cListN(fetching)))
}

func (h *vC19Run) cacheSize() {
	h.evs = append(h.evs, "BCacheSize")
	h.outs = append(h.outs, cApp("OCache", cNi(h.o.cachedTokenData.size())))
}

func (h *vC19Run) observe(ms []vC19Msg) {
	// keep clear of the instants at which a cached entry expires
	for _, m := range ms {
		if hi, ok := h.setHi[m.idn]; ok {
			now := time.Now()
			fresh := now.Add(4 * time.Millisecond).Before(h.setLo[m.idn].Add(h.ttl))
			stale := now.After(hi.Add(h.ttl))
			if !fresh && !stale {
				time.Sleep(time.Until(hi.Add(h.ttl).Add(1500 * time.Microsecond)))
			}
		}
	}
	in := exectypes.MessageObservations{}
	for _, m := range ms {
		if in[cciptypes.ChainSelector(m.chain)] == nil {
			in[cciptypes.ChainSelector(m.chain)] = map[cciptypes.SeqNum]cciptypes.Message{}
		}
		in[cciptypes.ChainSelector(m.chain)][cciptypes.SeqNum(m.seq)] = m.msg()
	}
	tpre := time.Now()
	// how many of these will be handed to the queue (asked of the observer's own cache and id set; if those are wrong
	// the wait below simply runs into its deadline and the probe shows what is there)
	counted := map[uint64]bool{}
	for _, m := range ms {
		if counted[m.idn] {
			continue
		}
		counted[m.idn] = true
		if _, ok := h.o.cachedTokenData.get(vC19ID(m.idn)); ok {
			continue
		}
		if !h.o.msgQueue.containsMsg(vC19ID(m.idn)) {
			h.total++
		}
	}
	t0 := time.Now()
	type res struct {
		out exectypes.TokenDataObservations
		err error
	}
	done := make(chan res, 1)
	go func() {
		out, err := h.top.Observe(context.Background(), in)
		done <- res{out, err}
	}()
	h.evs = append(h.evs, cApp("BObserve", cMap(ms, vC19Msg.coq), cN(h.us(t0))))
	h.show = append(h.show, fmt.Sprintf("observe(%d msgs)", len(ms)))
	// Observe answers within microseconds; "Blocked" is decided by a watch (3 s and this goroutine scheduled all along)
	rr, returned := vRecvW(done, 3*time.Second)
	if returned {
		t1 := time.Now()
		for _, m := range ms {
			if lo, ok := h.setLo[m.idn]; ok {
				// The entry of m was stored at an instant in [lo, hi] and expires one ttl later; the model takes hi. What the
				// harness read of the cache (from tpre on) and what Observe read of it (until t1) agree with the model when
				// all of that happened before lo+ttl (fresh for sure) or after hi+ttl (stale for sure). Anything else -
				// whatever pause of the machine caused it - is not a usable sample.
				const margin = 300 * time.Microsecond
				fresh := t1.Before(lo.Add(h.ttl - margin))
				stale := tpre.After(h.setHi[m.idn].Add(h.ttl + margin))
				if !fresh && !stale {
					h.discard = true
				}
			}
		}
		if rr.err != nil {
			h.outs = append(h.outs, cApp("OObs", "ObsErr"))
			return
		}
		ents := make([]string, 0, len(ms))
		for _, m := range ms {
			bySeq, ok := rr.out[cciptypes.ChainSelector(m.chain)]
			if !ok {
				continue // a missing entry shows as a length mismatch
			}
			d, ok := bySeq[cciptypes.SeqNum(m.seq)]
			if !ok {
				continue
			}
			ents = append(ents, cTup(cN(m.chain), cN(m.seq), h.tdCoq(d)))
		}
		extra := 0
		for _, bySeq := range rr.out {
			extra += len(bySeq)
		}
		for i := len(ms); i < extra; i++ {
			ents = append(ents, cTup(cN(0), cN(0), "[]")) // entries nobody asked for
		}
		h.outs = append(h.outs, cApp("OObs", cApp("Done", cList(ents))))
	} else {
		h.outs = append(h.outs, cApp("OObs", "Blocked"))
		h.blocked = true
		h.show = append(h.show, "BLOCKED")
		// unblock the caller so that the run can be wound up: keep failing fetches until Observe returns
		end := time.Now().Add(3 * time.Second)
		for time.Now().Before(end) {
			for _, c := range h.inflight {
				c.ch <- vC19Fetch{kind: 1}
			}
			h.inflight = nil
			select {
			case <-done:
				return
			case c := <-h.under.arrivals:
				h.inflight = append(h.inflight, c)
			case <-time.After(20 * time.Millisecond):
			}
		}
	}
}

func (h *vC19Run) expiresAt(id uint64) (time.Time, bool) {
	c := h.o.cachedTokenData
	c.mu.RLock()
	defer c.mu.RUnlock()
	e, ok := c.expiresAt[vC19ID(id)]
	return e, ok
}

// the fetch of message id returns with a scripted result
func (h *vC19Run) ret(idx int, m vC19Msg, class string) {
	call := h.inflight[idx]
	id := call.id
	h.total--
	h.inflight = append(h.inflight[:idx:idx], h.inflight[idx+1:]...)
	r := h.r
	var f vC19Fetch
	var coq string
	mk := func(n int, ready func(i int, sup bool) bool) exectypes.MessageTokenData {
		td := make([]exectypes.TokenData, n)
		for i := range td {
			sup := i < len(m.sup) && m.sup[i]
			rd := ready(i, sup)
			td[i] = exectypes.TokenData{Ready: rd, Supported: sup}
			if rd {
				td[i].Data = cciptypes.Bytes{byte(r.Range(1, 200)), byte(id)}
			}
		}
		return exectypes.MessageTokenData{TokenData: td}
	}
	switch class {
	case "ready":
		f.data = mk(len(m.sup), func(_ int, sup bool) bool { return sup })
	case "notready":
		k := r.Intn(len(m.sup) + 1)
		f.data = mk(len(m.sup), func(i int, sup bool) bool { return sup && i != k%maxInt(len(m.sup), 1) })
	case "shape":
		f.data = mk(len(m.sup)+r.Range(1, 2), func(_ int, sup bool) bool { return sup })
	case "err":
		f.kind = 1
	default:
		f.kind = 2
	}
	before, had := h.expiresAt(id)
	lo := time.Now()
	call.ch <- f
	stored := f.kind == 0 && f.data.SupportedAreReady()
	if stored {
		// the event: the worker has written the entry (in-package view). If it never does, the watch ends the wait and
		// the schedule goes on - the model will then disagree with what Observe answers
		vAwait(5*time.Second, func() bool {
			e, ok := h.expiresAt(id)
			return ok && (!had || !e.Equal(before))
		})
	} else {
		time.Sleep(300 * time.Microsecond)
	}
	hi := time.Now()
	switch f.kind {
	case 0:
		coq = cApp("FOk", h.tdCoq(f.data))
	case 1:
		coq = "FErr"
	default:
		coq = "FMissing"
	}
	if stored {
		h.setLo[id], h.setHi[id] = lo, hi
	}
	h.evs = append(h.evs, cApp("BReturn", cN(id), coq, cN(h.us(hi))))
	h.outs = append(h.outs, "ONone")
	h.show = append(h.show, fmt.Sprintf("return(%d,%s)", id, class))
}

func maxInt(a, b int) int {
	if a > b {
		return a
	}
	return b
}

func vC19Pool() []vC19Msg {
	return []vC19Msg{
		{1, 10, 1, []bool{true}}, {2, 10, 2, []bool{true, false}}, {3, 10, 3, []bool{false}}, {4, 20, 1, nil},
		{5, 20, 2, []bool{true, true}}, {6, 30, 7, []bool{false, true, true}}, {7, 30, 8, []bool{true}}, {8, 40, 1, []bool{true}},
		{1, 50, 9, []bool{true}}, // a second message carrying message id 1
	}
}

// one schedule on a fresh observer; returns false when the sample has to be thrown away (timing)
func vC19Schedule(t *testing.T, r *vRand, cls string, sink *vSink, composite bool) bool {
	pool := vC19Pool()
	byID := map[uint64]vC19Msg{}
	for _, m := range pool[:8] {
		byID[m.idn] = m
	}
	h := &vC19Run{t: t, r: r, data: vNewIntern(), W: r.Range(1, 3), ttl: 25 * time.Millisecond,
		setLo: map[uint64]time.Time{}, setHi: map[uint64]time.Time{}}
	h.longGC = !r.Chance(3, 10)
	h.never = cls == "never"
	if cls == "saturate" {
		h.W = 1
	}
	cleanup := time.Hour
	if !h.longGC {
		cleanup = 2 * time.Millisecond
	}
	timeout := 5 * time.Second
	if h.never {
		// fetches left unanswered run into this timeout after Close; the schedule before Close has to fit into it (when
		// it does not - a fetch ends early, vC19Under.early - the sample is thrown away), so it follows the scheduling
		// latency of the machine
		if timeout = vScaled(150 * time.Millisecond); timeout > 1500*time.Millisecond {
			timeout = 1500 * time.Millisecond
		}
	}
	h.under = &vC19Under{arrivals: make(chan vC19Call, 1024)}
	runtime.Gosched()
	baseline := runtime.NumGoroutine()
	h.start = time.Now()
	h.o = NewBackgroundObserver(mocks.NullLogger, h.under, h.W, h.ttl, cleanup, timeout).(*backgroundObserver)
	h.top = h.o
	passThrough := true
	if composite {
		h.top = NewCompositeObservers(mocks.NullLogger, h.o)
		for _, b := range []byte{0, 1} {
			tok := cciptypes.RampTokenAmount{ExtraData: cciptypes.Bytes{b}}
			if h.top.IsTokenSupported(1, tok) != h.under.IsTokenSupported(1, tok) {
				passThrough = false
			}
		}
	}

	pick := func() []vC19Msg {
		n := r.Range(1, 5)
		if cls == "saturate" && r.Chance(1, 2) {
			n = 8
		}
		var ms []vC19Msg
		for _, i := range r.Perm(8)[:n] {
			ms = append(ms, pool[i])
		}
		if r.Chance(1, 12) { // id 1 under a second chain/seq (never next to the first one: which of the two
			// would be queued depends on map order and on how fast a worker picks the first up)
			var keep []vC19Msg
			for _, m := range ms {
				if m.idn != 1 {
					keep = append(keep, m)
				}
			}
			ms = append(keep, pool[8])
		}
		return ms
	}
	after := func() {
		if !h.blocked {
			h.settle()
			h.probe()
		}
	}
	retID := func(id uint64, class string) bool {
		for i, c := range h.inflight {
			if c.id == id {
				h.ret(i, byID[id], class)
				return true
			}
		}
		return false
	}
	steps := r.Range(4, 12)
	if cls == "refetch" {
		steps = 0
		m := pool[r.Intn(8)]
		batch := func() []vC19Msg {
			ms := []vC19Msg{m}
			for _, i := range r.Perm(8)[:r.Intn(3)] {
				if pool[i].idn != m.idn {
					ms = append(ms, pool[i])
				}
			}
			return ms
		}
		h.observe(batch())
		after()
		if r.Bool() { // a failed fetch first: the message has to be asked for, and fetched, again
			if retID(m.idn, vPick(r, []string{"err", "missing", "notready"})) {
				after()
				h.observe(batch())
				after()
			}
		}
		if retID(m.idn, "ready") {
			after()
			h.observe([]vC19Msg{m}) // served from the cache
			after()
			if hi, ok := h.setHi[m.idn]; ok {
				time.Sleep(time.Until(hi.Add(h.ttl).Add(2 * time.Millisecond)))
				h.show = append(h.show, "sleep")
			}
			h.observe(batch()) // expired: must be queued (and fetched) again
			after()
			if r.Chance(2, 3) && retID(m.idn, vPick(r, []string{"ready", "ready", "err"})) {
				after()
				h.observe([]vC19Msg{m})
				after()
			}
		}
	}
	for s := 0; s < steps && !h.blocked; s++ {
		switch {
		case s == 0 || r.Chance(4, 10):
			h.observe(pick())
		case len(h.inflight) > 0 && r.Chance(8, 10):
			idx := r.Intn(len(h.inflight))
			class := vPick(r, []string{"ready", "ready", "ready", "ready", "notready", "err", "missing", "shape"})
			h.ret(idx, byID[h.inflight[idx].id], class)
		case len(h.setHi) > 0 && !h.never && r.Chance(1, 2):
			var last time.Time
			for _, hi := range h.setHi {
				if hi.After(last) {
					last = hi
				}
			}
			time.Sleep(time.Until(last.Add(h.ttl).Add(2 * time.Millisecond)))
			h.show = append(h.show, "sleep")
			if !h.longGC {
				// everything stored so far has expired; the event waited for is a pass of the cleanup loop (interval 2 ms) over
				// the cache: no expired entry is left (in-package view). A loop that never removes them runs into the watch.
				vAwait(2*time.Second, func() bool {
					c := h.o.cachedTokenData
					c.mu.RLock()
					defer c.mu.RUnlock()
					now := time.Now().UTC()
					for id := range c.inMemTokenData {
						if e, ok := c.expiresAt[id]; !ok || now.After(e) {
							return false
						}
					}
					return true
				})
				h.evs = append(h.evs, cApp("BTick", cN(h.us(time.Now()))))
				h.outs = append(h.outs, "ONone")
				h.cacheSize()
			}
			continue
		default:
			h.observe(pick())
		}
		if h.blocked {
			break
		}
		h.settle()
		h.probe()
		if h.longGC && r.Chance(1, 3) {
			h.cacheSize()
		}
	}

	// Close, with whatever is in flight or waiting
	h.evs = append(h.evs, "BClose")
	h.outs = append(h.outs, "ONone")
	h.show = append(h.show, "close")
	h.closed = true
	h.under.closing.Store(true)
	// the waiting messages, oldest first (in-package view), as they are when Close is called
	qpos := map[uint64]int{}
	h.o.msgQueue.mu.RLock()
	for i, m := range h.o.msgQueue.msgs {
		qpos[vC19IDN(m.msg.Header.MessageID)] = i + 1
	}
	h.o.msgQueue.mu.RUnlock()
	var post []uint64
	closeDone := make(chan struct{})
	go func() { _ = h.top.Close(); close(closeDone) }()
	closeOK := true
	if !h.blocked {
		// in-flight fetches: returned now, or (class never) left to run into the observe timeout
		for len(h.inflight) > 0 {
			id := h.inflight[0].id
			if h.never && r.Chance(2, 3) {
				h.inflight = h.inflight[1:]
				h.evs = append(h.evs, cApp("BReturn", cN(id), "FErr", cN(h.us(time.Now()))))
				h.outs = append(h.outs, "ONone")
				h.show = append(h.show, fmt.Sprintf("never(%d)", id))
				continue
			}
			h.ret(0, byID[id], vPick(r, []string{"ready", "err"}))
		}
	}
	// Close returns within microseconds (class never: after the observe timeout); "did not return" and "goroutines
	// left" are decided by watches
	cw := vNewWatch(10*time.Second + timeout)
	tick := time.NewTicker(time.Millisecond)
	defer tick.Stop()
wait:
	for {
		select {
		case <-closeDone:
			break wait
		case c := <-h.under.arrivals:
			// a worker that came back after done was closed may still win one more signal
			post = append(post, c.id)
			c.ch <- vC19Fetch{kind: 1}
		case <-tick.C:
			if cw.Credit(time.Millisecond); cw.Expired() {
				closeOK = false
				break wait
			}
		}
	}
	// The fetches in flight were all returned at once, so several workers may have come back together and each have
	// taken one more message: WHICH of them reached the gate first is the scheduler's choice, not the observer's. The
	// pick-ups are therefore recorded oldest message first (a pick-up that is not from the head of the queue still
	// shows as such).
	sort.SliceStable(post, func(a, b int) bool {
		pa, pb := qpos[post[a]], qpos[post[b]]
		return pa != 0 && (pb == 0 || pa < pb)
	})
	for _, id := range post {
		h.evs = append(h.evs, cApp("BTake", cN(id)), cApp("BReturn", cN(id), "FErr", cN(h.us(time.Now()))))
		h.outs = append(h.outs, cApp("OTake", "true", "true"), "ONone")
	}
	if closeOK && !h.blocked && r.Chance(1, 3) {
		// after Close an Observe must still answer at once (cached data, or placeholders)
		h.observe(pick())
	}
	noLeak := vAwait(10*time.Second, func() bool { return runtime.NumGoroutine() <= baseline })
	if h.discard || h.under.early.Load() > 0 {
		return false
	}
	in := cTup(cNi(h.W), cN(uint64(h.ttl/time.Microsecond)), cList(h.evs))
	out := cPair(cList(h.outs), cPair(cBool(closeOK), cBool(noLeak)))
	part := "bg"
	if composite {
		part = "comp"
		out = cPair(out, cBool(passThrough))
	}
	sink.Emit(part, cls, len(h.evs) >= 6, cPair(in, out), strings.Join(h.show, " "))
	return true
}

// a sample thrown away for timing is drawn again (up to 8 times); when the machine is too loaded for all of them the
// case is recorded as such - class discarded-timing, trivial, the empty schedule (which model and property accept) -
// instead of being dropped silently
func vC19Tries(t *testing.T, r *vRand, cls string, sink *vSink, composite bool) {
	for try := 0; try < 8; try++ {
		if vC19Schedule(t, r, cls, sink, composite) {
			return
		}
	}
	in := cTup(cNi(1), cN(25000), "[]")
	out := cPair("[]", cPair(cBool(true), cBool(true)))
	part := "bg"
	if composite {
		part = "comp"
		out = cPair(out, cBool(true))
	}
	sink.Emit(part, "discarded-timing", false, cPair(in, out), "every sample of class "+cls+" was disturbed by the machine's timing")
}

func TestVerif_C19(t *testing.T) {
	r := vNewRand(vSeed() + 1901)
	n := vEnvInt("VERIF_N", 100)
	sink := vOpenSink("C19_bg")
	defer sink.Close()
	classes := []string{"mixed", "refetch", "saturate", "never", "mixed", "refetch"}
	for i := 0; i < n; i++ {
		cls := classes[i%len(classes)]
		vC19Tries(t, r, cls, sink, false)
	}
}

// the same schedules through NewCompositeObservers(NewBackgroundObserver(gated observer)): Observe, IsTokenSupported
// and Close of the composite
func TestVerif_C19_comp(t *testing.T) {
	r := vNewRand(vSeed() + 1902)
	n := vEnvInt("VERIF_N", 60)
	sink := vOpenSink("C19_comp")
	defer sink.Close()
	classes := []string{"mixed", "refetch", "saturate", "never", "mixed", "refetch"}
	for i := 0; i < n; i++ {
		cls := classes[i%len(classes)]
		vC19Tries(t, r, cls, sink, true)
	}
}

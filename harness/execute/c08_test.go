//go:build verif

package execute

import (
	"context"
	"testing"

	"github.com/smartcontractkit/chainlink-ccip/execute/exectypes"
	"github.com/smartcontractkit/chainlink-ccip/internal/mocks"
	cciptypes "github.com/smartcontractkit/chainlink-ccip/pkg/types/ccipocr3"
)

// scripted ExecReportBuilder: entry k >= 0: Add succeeds, marks k more messages executed and appends a chain
// report when k > 0; entry -1: Add fails.
type vC08ScriptedBuilder struct {
	script []int
	pos    int
	calls  []uint64 // SourceChain of every commit report handed to Add
	built  []cciptypes.ExecutePluginReportSingleChain
}

func (b *vC08ScriptedBuilder) Add(_ context.Context, cd exectypes.CommitData) (exectypes.CommitData, error) {
	b.calls = append(b.calls, uint64(cd.SourceChain))
	k := 0 // script used up: succeed, add nothing
	if b.pos < len(b.script) {
		k = b.script[b.pos]
		b.pos++
		if k < 0 {
			return cd, vErr
		}
	}
	out := cd
	out.ExecutedMessages = append([]cciptypes.SeqNum{}, cd.ExecutedMessages...)
	for j := 0; j < k; j++ {
		out.ExecutedMessages = append(out.ExecutedMessages, cciptypes.SeqNum(1000+j))
	}
	if k > 0 {
		b.built = append(b.built, cciptypes.ExecutePluginReportSingleChain{SourceChainSelector: cd.SourceChain})
	}
	return out, nil
}
func (b *vC08ScriptedBuilder) Build() ([]cciptypes.ExecutePluginReportSingleChain, error) {
	return b.built, nil
}

func TestVerif_C08_select(t *testing.T) {
	r := vNewRand(vSeed() + 803)
	n := vEnvInt("VERIF_N", 200)
	sink := vOpenSink("C08_sel")
	defer sink.Close()
	for i := 0; i < n; i++ {
		ncd := r.Range(0, 6)
		cds := make([]exectypes.CommitData, ncd)
		var shape []string
		var script []int
		var scriptS []string
		for k := 0; k < ncd; k++ {
			nm := vPick(r, []int{0, 0, 1, 2, 3, 5})
			ne := 0
			if nm > 0 {
				ne = vPick(r, []int{0, 0, nm - 1, nm, nm / 2})
			} else if r.Chance(1, 4) {
				ne = r.Intn(3)
			}
			cd := exectypes.CommitData{SourceChain: cciptypes.ChainSelector(k)}
			for j := 0; j < nm; j++ {
				cd.Messages = append(cd.Messages, cciptypes.Message{Header: cciptypes.RampMessageHeader{SequenceNumber: cciptypes.SeqNum(j)}})
			}
			for j := 0; j < ne; j++ {
				cd.ExecutedMessages = append(cd.ExecutedMessages, cciptypes.SeqNum(j))
			}
			cds[k] = cd
			shape = append(shape, cPair(cNi(nm), cNi(ne)))
			if nm > 0 {
				// boundary: exactly fills / one short / nothing / everything
				e := vPick(r, []int{0, 0, nm - ne, nm - ne - 1, 1, nm})
				if e < 0 {
					e = 0
				}
				if r.Chance(1, 12) {
					e = -1
				}
				script = append(script, e)
				if e < 0 {
					scriptS = append(scriptS, cNone())
				} else {
					scriptS = append(scriptS, cSome(cNi(e)))
				}
			}
		}
		b := &vC08ScriptedBuilder{script: script}
		var out string
		func() {
			defer func() {
				if recover() != nil {
					out = "Panic"
				}
			}()
			reps, pend, err := selectReport(context.Background(), mocks.NullLogger, cds, b)
			if err != nil {
				out = "Err"
				return
			}
			ps := make([]string, len(pend))
			for k, p := range pend {
				ps[k] = cPair(cN(uint64(p.SourceChain)), cNi(len(p.ExecutedMessages)))
			}
			out = "(Ok " + cTup(cNi(len(reps)), cList(ps), cListN(b.calls)) + ")"
		}()
		in := cPair(cList(scriptS), cList(shape))
		sink.Emit("C08_sel", "scripted", ncd > 0, cPair(in, out), map[string]any{"commit_reports": ncd, "script": script, "add_calls": b.calls})
	}
}

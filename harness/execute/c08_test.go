//go:build verif

package execute

import (
	"context"
	"encoding/binary"
	"encoding/hex"
	"errors"
	"math/big"
	"sort"
	"testing"
	"time"

	"github.com/smartcontractkit/chainlink-common/pkg/hashutil"
	"github.com/smartcontractkit/chainlink-common/pkg/merklemulti"
	"github.com/smartcontractkit/libocr/commontypes"
	"github.com/smartcontractkit/libocr/offchainreporting2plus/ocr3types"
	"github.com/smartcontractkit/libocr/offchainreporting2plus/types"
	libocrtypes "github.com/smartcontractkit/libocr/ragep2p/types"

	"github.com/smartcontractkit/chainlink-ccip/execute/exectypes"
	"github.com/smartcontractkit/chainlink-ccip/execute/report"
	"github.com/smartcontractkit/chainlink-ccip/internal/libs/slicelib"
	typeconv "github.com/smartcontractkit/chainlink-ccip/internal/libs/typeconv"
	"github.com/smartcontractkit/chainlink-ccip/internal/mocks"
	"github.com/smartcontractkit/chainlink-ccip/internal/plugincommon"
	cciptypes "github.com/smartcontractkit/chainlink-ccip/pkg/types/ccipocr3"
	"github.com/smartcontractkit/chainlink-ccip/pluginconfig"
)

// scripted ExecReportBuilder: entry k >= 0: Add succeeds, marks k more messages executed and appends a chain
// report when k > 0; entry -1: Add fails.
type vC08ScriptedBuilder struct {
	script []int
	pos    int
	calls  []uint64 // SourceChain of every commit report handed to Add
	built  []cciptypes.ExecutePluginReportSingleChain
}

func (b *vC08ScriptedBuilder) Add(_ context.Context, cd exectypes.CommitData) (exectypes.CommitData, error) {
	b.calls = append(b.calls, uint64(cd.SourceChain))
	k := 0 // script used up: succeed, add nothing
	if b.pos < len(b.script) {
		k = b.script[b.pos]
		b.pos++
		if k < 0 {
			return cd, vErrNext()
		}
	}
	out := cd
	out.ExecutedMessages = append([]cciptypes.SeqNum{}, cd.ExecutedMessages...)
	for j := 0; j < k; j++ {
		out.ExecutedMessages = append(out.ExecutedMessages, cciptypes.SeqNum(1000+j))
	}
	if k > 0 {
		b.built = append(b.built, cciptypes.ExecutePluginReportSingleChain{SourceChainSelector: cd.SourceChain})
	}
	return out, nil
}
func (b *vC08ScriptedBuilder) Build() ([]cciptypes.ExecutePluginReportSingleChain, error) {
	return b.built, nil
}

func TestVerif_C08_select(t *testing.T) {
	r := vNewRand(vSeed() + 803)
	n := vEnvInt("VERIF_N", 200)
	sink := vOpenSink("C08_sel")
	defer sink.Close()
	for i := 0; i < n; i++ {
		ncd := r.Range(0, 6)
		cds := make([]exectypes.CommitData, ncd)
		var shape []string
		var script []int
		var scriptS []string
		for k := 0; k < ncd; k++ {
			nm := vPick(r, []int{0, 0, 1, 2, 3, 5})
			ne := 0
			if nm > 0 {
				ne = vPick(r, []int{0, 0, nm - 1, nm, nm / 2})
			} else if r.Chance(1, 4) {
				ne = r.Intn(3)
			}
			cd := exectypes.CommitData{SourceChain: cciptypes.ChainSelector(k)}
			for j := 0; j < nm; j++ {
				cd.Messages = append(cd.Messages, cciptypes.Message{Header: cciptypes.RampMessageHeader{SequenceNumber: cciptypes.SeqNum(j)}})
			}
			for j := 0; j < ne; j++ {
				cd.ExecutedMessages = append(cd.ExecutedMessages, cciptypes.SeqNum(j))
			}
			cds[k] = cd
			shape = append(shape, cPair(cNi(nm), cNi(ne)))
			if nm > 0 {
				// boundary: exactly fills / one short / nothing / everything
				e := vPick(r, []int{0, 0, nm - ne, nm - ne - 1, 1, nm})
				if e < 0 {
					e = 0
				}
				if r.Chance(1, 12) {
					e = -1
				}
				script = append(script, e)
				if e < 0 {
					scriptS = append(scriptS, cNone())
				} else {
					scriptS = append(scriptS, cSome(cNi(e)))
				}
			}
		}
		b := &vC08ScriptedBuilder{script: script}
		var out string
		func() {
			defer func() {
				if recover() != nil {
					out = "Panic"
				}
			}()
			reps, pend, err := selectReport(context.Background(), mocks.NullLogger, cds, b)
			if err != nil {
				out = "Err"
				return
			}
			ps := make([]string, len(pend))
			for k, p := range pend {
				ps[k] = cPair(cN(uint64(p.SourceChain)), cNi(len(p.ExecutedMessages)))
			}
			out = "(Ok " + cTup(cNi(len(reps)), cList(ps), cListN(b.calls)) + ")"
		}()
		in := cPair(cList(scriptS), cList(shape))
		sink.Emit("C08_sel", "scripted", ncd > 0, cPair(in, out), map[string]any{"commit_reports": ncd, "script": script, "add_calls": b.calls})
	}
}

// =====================================================================================================
// part out: the real execute.Plugin in the Filter state.  Previous outcome = a GetMessages outcome (pending commit
// reports with messages, token data, costly flags), attributed observations carrying nonces, Plugin.Outcome decoded.
// =====================================================================================================

const vC08PDest = cciptypes.ChainSelector(900)
const vC08PMaxReport = 1024 * 1024 // execute/factory.go maxReportLength, restated here on purpose

// codec oracle: base + weight*len(Data) per message + 32 per proof + 3 per token data entry
type vC08PCodec struct{ base, weight int }

func (c vC08PCodec) Encode(_ context.Context, rep cciptypes.ExecutePluginReport) ([]byte, error) {
	size := c.base
	for _, cr := range rep.ChainReports {
		for _, m := range cr.Messages {
			size += c.weight * len(m.Data)
		}
		size += 32 * len(cr.Proofs)
		for _, td := range cr.OffchainTokenData {
			size += 3 * len(td)
		}
	}
	return make([]byte, size), nil
}
func (c vC08PCodec) Decode(context.Context, []byte) (cciptypes.ExecutePluginReport, error) {
	return cciptypes.ExecutePluginReport{}, errors.New("not used")
}

type vC08PEst struct {
	gas      map[cciptypes.Bytes32]uint64
	tga, tgb uint64
}

func (e vC08PEst) CalculateMerkleTreeGas(n int) uint64               { return e.tga + e.tgb*uint64(n) }
func (e vC08PEst) CalculateMessageMaxGas(m cciptypes.Message) uint64 { return e.gas[m.Header.MessageID] }

// reference tree over keccak (mirrors Merkle.v layers_from / pair_up); fills the hash table
type vC08PTab struct {
	in   *vIntern
	rows map[[2]uint64]bool
	list []string
}

func (t *vC08PTab) id(h [32]byte) uint64 { return t.in.Id(hex.EncodeToString(h[:])) }
func (t *vC08PTab) root(leaves [][32]byte) [32]byte {
	k := hashutil.NewKeccak()
	layer := append([][32]byte{}, leaves...)
	for len(layer) > 1 {
		if len(layer)%2 != 0 {
			layer = append(layer, k.ZeroHash())
		}
		var next [][32]byte
		for i := 0; i < len(layer); i += 2 {
			c := k.HashInternal(layer[i], layer[i+1])
			a, b := t.id(layer[i]), t.id(layer[i+1])
			if a > b {
				a, b = b, a
			}
			if !t.rows[[2]uint64{a, b}] {
				t.rows[[2]uint64{a, b}] = true
				t.list = append(t.list, cTup(cN(a), cN(b), cN(t.id(c))))
			}
			next = append(next, c)
		}
		layer = next
	}
	if len(layer) == 0 {
		return [32]byte{}
	}
	return layer[0]
}

type vC08PPrinter struct {
	tab     *vC08PTab
	senders *vIntern
	datas   *vIntern
	gas     map[cciptypes.Bytes32]uint64
	weight  int
}

func (p *vC08PPrinter) msgOf(m cciptypes.Message) string {
	s := typeconv.AddressBytesToString(m.Sender[:], uint64(vC08PDest))
	return cApp("mkMsg", cN(p.tab.id(m.Header.MessageID)), cN(uint64(m.Header.SourceChainSelector)),
		cN(uint64(m.Header.SequenceNumber)), cN(m.Header.Nonce), cN(p.senders.Id(s)), cNi(p.weight*len(m.Data)),
		cN(p.gas[m.Header.MessageID]))
}
func (p *vC08PPrinter) cdOf(cd exectypes.CommitData) string {
	ex := make([]string, len(cd.ExecutedMessages))
	for i, e := range cd.ExecutedMessages {
		ex[i] = cN(uint64(e))
	}
	co := make([]string, len(cd.CostlyMessages))
	for i, e := range cd.CostlyMessages {
		co[i] = cN(p.tab.id(e))
	}
	td := make([]string, len(cd.MessageTokenData))
	for i, mtd := range cd.MessageTokenData {
		td[i] = cMap(mtd.TokenData, func(t exectypes.TokenData) string {
			return cPair(cBool(t.Ready), cN(p.datas.Id(hex.EncodeToString(t.Data))))
		})
	}
	return cApp("mkCD", cN(uint64(cd.SourceChain)), cN(p.tab.id(cd.MerkleRoot)),
		cN(uint64(cd.SequenceNumberRange.Start())), cN(uint64(cd.SequenceNumberRange.End())),
		cList(ex), cMap(cd.Messages, p.msgOf), cList(co), cList(td))
}
func (p *vC08PPrinter) repOf(r cciptypes.ExecutePluginReportSingleChain) string {
	td := make([]string, len(r.OffchainTokenData))
	for i, x := range r.OffchainTokenData {
		td[i] = cMap(x, func(b []byte) string { return cN(p.datas.Id(hex.EncodeToString(b))) })
	}
	pr := cMap(r.Proofs, func(b cciptypes.Bytes32) string { return cN(p.tab.id(b)) })
	fl := big.NewInt(0)
	if r.ProofFlagBits.Int != nil {
		fl = r.ProofFlagBits.Int
	}
	return cApp("mkCR", cN(uint64(r.SourceChainSelector)), cMap(r.Messages, p.msgOf), cList(td), pr, cZb(fl))
}

func vC08PB32(r *vRand) (b [32]byte) {
	for i := 0; i < 4; i++ {
		binary.BigEndian.PutUint64(b[8*i:], r.U64())
	}
	return
}

// contract-style re-verification of one chain report against a committed root (independent of the Coq side)
func vC08PReverify(r cciptypes.ExecutePluginReportSingleChain, root [32]byte) (ok bool) {
	defer func() {
		if recover() != nil {
			ok = false
		}
	}()
	var leaves, ps [][32]byte
	for _, m := range r.Messages {
		leaves = append(leaves, m.Header.MessageID)
	}
	for _, p := range r.Proofs {
		ps = append(ps, p)
	}
	n := len(leaves) + len(ps) - 1
	if n < 0 || r.ProofFlagBits.Int == nil {
		return false
	}
	got, err := merklemulti.VerifyComputeRoot(hashutil.NewKeccak(), leaves,
		merklemulti.Proof[[32]byte]{Hashes: ps, SourceFlags: slicelib.BitFlagsToBools(r.ProofFlagBits.Int, n)})
	return err == nil && got == root
}

func TestVerif_C08_outcome(t *testing.T) {
	ctx := context.Background()
	r := vNewRand(vSeed() + 804)
	n := vEnvInt("VERIF_N", 150)
	sink := vOpenSink("C08_out")
	defer sink.Close()
	for i := 0; i < n; i++ {
		cls := vPick(r, []string{"plain", "plain", "gas-pressure", "gas-pressure", "size-pressure", "size-pressure",
			"crossnonce", "byzantine-nonce", "tamper-first", "tamper-later", "costly"})
		chains := []uint64{1, 2, 3}[:r.Range(1, 3)]
		// three sender addresses shared by all source chains; on-chain nonces differ per chain
		var sbytes [3][]byte
		var sstr [3]string
		for k := range sbytes {
			b := make([]byte, 20)
			binary.BigEndian.PutUint64(b, r.U64())
			b[19] = byte(k)
			sbytes[k] = b
			sstr[k] = typeconv.AddressBytesToString(b, uint64(vC08PDest))
		}
		onchain := map[uint64][3]uint64{}
		next := map[uint64][3]uint64{}
		for _, ch := range chains {
			var on [3]uint64
			for k := range on {
				on[k] = vPick(r, []uint64{0, 3, 10, 41, 100}) + 7*ch
			}
			onchain[ch] = on
			next[ch] = [3]uint64{on[0] + 1, on[1] + 1, on[2] + 1}
		}
		if cls == "crossnonce" && len(chains) >= 2 {
			// the messages of chain 1 continue the nonces of chain 2 and vice versa
			next[chains[0]] = [3]uint64{onchain[chains[1]][0] + 1, onchain[chains[1]][1] + 1, onchain[chains[1]][2] + 1}
			next[chains[1]] = [3]uint64{onchain[chains[0]][0] + 1, onchain[chains[0]][1] + 1, onchain[chains[0]][2] + 1}
		}
		gas := map[cciptypes.Bytes32]uint64{}
		tab := &vC08PTab{in: vNewIntern(), rows: map[[2]uint64]bool{}}
		zeroID := tab.id(hashutil.NewKeccak().ZeroHash())
		var cds []exectypes.CommitData
		sumData := 0
		for _, ch := range chains {
			seq := uint64(r.Range(1, 40))
			for k := r.Range(1, 3); k > 0; k-- {
				nm := vPick(r, []int{0, 1, 2, 3, 4, 5, 6, 8})
				if nm == 0 && r.Bool() {
					nm = 3
				}
				cd := exectypes.CommitData{SourceChain: cciptypes.ChainSelector(ch), Timestamp: time.Unix(1700000000+int64(seq), 0).UTC(),
					BlockNum: seq, SequenceNumberRange: cciptypes.NewSeqNumRange(cciptypes.SeqNum(seq), cciptypes.SeqNum(seq+uint64(max(nm, 1))-1))}
				var leaves [][32]byte
				nx := next[ch]
				for j := 0; j < nm; j++ {
					s := r.Intn(3)
					m := cciptypes.Message{
						Header: cciptypes.RampMessageHeader{MessageID: vC08PB32(r), SourceChainSelector: cciptypes.ChainSelector(ch),
							DestChainSelector: vC08PDest, SequenceNumber: cciptypes.SeqNum(seq + uint64(j))},
						Sender: append([]byte{}, sbytes[s]...), Data: make([]byte, vPick(r, []int{0, 1, 5, 20, 60}))}
					if !r.Chance(1, 4) {
						m.Header.Nonce = nx[s]
						nx[s]++
						if r.Chance(1, 25) {
							nx[s]++
						}
					}
					gas[m.Header.MessageID] = uint64(vPick(r, []int{0, 100, 5000, 90000}))
					sumData += len(m.Data)
					cd.Messages = append(cd.Messages, m)
					leaves = append(leaves, m.Header.MessageID)
					mtd := exectypes.MessageTokenData{TokenData: []exectypes.TokenData{}}
					for q := vPick(r, []int{0, 1, 1, 2}); q > 0; q-- {
						mtd.TokenData = append(mtd.TokenData, exectypes.TokenData{Ready: !r.Chance(1, 10), Data: []byte{byte(r.Intn(5)), byte(q)}})
					}
					cd.MessageTokenData = append(cd.MessageTokenData, mtd)
					if r.Chance(1, 8) {
						cd.ExecutedMessages = append(cd.ExecutedMessages, m.Header.SequenceNumber)
					}
					if (cls == "costly" && r.Chance(1, 3)) || r.Chance(1, 15) {
						cd.CostlyMessages = append(cd.CostlyMessages, m.Header.MessageID)
					}
				}
				next[ch] = nx
				cd.MerkleRoot = tab.root(leaves)
				cds = append(cds, cd)
				seq += uint64(max(nm, 1)) + uint64(r.Intn(3))
			}
		}
		// tampering: a commit report that does not reproduce its root, first or later in processing order
		withMsgs := []int{}
		for k, cd := range cds {
			if len(cd.Messages) > 0 {
				withMsgs = append(withMsgs, k)
			}
		}
		if (cls == "tamper-first" || cls == "tamper-later") && len(withMsgs) > 0 {
			k := withMsgs[0]
			if cls == "tamper-later" {
				k = withMsgs[len(withMsgs)-1]
			}
			switch r.Intn(3) {
			case 0:
				cds[k].MerkleRoot = vC08PB32(r)
			case 1:
				cds[k].Messages[r.Intn(len(cds[k].Messages))].Header.MessageID = vC08PB32(r)
			default:
				cds[k].Messages = cds[k].Messages[:len(cds[k].Messages)-1]
				cds[k].MessageTokenData = cds[k].MessageTokenData[:len(cds[k].MessageTokenData)-1]
			}
			var leaves [][32]byte
			for _, m := range cds[k].Messages {
				leaves = append(leaves, m.Header.MessageID)
				if _, ok := gas[m.Header.MessageID]; !ok {
					gas[m.Header.MessageID] = 100
				}
			}
			tab.root(leaves) // rows for the tree the implementation will build
		}
		// codec weight: size pressure comes from the message bodies because the plugin's size limit is a constant
		weight := 16
		if cls == "size-pressure" && sumData > 0 {
			weight = vC08PMaxReport * vPick(r, []int{1, 2, 4, 8}) / (2 * sumData)
		}
		est := vC08PEst{gas: gas, tga: uint64(r.Range(0, 50)), tgb: uint64(r.Range(0, 9))}
		codec := vC08PCodec{base: r.Range(0, 20), weight: weight}

		// the agreed nonces and what each oracle observes
		f := 1
		nOracles := 4
		obsNonces := make([]exectypes.NonceObservations, nOracles)
		for o := range obsNonces {
			obsNonces[o] = exectypes.NonceObservations{}
			for _, ch := range chains {
				obsNonces[o][cciptypes.ChainSelector(ch)] = map[string]uint64{}
				for k := 0; k < 3; k++ {
					obsNonces[o][cciptypes.ChainSelector(ch)][sstr[k]] = onchain[ch][k]
				}
			}
		}
		switch {
		case cls == "byzantine-nonce":
			// one oracle reports nonces that would let the first messages through one step early / late
			for _, ch := range chains {
				for k := 0; k < 3; k++ {
					obsNonces[3][cciptypes.ChainSelector(ch)][sstr[k]] = onchain[ch][k] + uint64(r.Range(1, 2))
				}
			}
		case r.Chance(1, 8):
			obsNonces[r.Intn(nOracles)] = exectypes.NonceObservations{} // a silent oracle
		case r.Chance(1, 8):
			// a sender known to one oracle only: not agreed
			delete(obsNonces[0][cciptypes.ChainSelector(chains[0])], sstr[2])
			delete(obsNonces[1][cciptypes.ChainSelector(chains[0])], sstr[2])
			delete(obsNonces[2][cciptypes.ChainSelector(chains[0])], sstr[2])
		}

		// dry run with the real builder and no limits to place BatchGasLimit at a boundary
		dry := report.NewBuilder(mocks.NullLogger, mocks.NewMessageHasher(), codec, est,
			map[cciptypes.ChainSelector]map[string]uint64(obsNonces[1]), vC08PDest, 1<<62, 1<<62)
		var gasTotal, gasFirst uint64
		func() {
			defer func() { _ = recover() }()
			for _, cd := range cds {
				if len(cd.Messages) == 0 {
					continue
				}
				cp := cd
				cp.ExecutedMessages = append([]cciptypes.SeqNum{}, cd.ExecutedMessages...)
				if _, err := dry.Add(ctx, cp); err != nil {
					return
				}
			}
		}()
		built, _ := dry.Build()
		for k, b := range built {
			g := est.CalculateMerkleTreeGas(len(b.Messages))
			for _, m := range b.Messages {
				g += est.CalculateMessageMaxGas(m)
			}
			gasTotal += g
			if k == 0 {
				gasFirst = g
			}
		}
		batchGas := gasTotal + uint64(r.Intn(1000))
		if cls == "gas-pressure" || r.Chance(1, 6) {
			batchGas = vPick(r, []uint64{gasTotal, gasTotal - min(gasTotal, 1), gasTotal / 2, gasTotal / 4 * 3, gasFirst, gasTotal / 4, 50})
		}
		if r.Chance(1, 10) {
			batchGas = vC08PMaxReport // equal limits: a swap is invisible here, and must not be flagged
		}

		// ---- the plugin ----
		hc := vNewHomeChain()
		ids := []commontypes.OracleID{0, 1, 2, 3}
		p2p := map[commontypes.OracleID]libocrtypes.PeerID{}
		var peers []libocrtypes.PeerID
		for _, o := range ids {
			p2p[o] = vPeer(int(o))
			peers = append(peers, vPeer(int(o)))
		}
		for _, ch := range chains {
			hc.SetChain(cciptypes.ChainSelector(ch), 1, peers)
		}
		hc.SetChain(vC08PDest, f, peers)
		pl := &Plugin{
			reportingCfg:    ocr3types.ReportingPluginConfig{OracleID: 0, F: 1, N: 4},
			offchainCfg:     pluginconfig.ExecuteOffchainConfig{BatchGasLimit: batchGas},
			destChain:       vC08PDest,
			reportCodec:     codec,
			msgHasher:       mocks.NewMessageHasher(),
			homeChain:       hc,
			chainSupport:    plugincommon.NewChainSupport(mocks.NullLogger, hc, p2p, 0, vC08PDest),
			oracleIDToP2pID: p2p,
			estimateProvider: est,
			lggr:            mocks.NullLogger,
		}
		prevOutcome := exectypes.NewOutcome(exectypes.GetMessages, cds, cciptypes.ExecutePluginReport{})
		prev, err := prevOutcome.Encode()
		if err != nil {
			t.Fatal(err)
		}
		var aos []types.AttributedObservation
		for o := 0; o < nOracles; o++ {
			ob, err := exectypes.Observation{Nonces: obsNonces[o]}.Encode()
			if err != nil {
				t.Fatal(err)
			}
			aos = append(aos, types.AttributedObservation{Observation: ob, Observer: ids[o]})
		}

		// ---- input term: the pending commit reports exactly as the plugin will decode them ----
		decPrev, err := exectypes.DecodeOutcome(prev)
		if err != nil {
			t.Fatal(err)
		}
		p := &vC08PPrinter{tab: tab, senders: vNewIntern(), datas: vNewIntern(), gas: gas, weight: weight}
		cdsS := cMap(decPrev.PendingCommitReports, p.cdOf)
		obsS := make([]string, nOracles)
		for o := range obsNonces {
			var rows []string
			for _, ch := range chains {
				var keys []string
				for s := range obsNonces[o][cciptypes.ChainSelector(ch)] {
					keys = append(keys, s)
				}
				sort.Strings(keys)
				for _, s := range keys {
					rows = append(rows, cPair(cPair(cN(ch), cN(p.senders.Id(s))), cN(obsNonces[o][cciptypes.ChainSelector(ch)][s])))
				}
			}
			obsS[o] = cList(rows)
		}

		// ---- run ----
		var out string
		nrep, ninc := 0, 0
		goVerified := true
		func() {
			defer func() {
				if recover() != nil {
					out = "Panic"
				}
			}()
			ob, err := pl.Outcome(ctx, ocr3types.OutcomeContext{SeqNr: 3, PreviousOutcome: prev}, nil, aos)
			if err != nil {
				out = "Err"
				return
			}
			oc, err := exectypes.DecodeOutcome(ob)
			if err != nil {
				out = "Err"
				return
			}
			nrep = len(oc.Report.ChainReports)
			for _, cr := range oc.Report.ChainReports {
				ninc += len(cr.Messages)
				// independent Go-side check: the report verifies against the root of some input commit report of its chain
				okAny := false
				for _, cd := range decPrev.PendingCommitReports {
					if cd.SourceChain == cr.SourceChainSelector && vC08PReverify(cr, cd.MerkleRoot) {
						okAny = true
					}
				}
				goVerified = goVerified && okAny
			}
			if !goVerified {
				out = "Panic" // not expressible as a model answer: flagged
				return
			}
			out = "(Ok " + cPair(cMap(oc.Report.ChainReports, p.repOf), cMap(oc.PendingCommitReports, p.cdOf)) + ")"
		}()
		cfg := cApp("mkCfg", cList(tab.list), cN(zeroID), "[]", cN(0), cN(batchGas), cN(est.tga), cN(est.tgb),
			cNi(codec.base), cNi(-1+2000000000))
		in := cTup(cfg, cNi(f), cList(obsS), cdsS)
		sink.Emit("C08_out", cls, nrep > 0, cPair(in, out), map[string]any{"class": cls, "chains": len(chains),
			"commit_reports": len(cds), "batch_gas_limit": batchGas, "codec_weight": weight, "unlimited_gas": gasTotal,
			"chain_reports": nrep, "messages_included": ninc, "outcome": out[:min(len(out), 5)]})
	}
}

//go:build verif

package execute

import (
	cctypes2 "github.com/smartcontractkit/chainlink-common/pkg/types"
	"github.com/smartcontractkit/chainlink-common/pkg/types/query/primitives"
	"fmt"
	"strings"
	"time"
	"context"
	"testing"

	"github.com/smartcontractkit/libocr/commontypes"
	"github.com/smartcontractkit/libocr/offchainreporting2plus/ocr3types"
	"github.com/smartcontractkit/libocr/offchainreporting2plus/types"
	libocrtypes "github.com/smartcontractkit/libocr/ragep2p/types"

	"github.com/smartcontractkit/chainlink-ccip/execute/exectypes"
	"github.com/smartcontractkit/chainlink-ccip/internal/mocks"
	"github.com/smartcontractkit/chainlink-ccip/internal/plugincommon"
	"github.com/smartcontractkit/chainlink-ccip/internal/reader"
	readerpkg "github.com/smartcontractkit/chainlink-ccip/pkg/reader"
	"github.com/smartcontractkit/chainlink-ccip/pkg/consts"
	cciptypes "github.com/smartcontractkit/chainlink-ccip/pkg/types/ccipocr3"
)

const vC16Dest = cciptypes.ChainSelector(900)

func vC16Digest(b byte) types.ConfigDigest {
	var d types.ConfigDigest
	d[0] = b
	return d
}

// the candidate check goes through the REAL home-chain poller's GetOCRConfigs (read identifier, confidence level and
// parameters as the code builds them) over a scripted contract reader that answers from the fake's tables
type vC16CR struct {
	cctypes2.UnimplementedContractReader
	hc *vHomeChain
}

func (c *vC16CR) GetLatestValue(ctx context.Context, id string, conf primitives.ConfidenceLevel, params, ret any) error {
	if !strings.HasSuffix(id, consts.MethodNameGetOCRConfig) {
		return fmt.Errorf("verif: unexpected read %q", id)
	}
	pm, ok := params.(map[string]any)
	if !ok {
		return fmt.Errorf("verif: unexpected params %T", params)
	}
	don, ok1 := pm["donId"].(uint32)
	pt, ok2 := pm["pluginType"].(uint8)
	out, ok3 := ret.(*reader.ActiveAndCandidate)
	if !ok1 || !ok2 || !ok3 {
		return fmt.Errorf("verif: unexpected params %v / return %T", pm, ret)
	}
	v, err := c.hc.GetOCRConfigs(ctx, don, pt)
	if err != nil {
		return err
	}
	*out = v
	return nil
}

type vC16HC struct {
	*vHomeChain
	real reader.HomeChain
}

func (h *vC16HC) GetOCRConfigs(ctx context.Context, donID uint32, pluginType uint8) (reader.ActiveAndCandidate, error) {
	return h.real.GetOCRConfigs(ctx, donID, pluginType)
}

func vC16Wrap(hc *vHomeChain) *vC16HC {
	return &vC16HC{vHomeChain: hc, real: reader.NewHomeChainConfigPoller(&vC16CR{hc: hc}, mocks.NullLogger, time.Hour,
		cctypes2.BoundContract{Address: "0xCC", Name: consts.ContractNameCCIPConfig})}
}

const vC16Don = 7

func vC16Plugin(ids []commontypes.OracleID, writers map[commontypes.OracleID]bool, cfgErr bool,
	me commontypes.OracleID, my byte, cand byte, ocrErr bool, rd readerpkg.CCIPReader) *Plugin {
	hc := vNewHomeChain()
	m := map[commontypes.OracleID]libocrtypes.PeerID{}
	var peers []libocrtypes.PeerID
	for _, o := range ids {
		m[o] = vPeer(int(o))
		if writers[o] {
			peers = append(peers, vPeer(int(o)))
		}
	}
	hc.SetChain(vC16Dest, 1, peers)
	hc.CfgErr = cfgErr
	hc.OCRErr = ocrErr
	hc.OCR = reader.ActiveAndCandidate{
		ActiveConfig:    reader.OCR3ConfigWithMeta{ConfigDigest: vC16Digest(200)},
		CandidateConfig: reader.OCR3ConfigWithMeta{ConfigDigest: vC16Digest(cand)},
	}
	// the configs of every OTHER (DON, plugin type) say the opposite about this instance's digest, so that asking the
	// home chain for the wrong DON or the wrong plugin type flips the candidate verdict
	hc.OCRFor = func(donID uint32, pluginType uint8) reader.ActiveAndCandidate {
		d := hc.OCR
		if donID == vC16Don && pluginType == consts.PluginTypeExecute {
			return d
		}
		if d.CandidateConfig.ConfigDigest == vC16Digest(my) {
			d.CandidateConfig.ConfigDigest = vC16Digest(201)
		} else {
			d.CandidateConfig.ConfigDigest = vC16Digest(my)
		}
		return d
	}
	return &Plugin{
		reportingCfg:    ocr3types.ReportingPluginConfig{ConfigDigest: vC16Digest(my), OracleID: me},
		donID:           vC16Don,
		destChain:       vC16Dest,
		ccipReader:      rd,
		reportCodec:     mocks.NewExecutePluginJSONReportCodec(),
		homeChain:       vC16Wrap(hc),
		chainSupport:    plugincommon.NewChainSupport(mocks.NullLogger, hc, m, me, vC16Dest),
		oracleIDToP2pID: m,
		lggr:            mocks.NullLogger,
	}
}

func TestVerif_C16_exec(t *testing.T) {
	ctx := context.Background()
	r := vNewRand(vSeed() + 79)
	n := vEnvInt("VERIF_N", 100)
	reps := vEnvInt("VERIF_REPS", 24)
	sink := vOpenSink("C16_rep_exec")
	defer sink.Close()
	for i := 0; i < n; i++ {
		cls := vPick(r, []string{"none", "one", "some", "all", "cfgerr", "n4", "n31"})
		size := r.Range(2, 10)
		if cls == "n4" {
			size = 4
		}
		if cls == "n31" {
			size = 31
		}
		perm := r.Perm(256)
		ids := make([]commontypes.OracleID, size)
		writers := map[commontypes.OracleID]bool{}
		for k := range ids {
			ids[k] = commontypes.OracleID(perm[k])
			switch cls {
			case "none", "one":
			case "all":
				writers[ids[k]] = true
			default:
				writers[ids[k]] = r.Bool()
			}
		}
		if cls == "one" {
			writers[ids[r.Intn(size)]] = true
		}
		oc := exectypes.Outcome{State: exectypes.Filter}
		if r.Bool() {
			oc.Report = cciptypes.ExecutePluginReport{ChainReports: []cciptypes.ExecutePluginReportSingleChain{{SourceChainSelector: 5}}}
		}
		ocb, err := oc.Encode()
		if err != nil {
			t.Fatal(err)
		}
		cfgErr := cls == "cfgerr"
		seen := map[string]bool{}
		var outs []string
		for k := 0; k < reps; k++ {
			p := vC16Plugin(ids, writers, cfgErr, ids[0], 1, 2, false, &vCCIPReader{})
			reports, err := p.Reports(ctx, 1, ocb)
			var o string
			switch {
			case err != nil:
				o = "Err"
			case len(reports) == 0:
				o = "(Ok None)"
			default:
				s := reports[0].TransmissionScheduleOverride
				if s == nil {
					o = "Panic"
				} else {
					tr := make([]string, len(s.Transmitters))
					for x, id := range s.Transmitters {
						tr[x] = cN(uint64(id))
					}
					dl := make([]string, len(s.TransmissionDelays))
					for x, d := range s.TransmissionDelays {
						dl[x] = cZ(int64(d))
					}
					o = "(Ok (Some " + cPair(cList(tr), cList(dl)) + "))"
				}
			}
			if !seen[o] {
				seen[o] = true
				outs = append(outs, o)
			}
		}
		item := func(o commontypes.OracleID) string {
			s := 0
			if writers[o] {
				s = 1
			}
			if cfgErr {
				s = 2
			}
			return cPair(cN(uint64(o)), cNi(s))
		}
		in := cTup(cN(1), cMap(ids, item), cBool(false), cZ(int64(transmissionDelayMultiplier)))
		nw := 0
		for _, w := range writers {
			if w {
				nw++
			}
		}
		idsInt := make([]int, len(ids))
		for k := range ids {
			idsInt[k] = int(ids[k])
		}
		sink.Emit("C16_rep_exec", cls, nw >= 2 && !cfgErr, cPair(in, cList(outs)),
			map[string]any{"ids": idsInt, "writers": nw, "cfg_err": cfgErr, "fresh_instances": reps})
	}
}

func TestVerif_C16_exec_gates(t *testing.T) {
	ctx := context.Background()
	r := vNewRand(vSeed() + 80)
	n := vEnvInt("VERIF_N", 200)
	sink := vOpenSink("C16_gate_exec")
	defer sink.Close()
	code := func(b bool, err error) string {
		if err != nil {
			return cN(2)
		}
		if b {
			return cN(1)
		}
		return cN(0)
	}
	codec := mocks.NewExecutePluginJSONReportCodec()
	ids := []commontypes.OracleID{0, 1, 2, 3}
	for i := 0; i < n; i++ {
		if r.Bool() {
			my := byte(r.Range(0, 2))
			cand := byte(r.Range(0, 2))
			ocrErr := r.Chance(1, 8)
			decodeOK := !r.Chance(1, 6)
			wmode := r.Intn(4) // 0 writer, 1 not writer, 2 lookup error, 3 writer
			writers := map[commontypes.OracleID]bool{1: true, 0: wmode != 1}
			rep := cciptypes.ExecutePluginReport{ChainReports: []cciptypes.ExecutePluginReportSingleChain{{SourceChainSelector: 5}}}
			rb, _ := codec.Encode(ctx, rep)
			if !decodeOK {
				rb = []byte("{not json")
			}
			p := vC16Plugin(ids, writers, wmode == 2, 0, my, cand, ocrErr, &vCCIPReader{})
			steps := r.Range(1, 4)
			for st := 0; st < steps; st++ {
				if st > 0 {
					cand = byte(r.Range(0, 2))
					ocrErr = r.Chance(1, 8)
					hc := p.homeChain.(*vC16HC).vHomeChain
					hc.OCRErr = ocrErr
					hc.OCR.CandidateConfig.ConfigDigest = vC16Digest(cand)
				}
				ok, err := p.ShouldTransmitAcceptedReport(ctx, uint64(st+1), ocr3types.ReportWithInfo[[]byte]{Report: rb})
				candS := cSome(cN(uint64(cand)))
				if ocrErr {
					candS = cNone()
				}
				w := cSome(cBool(wmode != 1))
				if wmode == 2 {
					w = cNone()
				}
				in := cApp("GExecT", w, cN(uint64(my)), candS, cBool(decodeOK))
				cls := "transmit"
				if my == cand {
					cls = "transmit-candidate"
				}
				if wmode == 1 {
					cls = "transmit-nonwriter"
				}
				if st > 0 {
					cls += "-later-call"
				}
				sink.Emit("C16_gate_exec", cls, true, cPair(in, code(ok, err)),
					map[string]any{"my": my, "cand": cand, "ocrErr": ocrErr, "decodeOK": decodeOK, "writerMode": wmode, "call": st})
			}
		} else {
			nilRep := r.Chance(1, 8)
			decodeOK := !r.Chance(1, 8)
			crs := r.Intn(3)
			curse := r.Intn(3)
			if r.Bool() {
				curse = 0
			}
			rep := cciptypes.ExecutePluginReport{}
			for k := 0; k < crs; k++ {
				rep.ChainReports = append(rep.ChainReports, cciptypes.ExecutePluginReportSingleChain{SourceChainSelector: cciptypes.ChainSelector(5 + k)})
			}
			rd := &vCCIPReader{CurseFn: func(dest cciptypes.ChainSelector, src []cciptypes.ChainSelector) (*readerpkg.CurseInfo, error) {
				switch curse {
				case 1:
					return &readerpkg.CurseInfo{CursedSourceChains: map[cciptypes.ChainSelector]bool{5: true}}, nil
				case 2:
					return nil, vErrNext()
				}
				return &readerpkg.CurseInfo{CursedSourceChains: map[cciptypes.ChainSelector]bool{}}, nil
			}}
			rb, _ := codec.Encode(ctx, rep)
			if !decodeOK {
				rb = []byte("{not json")
			}
			if nilRep {
				rb = nil
			}
			p := vC16Plugin(ids, map[commontypes.OracleID]bool{0: true}, false, 0, 1, 2, false, rd)
			ok, err := p.ShouldAcceptAttestedReport(ctx, 1, ocr3types.ReportWithInfo[[]byte]{Report: rb})
			in := cApp("GExecA", cBool(nilRep), cBool(decodeOK), cNi(crs), cNi(curse))
			cls := "accept"
			if crs == 0 {
				cls = "accept-empty"
			}
			sink.Emit("C16_gate_exec", cls, true, cPair(in, code(ok, err)),
				map[string]any{"nil": nilRep, "decodeOK": decodeOK, "chainReports": crs, "curse": curse})
		}
	}
}

package main

import (
	"fmt"
	"strings"
)

// Prog is the action tree of Model/Locks.v.  Nodes are hash-consed, so structural equality is pointer equality and
// Choice(p, p) collapses when it is built.
type Prog struct {
	kind int
	act  string // Gallina text of the action, kAct only
	a, b *Prog  // kAct: a = rest; kChoice: a, b; kLoop: a = body, b = rest
	id   int
}

const (
	kRet = iota
	kCont
	kBrk
	kAct
	kChoice
	kLoop
)

type builder struct {
	tab  map[string]*Prog
	next int
}

func newBuilder() *builder { return &builder{tab: map[string]*Prog{}} }

func pid(p *Prog) int {
	if p == nil {
		return -1
	}
	return p.id
}

func (b *builder) mk(kind int, act string, x, y *Prog) *Prog {
	key := fmt.Sprintf("%d|%s|%d|%d", kind, act, pid(x), pid(y))
	if p, ok := b.tab[key]; ok {
		return p
	}
	p := &Prog{kind: kind, act: act, a: x, b: y, id: b.next}
	b.next++
	b.tab[key] = p
	return p
}

func (b *builder) Ret() *Prog  { return b.mk(kRet, "", nil, nil) }
func (b *builder) Cont() *Prog { return b.mk(kCont, "", nil, nil) }
func (b *builder) Brk() *Prog  { return b.mk(kBrk, "", nil, nil) }
func (b *builder) Act(act string, k *Prog) *Prog {
	return b.mk(kAct, act, k, nil)
}
func (b *builder) Choice(p, q *Prog) *Prog {
	if p == q {
		return p
	}
	return b.mk(kChoice, "", p, q)
}

// Loop drops a loop whose body does nothing and can only go round or leave.
func (b *builder) Loop(body, k *Prog) *Prog {
	if idle(body) {
		return k
	}
	return b.mk(kLoop, "", body, k)
}

func idle(p *Prog) bool {
	switch p.kind {
	case kCont, kBrk:
		return true
	case kChoice:
		return idle(p.a) && idle(p.b)
	}
	return false
}

// any reports whether some action of p (loop bodies included) satisfies pred.
func (p *Prog) any(pred func(act string) bool, seen map[*Prog]bool) bool {
	if p == nil || seen[p] {
		return false
	}
	seen[p] = true
	if p.kind == kAct && pred(p.act) {
		return true
	}
	return p.a.any(pred, seen) || p.b.any(pred, seen)
}

func isLockAct(a string) bool {
	return a == "ALock" || a == "AUnlock" || a == "ARLock" || a == "ARUnlock"
}

func isFieldAct(a string) bool {
	return strings.HasPrefix(a, "(ARead ") || strings.HasPrefix(a, "(AWrite ") || strings.HasPrefix(a, "(AMutate ") ||
		strings.HasPrefix(a, "(ACopy ") || strings.HasPrefix(a, "(AStore ")
}

const maxPrint = 4 << 20

// print expands the DAG into the Gallina term; ok = false when the expansion would be unreasonably large.
func (p *Prog) print(sb *strings.Builder) bool {
	if sb.Len() > maxPrint {
		return false
	}
	switch p.kind {
	case kRet:
		sb.WriteString("Ret")
	case kCont:
		sb.WriteString("Cont")
	case kBrk:
		sb.WriteString("Brk")
	case kAct:
		sb.WriteString("(Act ")
		sb.WriteString(p.act)
		sb.WriteString(" ")
		if !p.a.print(sb) {
			return false
		}
		sb.WriteString(")")
	case kChoice:
		sb.WriteString("(Choice ")
		if !p.a.print(sb) {
			return false
		}
		sb.WriteString(" ")
		if !p.b.print(sb) {
			return false
		}
		sb.WriteString(")")
	case kLoop:
		sb.WriteString("(Loop ")
		if !p.a.print(sb) {
			return false
		}
		sb.WriteString(" ")
		if !p.b.print(sb) {
			return false
		}
		sb.WriteString(")")
	}
	return true
}

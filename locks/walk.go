package main

import (
	"fmt"
	"go/ast"
	"go/parser"
	"go/token"
	"os"
	"path/filepath"
	"sort"
	"strings"
	"unicode"
)

type refusal struct{ msg string }

// dl is the list of deferred actions of one function activation, latest first.
type dl struct {
	item func(k *Prog) *Prog
	prev *dl
}

// K is what follows a statement, given the deferred actions registered so far.
type K func(d *dl) *Prog

type loopInfo struct {
	d          *dl
	pendingRet bool
}

// frame is one function activation: the method itself (top), an inlined callee or a function literal.
type frame struct {
	top   bool
	retK  func() *Prog // what follows once the deferred actions have run
	loops []*loopInfo
}

type fctx struct {
	recv    string         // receiver identifier
	alias   map[string]int // local pointer aliases of a guarded struct: s := &r.state
	frame   *frame
	brk     K // meaning of break / continue here, nil = not allowed
	cont    K
	noblock bool // inside the communication clause of a select that has a default case
}

type entryProg struct {
	name string
	id   int
	prog *Prog
}

type extractor struct {
	e        *Entry
	repo     string
	fset     *token.FileSet
	files    []*ast.File
	b        *builder
	fieldID  map[string]int // "state.fChain" or "failedPolls" -> field number (from 1)
	fieldPub map[int]bool
	groupOf  map[string]int   // sub-struct field name -> group index (from 0)
	groupFld map[int][]string // group index -> field names
	methods  map[string]*ast.FuncDecl
	order    []string
	methodID map[string]int
	chans    map[string]int
	chanList []string
	goLits   map[*ast.FuncLit]*entryProg
	goList   []*entryProg
	goTarget map[string]token.Pos
	stack    []string
	cur      string
	nextID   int
}

func (x *extractor) fail(pos token.Pos, format string, args ...interface{}) {
	p := x.fset.Position(pos)
	rel, err := filepath.Rel(x.repo, p.Filename)
	if err != nil {
		rel = p.Filename
	}
	panic(refusal{fmt.Sprintf("%s:%d: %s", rel, p.Line, fmt.Sprintf(format, args...))})
}

func extract(repo string, e *Entry) (txt string, om objManifest, err error) {
	x := &extractor{e: e, repo: repo, fset: token.NewFileSet(), b: newBuilder(), fieldID: map[string]int{},
		fieldPub: map[int]bool{}, groupOf: map[string]int{}, groupFld: map[int][]string{}, methods: map[string]*ast.FuncDecl{},
		methodID: map[string]int{}, chans: map[string]int{}, goLits: map[*ast.FuncLit]*entryProg{}, goTarget: map[string]token.Pos{}}
	defer func() {
		if r := recover(); r != nil {
			if rf, ok := r.(refusal); ok {
				err = fmt.Errorf("%s", rf.msg)
				return
			}
			panic(r)
		}
	}()
	x.load()
	txt, om = x.run()
	return txt, om, nil
}

// ---------------------------------------------------------------------------------------------- loading

func (x *extractor) load() {
	dir := filepath.Join(x.repo, x.e.Dir)
	ents, err := os.ReadDir(dir)
	if err != nil {
		panic(refusal{fmt.Sprintf("%s: %v", x.e.Dir, err)})
	}
	var names []string
	for _, en := range ents {
		n := en.Name()
		if !en.IsDir() && strings.HasSuffix(n, ".go") && !strings.HasSuffix(n, "_test.go") {
			names = append(names, n)
		}
	}
	sort.Strings(names)
	for _, n := range names {
		f, err := parser.ParseFile(x.fset, filepath.Join(dir, n), nil, parser.SkipObjectResolution)
		if err != nil {
			panic(refusal{fmt.Sprintf("%s/%s does not parse: %v", x.e.Dir, n, err)})
		}
		x.files = append(x.files, f)
	}
	// field numbering, in table order
	n := 0
	for gi, g := range x.e.Groups {
		for _, f := range g.Fields {
			n++
			key := f
			if g.Struct != "" {
				key = g.Struct + "." + f
			}
			x.fieldID[key] = n
			x.fieldPub[n] = g.Published
		}
		if g.Struct != "" {
			x.groupOf[g.Struct] = gi
		}
		x.groupFld[gi] = g.Fields
	}
	// the declarations must still be what the table says
	recvDecl, recvPos := x.structDecl(x.e.Recv)
	if recvDecl == nil {
		panic(refusal{fmt.Sprintf("%s/%s: type %s struct not found", x.e.Dir, x.e.File, x.e.Recv)})
	}
	if fn := filepath.Base(x.fset.Position(recvPos).Filename); fn != x.e.File {
		x.fail(recvPos, "type %s is declared in %s now", x.e.Recv, fn)
	}
	rf := structFields(recvDecl)
	mt, ok := rf[x.e.Mutex]
	if !ok {
		x.fail(recvPos, "type %s has no field %s", x.e.Recv, x.e.Mutex)
	}
	if ts := typeString(mt); ts != "*sync.RWMutex" && ts != "sync.RWMutex" && ts != "*sync.Mutex" && ts != "sync.Mutex" {
		x.fail(recvPos, "field %s.%s has type %s, not a sync mutex", x.e.Recv, x.e.Mutex, ts)
	}
	for _, g := range x.e.Groups {
		if g.Struct == "" {
			for _, f := range g.Fields {
				if _, ok := rf[f]; !ok {
					x.fail(recvPos, "type %s has no field %s", x.e.Recv, f)
				}
			}
			continue
		}
		st, ok := rf[g.Struct]
		if !ok {
			x.fail(recvPos, "type %s has no field %s", x.e.Recv, g.Struct)
		}
		if ts := typeString(st); ts != g.StructType {
			x.fail(recvPos, "field %s.%s has type %s, the table expects %s (a pointer would let the group be shared)", x.e.Recv, g.Struct, ts, g.StructType)
		}
		sd, sp := x.structDecl(g.StructType)
		if sd == nil {
			x.fail(recvPos, "type %s struct not found", g.StructType)
		}
		sf := structFields(sd)
		want := map[string]bool{}
		for _, f := range g.Fields {
			want[f] = true
			if _, ok := sf[f]; !ok {
				x.fail(sp, "type %s has no field %s", g.StructType, f)
			}
		}
		for f := range sf {
			if !want[f] {
				x.fail(sp, "type %s has a field %s that the table of guarded fields does not list", g.StructType, f)
			}
		}
	}
	// methods of the receiver, in source order
	for _, f := range x.files {
		for _, d := range f.Decls {
			fd, ok := d.(*ast.FuncDecl)
			if !ok || fd.Recv == nil || len(fd.Recv.List) != 1 {
				continue
			}
			t := fd.Recv.List[0].Type
			ptr := false
			if s, ok := t.(*ast.StarExpr); ok {
				t, ptr = s.X, true
			}
			id, ok := t.(*ast.Ident)
			if !ok || id.Name != x.e.Recv {
				continue
			}
			if !ptr {
				x.fail(fd.Pos(), "method %s has a value receiver: the call copies the guarded fields without the lock", fd.Name.Name)
			}
			if fd.Body == nil {
				continue
			}
			x.methods[fd.Name.Name] = fd
			x.order = append(x.order, fd.Name.Name)
		}
	}
	for i, n := range x.order {
		x.methodID[n] = i + 1
	}
	x.nextID = len(x.order) + 1
}

func (x *extractor) structDecl(name string) (*ast.StructType, token.Pos) {
	for _, f := range x.files {
		for _, d := range f.Decls {
			gd, ok := d.(*ast.GenDecl)
			if !ok || gd.Tok != token.TYPE {
				continue
			}
			for _, s := range gd.Specs {
				ts := s.(*ast.TypeSpec)
				if ts.Name.Name == name {
					if st, ok := ts.Type.(*ast.StructType); ok {
						return st, ts.Pos()
					}
				}
			}
		}
	}
	return nil, token.NoPos
}

func structFields(st *ast.StructType) map[string]ast.Expr {
	m := map[string]ast.Expr{}
	for _, f := range st.Fields.List {
		for _, n := range f.Names {
			m[n.Name] = f.Type
		}
		if len(f.Names) == 0 {
			m[typeString(f.Type)] = f.Type // embedded
		}
	}
	return m
}

func typeString(e ast.Expr) string {
	switch t := e.(type) {
	case *ast.Ident:
		return t.Name
	case *ast.StarExpr:
		return "*" + typeString(t.X)
	case *ast.SelectorExpr:
		return typeString(t.X) + "." + t.Sel.Name
	}
	return fmt.Sprintf("%T", e)
}

// ---------------------------------------------------------------------------------------------- recognisers

func unparen(e ast.Expr) ast.Expr {
	for {
		p, ok := e.(*ast.ParenExpr)
		if !ok {
			return e
		}
		e = p.X
	}
}

func (c *fctx) isRecv(e ast.Expr) bool {
	id, ok := unparen(e).(*ast.Ident)
	return ok && c.recv != "" && id.Name == c.recv
}

func (c *fctx) aliasOf(e ast.Expr) (int, bool) {
	id, ok := unparen(e).(*ast.Ident)
	if !ok {
		return 0, false
	}
	g, ok := c.alias[id.Name]
	return g, ok
}

// structGroup: r.state, *s, s (s := &r.state)
func (x *extractor) structGroup(c *fctx, e ast.Expr) (int, bool) {
	e = unparen(e)
	if s, ok := e.(*ast.SelectorExpr); ok && c.isRecv(s.X) {
		g, ok := x.groupOf[s.Sel.Name]
		return g, ok
	}
	if s, ok := e.(*ast.StarExpr); ok {
		return c.aliasOf(s.X)
	}
	return 0, false
}

// fieldPath: r.f, r.state.f, s.f, (*s).f
func (x *extractor) fieldPath(c *fctx, e ast.Expr) (int, bool) {
	s, ok := unparen(e).(*ast.SelectorExpr)
	if !ok {
		return 0, false
	}
	if c.isRecv(s.X) {
		id, ok := x.fieldID[s.Sel.Name]
		return id, ok
	}
	g, ok := x.structGroup(c, s.X)
	if !ok {
		g, ok = c.aliasOf(s.X)
	}
	if !ok {
		return 0, false
	}
	gs := x.e.Groups[g]
	id, ok := x.fieldID[gs.Struct+"."+s.Sel.Name]
	if !ok {
		x.fail(s.Pos(), "%s.%s: field of the guarded struct that the table does not list", gs.Struct, s.Sel.Name)
	}
	return id, true
}

func (x *extractor) isMutex(c *fctx, e ast.Expr) bool {
	s, ok := unparen(e).(*ast.SelectorExpr)
	return ok && c.isRecv(s.X) && s.Sel.Name == x.e.Mutex
}

// rootField: the guarded field an addressable expression reaches into: P[i], P.x, P[i].y ...
func (x *extractor) rootField(c *fctx, e ast.Expr) (int, bool) {
	for depth := 0; ; depth++ {
		e = unparen(e)
		if id, ok := x.fieldPath(c, e); ok {
			return id, true
		}
		switch t := e.(type) {
		case *ast.IndexExpr:
			e = t.X
		case *ast.SelectorExpr:
			e = t.X
		case *ast.StarExpr:
			e = t.X
		case *ast.SliceExpr:
			e = t.X
		default:
			return 0, false
		}
	}
}

func (x *extractor) chanID(e ast.Expr) int {
	s := exprString(e)
	if id, ok := x.chans[s]; ok {
		return id
	}
	id := len(x.chanList) + 1
	x.chans[s] = id
	x.chanList = append(x.chanList, s)
	return id
}

func exprString(e ast.Expr) string {
	switch t := unparen(e).(type) {
	case *ast.Ident:
		return t.Name
	case *ast.SelectorExpr:
		return exprString(t.X) + "." + t.Sel.Name
	case *ast.CallExpr:
		return exprString(t.Fun) + "()"
	case *ast.StarExpr:
		return "*" + exprString(t.X)
	case *ast.IndexExpr:
		return exprString(t.X) + "[]"
	}
	return "?"
}

var readOnlyMethods = map[string]bool{"Contains": true, "ContainsOne": true, "ContainsAny": true, "Cardinality": true, "ToSlice": true,
	"Len": true, "IsEmpty": true, "Equal": true, "String": true, "Clone": true, "IsSubset": true, "IsSuperset": true,
	"Each": true, "Iter": true, "Iterator": true, "Union": true, "Intersect": true, "Difference": true, "Load": true, "Get": true,
	"Cmp": true, "After": true, "Before": true, "Unix": true, "IsZero": true}
var mutatingMethods = map[string]bool{"Add": true, "Append": true, "Remove": true, "RemoveAll": true, "Clear": true, "Pop": true,
	"Set": true, "Store": true, "Delete": true, "Push": true, "Insert": true, "Swap": true, "Reset": true}

// ---------------------------------------------------------------------------------------------- expressions

func (x *extractor) exprs(c *fctx, list []ast.Expr, k *Prog) *Prog {
	for i := len(list) - 1; i >= 0; i-- {
		k = x.expr(c, list[i], k)
	}
	return k
}

func (x *extractor) read(id int, k *Prog) *Prog  { return x.b.Act(fmt.Sprintf("(ARead %d)", id), k) }
func (x *extractor) write(id int, k *Prog) *Prog { return x.b.Act(fmt.Sprintf("(AWrite %d)", id), k) }
func (x *extractor) mutate(pos token.Pos, id int, k *Prog) *Prog {
	if x.fieldPub[id] {
		x.fail(pos, "in-place update of a published field (readers keep using its value after the lock is released); replace the field by a new value instead")
	}
	return x.b.Act(fmt.Sprintf("(AMutate %d)", id), k)
}

func (x *extractor) expr(c *fctx, e ast.Expr, k *Prog) *Prog {
	switch t := e.(type) {
	case nil:
		return k
	case *ast.Ident:
		if c.isRecv(t) {
			x.fail(t.Pos(), "the receiver %s is used as a value (passed on, stored or captured): its guarded fields become reachable through an alias", t.Name)
		}
		if _, ok := c.alias[t.Name]; ok {
			x.fail(t.Pos(), "the alias %s of a guarded struct is used as a value", t.Name)
		}
		return k
	case *ast.BasicLit:
		return k
	case *ast.ParenExpr:
		return x.expr(c, t.X, k)
	case *ast.SelectorExpr:
		if id, ok := x.fieldPath(c, t); ok {
			return x.read(id, k)
		}
		if g, ok := x.structGroup(c, t); ok {
			return x.b.Act(fmt.Sprintf("(ACopy %d)", g), k)
		}
		if x.isMutex(c, t) {
			x.fail(t.Pos(), "the mutex is used as a value")
		}
		if c.isRecv(t.X) {
			if _, ok := x.methods[t.Sel.Name]; ok {
				x.fail(t.Pos(), "method value %s.%s: the call site cannot be followed", c.recv, t.Sel.Name)
			}
			return k
		}
		return x.expr(c, t.X, k)
	case *ast.StarExpr:
		if g, ok := x.structGroup(c, t); ok {
			return x.b.Act(fmt.Sprintf("(ACopy %d)", g), k)
		}
		return x.expr(c, t.X, k)
	case *ast.CallExpr:
		return x.call(c, t, k)
	case *ast.BinaryExpr:
		if t.Op == token.LAND || t.Op == token.LOR {
			return x.expr(c, t.X, x.b.Choice(x.expr(c, t.Y, k), k))
		}
		return x.expr(c, t.X, x.expr(c, t.Y, k))
	case *ast.UnaryExpr:
		if t.Op == token.AND {
			if _, ok := x.rootField(c, t.X); ok {
				x.fail(t.Pos(), "address of a guarded field taken")
			}
			if _, ok := x.structGroup(c, t.X); ok {
				x.fail(t.Pos(), "address of the guarded struct taken outside a plain `s := &%s.…` definition", c.recv)
			}
			if x.isMutex(c, t.X) {
				x.fail(t.Pos(), "address of the mutex taken")
			}
		}
		if t.Op == token.ARROW {
			if c.noblock {
				return x.expr(c, t.X, k)
			}
			return x.expr(c, t.X, x.b.Act(fmt.Sprintf("(ARecv %d)", x.chanID(t.X)), k))
		}
		return x.expr(c, t.X, k)
	case *ast.IndexExpr:
		return x.expr(c, t.X, x.expr(c, t.Index, k))
	case *ast.IndexListExpr:
		return x.expr(c, t.X, k)
	case *ast.SliceExpr:
		return x.expr(c, t.X, x.exprs(c, []ast.Expr{t.Low, t.High, t.Max}, k))
	case *ast.TypeAssertExpr:
		return x.expr(c, t.X, k)
	case *ast.KeyValueExpr:
		if _, isId := t.Key.(*ast.Ident); isId {
			return x.expr(c, t.Value, k)
		}
		return x.expr(c, t.Key, x.expr(c, t.Value, k))
	case *ast.CompositeLit:
		return x.exprs(c, t.Elts, k)
	case *ast.FuncLit:
		// a function literal that is passed on or stored: it may run at any time, so it must stay clear of the lock
		probe := x.inlineLit(c, t, x.b.Ret())
		if probe.any(func(a string) bool { return isLockAct(a) || isFieldAct(a) }, map[*Prog]bool{}) {
			x.fail(t.Pos(), "closure capturing guarded state (it is neither called on the spot nor started with go)")
		}
		return x.inlineLit(c, t, k)
	case *ast.ArrayType, *ast.MapType, *ast.ChanType, *ast.FuncType, *ast.InterfaceType, *ast.StructType, *ast.Ellipsis:
		return k
	}
	x.fail(e.Pos(), "unsupported expression %T", e)
	return nil
}

func (x *extractor) call(c *fctx, t *ast.CallExpr, k *Prog) *Prog {
	fun := unparen(t.Fun)
	if sel, ok := fun.(*ast.SelectorExpr); ok {
		name := sel.Sel.Name
		if x.isMutex(c, sel.X) {
			switch name {
			case "Lock":
				return x.b.Act("ALock", k)
			case "Unlock":
				return x.b.Act("AUnlock", k)
			case "RLock":
				return x.b.Act("ARLock", k)
			case "RUnlock":
				return x.b.Act("ARUnlock", k)
			}
			x.fail(t.Pos(), "mutex operation %s is not modelled", name)
		}
		if c.isRecv(sel.X) {
			if fn, ok := x.methods[name]; ok {
				return x.exprs(c, t.Args, x.b.Act(fmt.Sprintf("(ACall %d)", x.methodID[name]), x.inlineMethod(fn, t.Pos(), k)))
			}
		}
		if id, ok := x.fieldPath(c, sel.X); ok {
			switch {
			case readOnlyMethods[name]:
				return x.exprs(c, t.Args, x.read(id, k))
			case mutatingMethods[name]:
				return x.exprs(c, t.Args, x.mutate(t.Pos(), id, k))
			}
			x.fail(t.Pos(), "method %s called on a guarded field: not known whether it updates the value in place", name)
		}
		if _, ok := x.structGroup(c, sel.X); ok {
			x.fail(t.Pos(), "method %s called on the guarded struct", name)
		}
		if name == "Wait" && len(t.Args) == 0 || (name == "Sleep" && exprString(sel.X) == "time") {
			return x.expr(c, sel.X, x.exprs(c, t.Args, x.b.Act(fmt.Sprintf("(AWait %d)", x.chanID(fun)), k)))
		}
		return x.expr(c, sel.X, x.exprs(c, t.Args, k))
	}
	if id, ok := fun.(*ast.Ident); ok {
		switch id.Name {
		case "delete", "clear", "copy":
			if len(t.Args) > 0 {
				if fid, ok := x.rootField(c, t.Args[0]); ok {
					return x.exprs(c, t.Args[1:], x.mutate(t.Pos(), fid, k))
				}
			}
		}
		return x.exprs(c, t.Args, k)
	}
	if lit, ok := fun.(*ast.FuncLit); ok {
		return x.exprs(c, t.Args, x.inlineLit(c, lit, k))
	}
	return x.expr(c, fun, x.exprs(c, t.Args, k))
}

// ---------------------------------------------------------------------------------------------- functions

func recvName(fd *ast.FuncDecl) string {
	if len(fd.Recv.List[0].Names) == 1 {
		return fd.Recv.List[0].Names[0].Name
	}
	return ""
}

func (x *extractor) runDefers(d *dl, k *Prog) *Prog {
	if d == nil {
		return k
	}
	return d.item(x.runDefers(d.prev, k))
}

// body of a function activation whose exit is followed by k
func (x *extractor) body(c *fctx, list []ast.Stmt, top bool, k *Prog) *Prog {
	c2 := *c
	c2.frame = &frame{top: top, retK: func() *Prog { return k }}
	c2.brk, c2.cont, c2.noblock = nil, nil, false
	return x.stmts(&c2, list, nil, func(d *dl) *Prog { return x.runDefers(d, k) })
}

func (x *extractor) inlineMethod(fd *ast.FuncDecl, at token.Pos, k *Prog) *Prog {
	for _, s := range x.stack {
		if s == fd.Name.Name {
			x.fail(at, "recursive call of %s", fd.Name.Name)
		}
	}
	x.stack = append(x.stack, fd.Name.Name)
	defer func() { x.stack = x.stack[:len(x.stack)-1] }()
	c := &fctx{recv: recvName(fd), alias: map[string]int{}}
	return x.body(c, fd.Body.List, false, k)
}

func (x *extractor) inlineLit(c *fctx, lit *ast.FuncLit, k *Prog) *Prog {
	return x.body(c, lit.Body.List, false, k)
}

func (x *extractor) doReturn(c *fctx, pos token.Pos, d *dl) *Prog {
	f := c.frame
	if f.top || len(f.loops) == 0 {
		return x.runDefers(d, f.retK())
	}
	// return from inside a loop of an inlined function: leave the loop first, the loop's exit then offers the return
	li := f.loops[len(f.loops)-1]
	if li.d != d {
		x.fail(pos, "defer inside a loop")
	}
	li.pendingRet = true
	return x.b.Brk()
}

// ---------------------------------------------------------------------------------------------- statements

type memoKey struct {
	i int
	d *dl
}

func (x *extractor) stmts(c *fctx, list []ast.Stmt, d *dl, k K) *Prog {
	memo := map[memoKey]*Prog{}
	var at func(i int) K
	at = func(i int) K {
		return func(d *dl) *Prog {
			if p, ok := memo[memoKey{i, d}]; ok {
				return p
			}
			var p *Prog
			if i == len(list) {
				p = k(d)
			} else {
				p = x.stmt(c, list[i], d, at(i+1))
			}
			memo[memoKey{i, d}] = p
			return p
		}
	}
	return at(0)(d)
}

func (x *extractor) lhs(c *fctx, e ast.Expr, tok token.Token, k *Prog) *Prog {
	e = unparen(e)
	if id, ok := x.fieldPath(c, e); ok {
		if tok == token.ASSIGN {
			return x.write(id, k)
		}
		if tok == token.DEFINE {
			x.fail(e.Pos(), "guarded field on the left of :=")
		}
		return x.read(id, x.write(id, k))
	}
	if g, ok := x.structGroup(c, e); ok {
		if tok != token.ASSIGN {
			x.fail(e.Pos(), "guarded struct updated with %s", tok)
		}
		return x.b.Act(fmt.Sprintf("(AStore %d)", g), k)
	}
	if x.isMutex(c, e) {
		x.fail(e.Pos(), "the mutex is replaced")
	}
	if id, ok := e.(*ast.Ident); ok {
		if c.isRecv(id) {
			x.fail(e.Pos(), "the receiver is reassigned")
		}
		if _, ok := c.alias[id.Name]; ok {
			x.fail(e.Pos(), "the alias %s of a guarded struct is reassigned", id.Name)
		}
		return k
	}
	if fid, ok := x.rootField(c, e); ok {
		// P[i] = v, P.x = v: the object the field refers to is updated in place
		var idx []ast.Expr
		for cur := e; ; {
			cur = unparen(cur)
			if _, ok := x.fieldPath(c, cur); ok {
				break
			}
			switch t := cur.(type) {
			case *ast.IndexExpr:
				idx = append(idx, t.Index)
				cur = t.X
			case *ast.SelectorExpr:
				cur = t.X
			case *ast.StarExpr:
				cur = t.X
			case *ast.SliceExpr:
				cur = t.X
			}
		}
		return x.exprs(c, idx, x.mutate(e.Pos(), fid, k))
	}
	switch t := e.(type) {
	case *ast.IndexExpr:
		return x.expr(c, t.X, x.expr(c, t.Index, k))
	case *ast.SelectorExpr:
		if c.isRecv(t.X) {
			return k // an unguarded field of the receiver
		}
		return x.expr(c, t.X, k)
	case *ast.StarExpr:
		return x.expr(c, t.X, k)
	}
	return x.expr(c, e, k)
}

func (x *extractor) sameD(pos token.Pos, want, got *dl) {
	if want != got {
		x.fail(pos, "defer inside a loop")
	}
}

func (x *extractor) stmt(c *fctx, s ast.Stmt, d *dl, k K) *Prog {
	switch t := s.(type) {
	case nil, *ast.EmptyStmt:
		return k(d)
	case *ast.ExprStmt:
		return x.expr(c, t.X, k(d))
	case *ast.DeclStmt:
		gd := t.Decl.(*ast.GenDecl)
		p := k(d)
		for i := len(gd.Specs) - 1; i >= 0; i-- {
			if vs, ok := gd.Specs[i].(*ast.ValueSpec); ok {
				p = x.exprs(c, vs.Values, p)
			}
		}
		return p
	case *ast.AssignStmt:
		if t.Tok == token.DEFINE && len(t.Lhs) == 1 && len(t.Rhs) == 1 {
			if u, ok := unparen(t.Rhs[0]).(*ast.UnaryExpr); ok && u.Op == token.AND {
				if g, ok := x.structGroup(c, u.X); ok {
					id, ok := t.Lhs[0].(*ast.Ident)
					if !ok || id.Name == "_" {
						x.fail(t.Pos(), "address of the guarded struct taken")
					}
					if len(c.frame.loops) > 0 {
						x.fail(t.Pos(), "alias of the guarded struct defined inside a loop")
					}
					c.alias[id.Name] = g
					return k(d)
				}
			}
		}
		p := k(d)
		for i := len(t.Lhs) - 1; i >= 0; i-- {
			p = x.lhs(c, t.Lhs[i], t.Tok, p)
		}
		return x.exprs(c, t.Rhs, p)
	case *ast.IncDecStmt:
		return x.lhs(c, t.X, token.ADD_ASSIGN, k(d))
	case *ast.SendStmt:
		p := k(d)
		if !c.noblock {
			p = x.b.Act(fmt.Sprintf("(ASend %d)", x.chanID(t.Chan)), p)
		}
		return x.expr(c, t.Chan, x.expr(c, t.Value, p))
	case *ast.BlockStmt:
		return x.stmts(c, t.List, d, k)
	case *ast.LabeledStmt:
		return x.stmt(c, t.Stmt, d, k)
	case *ast.ReturnStmt:
		return x.exprs(c, t.Results, x.doReturn(c, t.Pos(), d))
	case *ast.BranchStmt:
		if t.Label != nil {
			x.fail(t.Pos(), "%s with a label", t.Tok)
		}
		switch t.Tok {
		case token.BREAK:
			if c.brk == nil {
				x.fail(t.Pos(), "break outside a loop / switch / select")
			}
			return c.brk(d)
		case token.CONTINUE:
			if c.cont == nil {
				x.fail(t.Pos(), "continue outside a loop")
			}
			return c.cont(d)
		}
		x.fail(t.Pos(), "%s is not supported", t.Tok)
	case *ast.IfStmt:
		return x.stmt(c, t.Init, d, func(d2 *dl) *Prog {
			thenP := x.stmts(c, t.Body.List, d2, k)
			var elseP *Prog
			if t.Else != nil {
				elseP = x.stmt(c, t.Else, d2, k)
			} else {
				elseP = k(d2)
			}
			return x.expr(c, t.Cond, x.b.Choice(thenP, elseP))
		})
	case *ast.ForStmt:
		return x.stmt(c, t.Init, d, func(d2 *dl) *Prog {
			return x.loop(c, t.Pos(), d2, k, func(c2 *fctx, again K) *Prog {
				next := func(d3 *dl) *Prog { return x.stmt(c2, t.Post, d3, again) }
				c2.cont = next
				bodyP := x.stmts(c2, t.Body.List, d2, next)
				if t.Cond == nil {
					return bodyP
				}
				return x.expr(c2, t.Cond, x.b.Choice(bodyP, x.b.Brk()))
			})
		})
	case *ast.RangeStmt:
		for _, kv := range []ast.Expr{t.Key, t.Value} {
			if kv != nil {
				if _, ok := x.rootField(c, kv); ok {
					x.fail(kv.Pos(), "range assigns to a guarded field")
				}
			}
		}
		lp := x.loop(c, t.Pos(), d, k, func(c2 *fctx, again K) *Prog {
			c2.cont = again
			return x.stmts(c2, t.Body.List, d, again)
		})
		return x.expr(c, t.X, lp)
	case *ast.SwitchStmt:
		return x.stmt(c, t.Init, d, func(d2 *dl) *Prog {
			return x.expr(c, t.Tag, x.clauses(c, t.Body, d2, k))
		})
	case *ast.TypeSwitchStmt:
		return x.stmt(c, t.Init, d, func(d2 *dl) *Prog {
			var guard ast.Expr
			switch a := t.Assign.(type) {
			case *ast.AssignStmt:
				guard = a.Rhs[0]
			case *ast.ExprStmt:
				guard = a.X
			}
			if ta, ok := unparen(guard).(*ast.TypeAssertExpr); ok {
				guard = ta.X
			}
			return x.expr(c, guard, x.clauses(c, t.Body, d2, k))
		})
	case *ast.SelectStmt:
		hasDefault := false
		for _, cl := range t.Body.List {
			if cl.(*ast.CommClause).Comm == nil {
				hasDefault = true
			}
		}
		if len(t.Body.List) == 0 {
			return x.b.Act("(AWait 0)", k(d))
		}
		c2 := *c
		c2.brk = k
		var alt *Prog
		for i := len(t.Body.List) - 1; i >= 0; i-- {
			cl := t.Body.List[i].(*ast.CommClause)
			cc := c2
			cc.noblock = hasDefault
			ccBody := c2
			p := x.stmt(&cc, cl.Comm, d, func(d2 *dl) *Prog { return x.stmts(&ccBody, cl.Body, d2, k) })
			if alt == nil {
				alt = p
			} else {
				alt = x.b.Choice(p, alt)
			}
		}
		return alt
	case *ast.GoStmt:
		return x.goStmt(c, t, k(d))
	case *ast.DeferStmt:
		if len(c.frame.loops) > 0 {
			x.fail(t.Pos(), "defer inside a loop")
		}
		return x.deferStmt(c, t, d, k)
	}
	x.fail(s.Pos(), "unsupported statement %T", s)
	return nil
}

// loop builds Loop(body, after); `again` is what the end of the body (and continue) leads to.
func (x *extractor) loop(c *fctx, pos token.Pos, d *dl, k K, mkBody func(c2 *fctx, again K) *Prog) *Prog {
	li := &loopInfo{d: d}
	c.frame.loops = append(c.frame.loops, li)
	c2 := *c
	c2.noblock = false
	c2.brk = func(d2 *dl) *Prog { x.sameD(pos, d, d2); return x.b.Brk() }
	again := func(d2 *dl) *Prog { x.sameD(pos, d, d2); return x.b.Cont() }
	bodyP := mkBody(&c2, again)
	c.frame.loops = c.frame.loops[:len(c.frame.loops)-1]
	after := k(d)
	if li.pendingRet {
		after = x.b.Choice(after, x.doReturn(c, pos, d))
	}
	return x.b.Loop(bodyP, after)
}

// clauses of a switch: one of the cases, or none of them when there is no default
func (x *extractor) clauses(c *fctx, body *ast.BlockStmt, d *dl, k K) *Prog {
	c2 := *c
	c2.brk = k
	var alt *Prog
	hasDefault := false
	var conds []ast.Expr
	for i := len(body.List) - 1; i >= 0; i-- {
		cl := body.List[i].(*ast.CaseClause)
		if cl.List == nil {
			hasDefault = true
		}
		for _, s := range cl.Body {
			if b, ok := s.(*ast.BranchStmt); ok && b.Tok == token.FALLTHROUGH {
				x.fail(b.Pos(), "fallthrough is not supported")
			}
		}
		p := x.stmts(&c2, cl.Body, d, k)
		if alt == nil {
			alt = p
		} else {
			alt = x.b.Choice(p, alt)
		}
		conds = append(cl.List, conds...)
	}
	if !hasDefault {
		if alt == nil {
			alt = k(d)
		} else {
			alt = x.b.Choice(alt, k(d))
		}
	}
	return x.exprsLenient(c, conds, alt)
}

// case lists of a type switch hold types: walk only what is an expression
func (x *extractor) exprsLenient(c *fctx, list []ast.Expr, k *Prog) *Prog {
	for i := len(list) - 1; i >= 0; i-- {
		switch list[i].(type) {
		case *ast.ArrayType, *ast.MapType, *ast.ChanType, *ast.FuncType, *ast.InterfaceType, *ast.StructType:
			continue
		}
		k = x.expr(c, list[i], k)
	}
	return k
}

func (x *extractor) goStmt(c *fctx, t *ast.GoStmt, k *Prog) *Prog {
	fun := unparen(t.Call.Fun)
	if lit, ok := fun.(*ast.FuncLit); ok {
		ep, ok := x.goLits[lit]
		if !ok {
			ep = &entryProg{id: x.nextID}
			x.nextID++
			n := 1
			for _, g := range x.goList {
				if strings.HasPrefix(g.name, x.cur+"_go") {
					n++
				}
			}
			ep.name = fmt.Sprintf("%s_go%d", x.cur, n)
			x.goLits[lit] = ep
			x.goList = append(x.goList, ep)
			ep.prog = x.body(c, lit.Body.List, true, x.b.Ret())
		}
		return x.exprs(c, t.Call.Args, x.b.Act(fmt.Sprintf("(AGo %d)", ep.id), k))
	}
	if sel, ok := fun.(*ast.SelectorExpr); ok && c.isRecv(sel.X) {
		if _, ok := x.methods[sel.Sel.Name]; ok {
			if _, seen := x.goTarget[sel.Sel.Name]; !seen {
				x.goTarget[sel.Sel.Name] = t.Pos()
			}
			return x.exprs(c, t.Call.Args, x.b.Act(fmt.Sprintf("(AGo %d)", x.methodID[sel.Sel.Name]), k))
		}
	}
	var base ast.Expr
	if sel, ok := fun.(*ast.SelectorExpr); ok {
		base = sel.X
	} else if _, ok := fun.(*ast.Ident); !ok {
		base = fun
	}
	return x.expr(c, base, x.exprs(c, t.Call.Args, x.b.Act("(AGo 0)", k)))
}

func (x *extractor) deferStmt(c *fctx, t *ast.DeferStmt, d *dl, k K) *Prog {
	fun := unparen(t.Call.Fun)
	if sel, ok := fun.(*ast.SelectorExpr); ok {
		name := sel.Sel.Name
		if x.isMutex(c, sel.X) {
			switch name {
			case "Unlock":
				return x.b.Act("ADeferUnlock", k(&dl{item: func(p *Prog) *Prog { return x.b.Act("AUnlock", p) }, prev: d}))
			case "RUnlock":
				return x.b.Act("ADeferRUnlock", k(&dl{item: func(p *Prog) *Prog { return x.b.Act("ARUnlock", p) }, prev: d}))
			}
			x.fail(t.Pos(), "deferred mutex operation %s", name)
		}
		if c.isRecv(sel.X) {
			if fn, ok := x.methods[name]; ok {
				mid := x.methodID[name]
				pos := t.Pos()
				nd := &dl{item: func(p *Prog) *Prog {
					return x.b.Act(fmt.Sprintf("(ACall %d)", mid), x.inlineMethod(fn, pos, p))
				}, prev: d}
				return x.exprs(c, t.Call.Args, k(nd))
			}
		}
		if name == "Wait" && len(t.Call.Args) == 0 {
			ch := x.chanID(fun)
			nd := &dl{item: func(p *Prog) *Prog { return x.b.Act(fmt.Sprintf("(AWait %d)", ch), p) }, prev: d}
			return x.expr(c, sel.X, k(nd))
		}
		if _, ok := x.rootField(c, sel.X); ok {
			x.fail(t.Pos(), "deferred call on a guarded field")
		}
		return x.expr(c, sel.X, x.exprs(c, t.Call.Args, k(d)))
	}
	if lit, ok := fun.(*ast.FuncLit); ok {
		cc := *c
		nd := &dl{item: func(p *Prog) *Prog { return x.inlineLit(&cc, lit, p) }, prev: d}
		return x.exprs(c, t.Call.Args, k(nd))
	}
	return x.exprs(c, t.Call.Args, k(d))
}

// ---------------------------------------------------------------------------------------------- objects

func ownLockOps(fd *ast.FuncDecl, mutex string) bool {
	recv := recvName(fd)
	found := false
	ast.Inspect(fd.Body, func(n ast.Node) bool {
		if s, ok := n.(*ast.SelectorExpr); ok && s.Sel.Name == mutex {
			if id, ok := s.X.(*ast.Ident); ok && id.Name == recv {
				found = true
			}
		}
		return true
	})
	return found
}

func (x *extractor) run() (string, objManifest) {
	progs := map[string]*Prog{}
	for _, name := range x.order {
		fd := x.methods[name]
		x.cur = name
		x.stack = []string{name}
		c := &fctx{recv: recvName(fd), alias: map[string]int{}}
		progs[name] = x.body(c, fd.Body.List, true, x.b.Ret())
	}
	// unexported methods that touch guarded fields without ever locking are helpers that expect the lock to be held:
	// they are not entry points, and nobody outside the receiver's own methods may call them
	helpers := map[string]bool{}
	for _, name := range x.order {
		p := progs[name]
		if unicode.IsUpper(rune(name[0])) || ownLockOps(x.methods[name], x.e.Mutex) {
			continue
		}
		if p.any(isFieldAct, map[*Prog]bool{}) && !p.any(isLockAct, map[*Prog]bool{}) {
			helpers[name] = true
		}
	}
	for h := range helpers {
		if pos, ok := x.goTarget[h]; ok {
			x.fail(pos, "%s reads or writes guarded fields without locking and is started as a goroutine", h)
		}
	}
	x.checkHelperCalls(helpers)

	var sb strings.Builder
	om := objManifest{Name: x.e.Name, Recv: x.e.Recv, Fields: map[string]int{}, Methods: map[string]int{}, Helpers: []string{}, Channels: map[string]int{}}
	fmt.Fprintf(&sb, "(* ---- %s: %s/%s, type %s, mutex field %s\n", x.e.Name, x.e.Dir, x.e.File, x.e.Recv, x.e.Mutex)
	var lay []string
	for gi, g := range x.e.Groups {
		var ids []string
		for _, f := range g.Fields {
			key := f
			if g.Struct != "" {
				key = g.Struct + "." + f
			}
			ids = append(ids, fmt.Sprint(x.fieldID[key]))
			om.Fields[key] = x.fieldID[key]
			fmt.Fprintf(&sb, "     field %d = %s (group %d%s)\n", x.fieldID[key], key, gi, map[bool]string{true: ", published", false: ""}[g.Published])
		}
		lay = append(lay, "["+strings.Join(ids, "; ")+"]")
	}
	for i, ch := range x.chanList {
		fmt.Fprintf(&sb, "     channel / wait %d = %s\n", i+1, ch)
		om.Channels[ch] = i + 1
	}
	var entries []entryProg
	for _, name := range x.order {
		if helpers[name] {
			fmt.Fprintf(&sb, "     %s: expects the lock to be held, inlined at its call sites\n", name)
			om.Helpers = append(om.Helpers, name)
			continue
		}
		entries = append(entries, entryProg{name: name, id: x.methodID[name], prog: progs[name]})
	}
	for _, g := range x.goList {
		entries = append(entries, *g)
	}
	for _, en := range entries {
		fmt.Fprintf(&sb, "     method %d = %s\n", en.id, en.name)
		om.Methods[en.name] = en.id
	}
	sb.WriteString("*)\n")
	fmt.Fprintf(&sb, "Definition %s_layout : layout := [%s].\n", x.e.Name, strings.Join(lay, "; "))
	var items []string
	for _, en := range entries {
		var ps strings.Builder
		if !en.prog.print(&ps) {
			panic(refusal{fmt.Sprintf("%s/%s: the program of %s is too large to print", x.e.Dir, x.e.File, en.name)})
		}
		fmt.Fprintf(&sb, "Definition %s_id_%s : N := %d.\n", x.e.Name, en.name, en.id)
		fmt.Fprintf(&sb, "Definition %s_m_%s : prog :=\n  %s.\n", x.e.Name, en.name, ps.String())
		items = append(items, fmt.Sprintf("(%s_id_%s, %s_m_%s)", x.e.Name, en.name, x.e.Name, en.name))
	}
	fmt.Fprintf(&sb, "Definition %s : object := mkObj %s_layout\n  [%s].\n\n", x.e.Name, x.e.Name, strings.Join(items, ";\n   "))
	return sb.String(), om
}

// a helper that expects the lock to be held may only be called as recv.helper(...) inside methods of the receiver
func (x *extractor) checkHelperCalls(helpers map[string]bool) {
	if len(helpers) == 0 {
		return
	}
	for _, f := range x.files {
		for _, dcl := range f.Decls {
			fd, isFn := dcl.(*ast.FuncDecl)
			inside := ""
			if isFn && fd.Recv != nil && fd.Body != nil {
				if _, ok := x.methods[fd.Name.Name]; ok && x.methods[fd.Name.Name] == fd {
					inside = recvName(fd)
				}
			}
			ast.Inspect(dcl, func(n ast.Node) bool {
				s, ok := n.(*ast.SelectorExpr)
				if !ok || !helpers[s.Sel.Name] {
					return true
				}
				if id, ok := s.X.(*ast.Ident); ok && inside != "" && id.Name == inside {
					return true
				}
				x.fail(s.Pos(), "%s touches guarded fields without locking (it expects the lock to be held) and is used outside the methods of %s", s.Sel.Name, x.e.Recv)
				return true
			})
		}
	}
}

module verif/locks

go 1.21

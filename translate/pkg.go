package main

import (
	"fmt"
	"go/ast"
	"go/constant"
	"go/parser"
	"go/token"
	"os"
	"path/filepath"
	"sort"
	"strconv"
	"strings"
)

const modulePath = "github.com/smartcontractkit/chainlink-ccip"

// unsupported is the one error type of the translator: a position and the construct that is outside the subset.
type unsupported struct {
	pos token.Position
	msg string
}

func (u *unsupported) Error() string {
	return fmt.Sprintf("%s:%d: unsupported construct: %s", u.pos.Filename, u.pos.Line, u.msg)
}

// Kind is the Gallina-side classification of a Go type.
//
//	u64    uint64 / uint and named types over them        N, arithmetic wraps (add64 / sub64 / mul64)
//	int    int / int64 and named types over them          Z, overflow NOT modelled
//	big    *big.Int, assumed non-nil                      Z
//	bigopt *big.Int that may be nil                       option Z (only through the table)
//	bool                                                  bool
//	range  [2]T with T of kind u64                        N * N
//	estr   named string type with a const block           N = position of the constant in the block
//	struct named struct type (parameters only, flattened through the table)
//	untyped an untyped numeric constant (carries its value)
type Kind struct {
	Base    string
	Named   *Named  // the named type, when there is one (method lookup, estr tables)
	Elem    *Kind   // slice, set: the element kind
	Rec     *Record // record: the tuple layout
	Fn      *FnType // func: parameter and result kinds (function-typed parameters, oracles)
	Len     int     // bytes: the array length
	Elems   []Kind  // tuple: the results of a function with several plain results
	Native  bool    // set: a native Go map (parameters of this kind are refused: the caller could see insertions)
	BoolMap bool    // set: a native map[K]bool (m[k] reads membership); false: mapset or map[K]struct{}
}

// Second tier (loops over slices):
//
//	slice  []T                                            list T
//	set    mapset.Set[T], T of an N-valued kind            list T, membership only (NewSet, Add, Contains)
//	record struct type listed in the table's Records       tuple of the listed field paths (+ an abstract identity)
//	ord    values that are only compared / moved (table)   N, no arithmetic
//	bytes  [n]byte                                        list N of length n
//	unit   the value of a function that only returns error tt
//	tparam a type parameter                               a Gallina type variable
//	func   a function-typed parameter or an oracle        a Gallina function
//	drop / ignore / oracle: parameters that are not values (context, loggers, interface carriers)
type Record struct {
	Name   string
	Fields []RecField
	Opaque bool // a last component N stands for everything the code does not look at
}

type RecField struct {
	Path string
	K    Kind
}

type FnType struct {
	Args []Kind
	Res  Kind
	Wrap bool // result in the res monad
}

type Named struct {
	Pkg  *Pkg
	Name string
}

func (k Kind) String() string {
	switch k.Base {
	case "estr", "struct":
		if k.Named != nil {
			return k.Base + ":" + k.Named.Pkg.Name + "." + k.Named.Name
		}
	case "slice", "set":
		return k.Base + " " + k.Elem.String()
	case "record":
		return "record:" + k.Rec.Name
	}
	return k.Base
}

// short is the spelling used in the table's Params / Result columns.
func (k Kind) short() string {
	switch k.Base {
	case "slice", "set":
		return k.Base + " " + k.Elem.short()
	case "record":
		return "record:" + k.Rec.Name
	}
	return k.Base
}

func (r *Record) width() int {
	n := len(r.Fields)
	if r.Opaque {
		n++
	}
	return n
}

// proj is the projection of component i out of the left-nested tuple v = (((c0, c1), c2), ...).
func (r *Record) proj(i int, v string) string {
	n := r.width()
	if n == 1 {
		return v
	}
	s := v
	for k := 0; k < n-1-i; k++ {
		s = "(fst " + s + ")"
	}
	if i > 0 {
		s = "(snd " + s + ")"
	}
	return s
}

func (k Kind) coqType() string {
	switch k.Base {
	case "u64", "estr", "ord":
		return "N"
	case "int", "big":
		return "Z"
	case "bigopt":
		return "option Z"
	case "bool":
		return "bool"
	case "range":
		return "(N * N)"
	case "slice", "set":
		return "(list " + k.Elem.coqType() + ")"
	case "bytes":
		return "(list N)"
	case "unit":
		return "unit"
	case "tuple":
		var parts []string
		for _, k := range k.Elems {
			parts = append(parts, k.coqType())
		}
		return "(" + strings.Join(parts, " * ") + ")"
	case "tparam":
		return k.Named.Name
	case "record":
		var parts []string
		for _, f := range k.Rec.Fields {
			parts = append(parts, f.K.coqType())
		}
		if k.Rec.Opaque {
			parts = append(parts, "N")
		}
		if len(parts) == 1 {
			return parts[0]
		}
		return "(" + strings.Join(parts, " * ") + ")"
	case "func":
		s := ""
		for _, a := range k.Fn.Args {
			s += a.coqType() + " -> "
		}
		r := k.Fn.Res.coqType()
		if k.Fn.Wrap {
			r = "res " + r
		}
		return "(" + s + r + ")"
	}
	return "UNSUPPORTED_" + k.Base
}

func sameKind(a, b Kind) bool {
	if a.Base != b.Base {
		return false
	}
	switch a.Base {
	case "estr", "struct", "tparam":
		return a.Named != nil && b.Named != nil && a.Named.Pkg == b.Named.Pkg && a.Named.Name == b.Named.Name
	case "slice", "set":
		return sameKind(*a.Elem, *b.Elem)
	case "record":
		return a.Rec.Name == b.Rec.Name
	case "bytes":
		return a.Len == b.Len
	}
	return true
}

type constInfo struct {
	Name    string
	Type    string // declared (or inherited) type name, "" = untyped
	Val     constant.Value
	Ordinal int // position among the constants of the same declared type in this package (source order)
	Pos     token.Pos
}

type Pkg struct {
	Dir     string // relative to the repo root
	Name    string
	Fset    *token.FileSet
	Files   []*ast.File
	Types   map[string]*ast.TypeSpec
	Funcs   map[string]*ast.FuncDecl // "Name" or "Recv.Name"
	FileOf  map[*ast.FuncDecl]*ast.File
	Consts  map[string]*constInfo
	ByType  map[string][]*constInfo // typed constants in source order
	tr      *Translator
	constOK bool
}

type Translator struct {
	repo        string
	pkgs        map[string]*Pkg
	defs        []string          // rendered definitions, dependencies first
	done        map[string]*fnSig // decl key -> translated signature
	busy        map[string]bool
	constDone   map[string]bool
	helperNames []string
	names       map[string]bool
}

func newTranslator(repo string) *Translator {
	return &Translator{repo: repo, pkgs: map[string]*Pkg{}, done: map[string]*fnSig{}, busy: map[string]bool{},
		constDone: map[string]bool{}, names: map[string]bool{}}
}

func (t *Translator) loadPkg(dir string) (*Pkg, error) {
	dir = filepath.Clean(dir)
	if p, ok := t.pkgs[dir]; ok {
		return p, nil
	}
	abs := filepath.Join(t.repo, dir)
	ents, err := os.ReadDir(abs)
	if err != nil {
		return nil, fmt.Errorf("package directory %s: %v", dir, err)
	}
	p := &Pkg{Dir: dir, Fset: token.NewFileSet(), Types: map[string]*ast.TypeSpec{}, Funcs: map[string]*ast.FuncDecl{},
		FileOf: map[*ast.FuncDecl]*ast.File{}, Consts: map[string]*constInfo{}, ByType: map[string][]*constInfo{}, tr: t}
	var names []string
	for _, e := range ents {
		n := e.Name()
		if e.IsDir() || !strings.HasSuffix(n, ".go") || strings.HasSuffix(n, "_test.go") {
			continue
		}
		names = append(names, n)
	}
	sort.Strings(names)
	for _, n := range names {
		// positions are reported relative to the repo root so that messages do not depend on where the tree lives
		src, err := os.ReadFile(filepath.Join(abs, n))
		if err != nil {
			return nil, err
		}
		f, err := parser.ParseFile(p.Fset, filepath.Join(dir, n), src, parser.SkipObjectResolution)
		if err != nil {
			return nil, fmt.Errorf("parse %s: %v", filepath.Join(dir, n), err)
		}
		if p.Name == "" {
			p.Name = f.Name.Name
		} else if f.Name.Name != p.Name {
			continue // a stray file of another package (e.g. package main helpers): ignore
		}
		p.Files = append(p.Files, f)
		for _, d := range f.Decls {
			switch d := d.(type) {
			case *ast.GenDecl:
				if d.Tok == token.TYPE {
					for _, s := range d.Specs {
						ts := s.(*ast.TypeSpec)
						p.Types[ts.Name.Name] = ts
					}
				}
			case *ast.FuncDecl:
				key := d.Name.Name
				if d.Recv != nil && len(d.Recv.List) == 1 {
					key = recvTypeName(d.Recv.List[0].Type) + "." + key
				}
				p.Funcs[key] = d
				p.FileOf[d] = f
			}
		}
	}
	if len(p.Files) == 0 {
		return nil, fmt.Errorf("package directory %s: no Go files", dir)
	}
	t.pkgs[dir] = p
	return p, nil
}

func recvTypeName(e ast.Expr) string {
	switch e := e.(type) {
	case *ast.StarExpr:
		return recvTypeName(e.X)
	case *ast.Ident:
		return e.Name
	case *ast.IndexExpr: // generic receiver
		return recvTypeName(e.X)
	case *ast.IndexListExpr:
		return recvTypeName(e.X)
	}
	return "?"
}

func (p *Pkg) errAt(pos token.Pos, format string, a ...any) error {
	return &unsupported{pos: p.Fset.Position(pos), msg: fmt.Sprintf(format, a...)}
}

// importPath returns the import path bound to the qualifier q in file f.
func importPath(f *ast.File, q string) string {
	for _, im := range f.Imports {
		path, _ := strconv.Unquote(im.Path.Value)
		name := path[strings.LastIndex(path, "/")+1:]
		if im.Name != nil {
			name = im.Name.Name
		}
		if name == q {
			return path
		}
	}
	return ""
}

// pkgOfQualifier loads the package of this module that the qualifier q denotes in file f.
func (p *Pkg) pkgOfQualifier(f *ast.File, q string, pos token.Pos) (*Pkg, error) {
	path := importPath(f, q)
	if path == "" {
		return nil, p.errAt(pos, "qualifier %q is not an import of this file", q)
	}
	if path != modulePath && !strings.HasPrefix(path, modulePath+"/") {
		return nil, p.errAt(pos, "reference into external package %q", path)
	}
	return p.tr.loadPkg(strings.TrimPrefix(strings.TrimPrefix(path, modulePath), "/"))
}

// ---------------------------------------------------------------- constants (iota blocks)

func (p *Pkg) loadConsts() error {
	if p.constOK {
		return nil
	}
	p.constOK = true
	for _, f := range p.Files {
		for _, d := range f.Decls {
			gd, ok := d.(*ast.GenDecl)
			if !ok || gd.Tok != token.CONST {
				continue
			}
			var prevType ast.Expr
			var prevVals []ast.Expr
			for iota, s := range gd.Specs {
				vs := s.(*ast.ValueSpec)
				typ, vals := vs.Type, vs.Values
				if len(vals) == 0 { // implicit repetition of the previous expression list
					typ, vals = prevType, prevVals
				} else {
					prevType, prevVals = typ, vals
				}
				for i, name := range vs.Names {
					if name.Name == "_" {
						continue
					}
					if i >= len(vals) {
						continue // malformed; the compiler rejects it
					}
					tname := ""
					if typ != nil {
						if id, ok := typ.(*ast.Ident); ok {
							tname = id.Name
						} else {
							continue // constant of a qualified type: not needed, skip (use is refused later)
						}
					}
					val, convT, err := p.evalConst(vals[i], int64(iota))
					if err != nil {
						continue // not a constant we can evaluate; a later use of it is refused
					}
					if tname == "" {
						tname = convT
					}
					ci := &constInfo{Name: name.Name, Type: tname, Val: val, Pos: name.Pos()}
					p.Consts[name.Name] = ci
					if tname != "" {
						ci.Ordinal = len(p.ByType[tname])
						// identical values denote the same thing (two names for one string): share the ordinal
						for _, o := range p.ByType[tname] {
							if constant.Compare(o.Val, token.EQL, val) {
								ci.Ordinal = o.Ordinal
								break
							}
						}
						p.ByType[tname] = append(p.ByType[tname], ci)
					}
				}
			}
		}
	}
	return nil
}

// evalConst evaluates a constant expression; convT is the type name when the expression is a conversion T(x).
func (p *Pkg) evalConst(e ast.Expr, iota int64) (constant.Value, string, error) {
	switch e := e.(type) {
	case *ast.BasicLit:
		v := constant.MakeFromLiteral(e.Value, e.Kind, 0)
		if v.Kind() == constant.Unknown {
			return nil, "", p.errAt(e.Pos(), "literal %s", e.Value)
		}
		return v, "", nil
	case *ast.ParenExpr:
		return p.evalConst(e.X, iota)
	case *ast.Ident:
		if e.Name == "iota" {
			return constant.MakeInt64(iota), "", nil
		}
		if e.Name == "true" || e.Name == "false" {
			return constant.MakeBool(e.Name == "true"), "", nil
		}
		if c, ok := p.Consts[e.Name]; ok {
			return c.Val, c.Type, nil
		}
		return nil, "", p.errAt(e.Pos(), "identifier %s in a constant expression", e.Name)
	case *ast.UnaryExpr:
		x, _, err := p.evalConst(e.X, iota)
		if err != nil {
			return nil, "", err
		}
		if e.Op != token.SUB && e.Op != token.ADD {
			return nil, "", p.errAt(e.Pos(), "unary %s in a constant expression", e.Op)
		}
		return constant.UnaryOp(e.Op, x, 0), "", nil
	case *ast.BinaryExpr:
		x, tx, err := p.evalConst(e.X, iota)
		if err != nil {
			return nil, "", err
		}
		y, ty, err := p.evalConst(e.Y, iota)
		if err != nil {
			return nil, "", err
		}
		t := tx
		if t == "" {
			t = ty
		}
		switch e.Op {
		case token.ADD, token.SUB, token.MUL:
			return constant.BinaryOp(x, e.Op, y), t, nil
		case token.QUO:
			if constant.Sign(y) == 0 {
				return nil, "", p.errAt(e.Pos(), "constant division by zero")
			}
			if x.Kind() == constant.Int && y.Kind() == constant.Int {
				return constant.BinaryOp(x, token.QUO_ASSIGN, y), t, nil // integer division
			}
			return constant.BinaryOp(x, token.QUO, y), t, nil
		case token.SHL, token.SHR:
			n, ok := constant.Uint64Val(constant.ToInt(y))
			if !ok || n > 4096 {
				return nil, "", p.errAt(e.Pos(), "constant shift count")
			}
			return constant.Shift(constant.ToInt(x), e.Op, uint(n)), tx, nil
		}
		return nil, "", p.errAt(e.Pos(), "operator %s in a constant expression", e.Op)
	case *ast.CallExpr:
		if len(e.Args) == 1 {
			if id, ok := e.Fun.(*ast.Ident); ok {
				v, _, err := p.evalConst(e.Args[0], iota)
				if err != nil {
					return nil, "", err
				}
				return v, id.Name, nil
			}
		}
	}
	return nil, "", p.errAt(e.Pos(), "expression of this form in a constant declaration")
}

// ---------------------------------------------------------------- types -> kinds

// kindOfType classifies the type expression e occurring in file f of package p.
func (p *Pkg) kindOfType(f *ast.File, e ast.Expr) (Kind, error) {
	switch e := e.(type) {
	case *ast.ParenExpr:
		return p.kindOfType(f, e.X)
	case *ast.Ident:
		switch e.Name {
		case "uint64", "uint":
			return Kind{Base: "u64"}, nil
		case "int", "int64":
			return Kind{Base: "int"}, nil
		case "bool":
			return Kind{Base: "bool"}, nil
		case "string":
			return Kind{Base: "string"}, nil
		}
		ts, ok := p.Types[e.Name]
		if !ok {
			return Kind{}, p.errAt(e.Pos(), "type %s (not a supported builtin, not declared in package %s)", e.Name, p.Name)
		}
		if ts.TypeParams != nil {
			return Kind{}, p.errAt(e.Pos(), "generic type %s", e.Name)
		}
		named := &Named{Pkg: p, Name: e.Name}
		if _, isStruct := ts.Type.(*ast.StructType); isStruct {
			return Kind{Base: "struct", Named: named}, nil
		}
		uf := p.fileOfType(ts)
		u, err := p.kindOfType(uf, ts.Type)
		if err != nil {
			return Kind{}, err
		}
		switch u.Base {
		case "string":
			if err := p.loadConsts(); err != nil {
				return Kind{}, err
			}
			if len(p.ByType[e.Name]) == 0 {
				return Kind{}, p.errAt(e.Pos(), "string type %s without a constant block", e.Name)
			}
			return Kind{Base: "estr", Named: named}, nil
		case "u64", "int", "bool", "range":
			return Kind{Base: u.Base, Named: named}, nil
		}
		return Kind{}, p.errAt(e.Pos(), "named type %s over kind %s", e.Name, u.Base)
	case *ast.StarExpr:
		if sel, ok := e.X.(*ast.SelectorExpr); ok {
			if q, ok := sel.X.(*ast.Ident); ok && sel.Sel.Name == "Int" && importPath(f, q.Name) == "math/big" {
				return Kind{Base: "big"}, nil
			}
		}
		k, err := p.kindOfType(f, e.X)
		if err != nil {
			return Kind{}, err
		}
		if k.Named == nil || (k.Base != "range" && k.Base != "struct") {
			return Kind{}, p.errAt(e.Pos(), "pointer to a value of kind %s", k.Base)
		}
		return k, nil // pointer receivers / parameters to arrays and structs are read through
	case *ast.SelectorExpr:
		q, ok := e.X.(*ast.Ident)
		if !ok {
			return Kind{}, p.errAt(e.Pos(), "qualified type")
		}
		if importPath(f, q.Name) == "math/big" {
			return Kind{}, p.errAt(e.Pos(), "big.%s by value", e.Sel.Name)
		}
		other, err := p.pkgOfQualifier(f, q.Name, e.Pos())
		if err != nil {
			return Kind{}, err
		}
		if _, ok := other.Types[e.Sel.Name]; !ok {
			return Kind{}, p.errAt(e.Pos(), "type %s.%s not found", q.Name, e.Sel.Name)
		}
		return other.kindOfType(other.Files[0], &ast.Ident{Name: e.Sel.Name, NamePos: e.Pos()})
	case *ast.ArrayType:
		if lit, ok := e.Len.(*ast.BasicLit); ok && lit.Value == "2" {
			k, err := p.kindOfType(f, e.Elt)
			if err != nil {
				return Kind{}, err
			}
			if k.Base == "u64" {
				return Kind{Base: "range"}, nil
			}
		}
		return Kind{}, p.errAt(e.Pos(), "array / slice type other than [2]<uint64 kind>")
	}
	return Kind{}, p.errAt(e.Pos(), "type expression %T", e)
}

func (p *Pkg) fileOfType(ts *ast.TypeSpec) *ast.File {
	for _, f := range p.Files {
		if f.Pos() <= ts.Pos() && ts.Pos() <= f.End() {
			return f
		}
	}
	return p.Files[0]
}

// fieldType returns the declared type of a field of the named struct type.
func (p *Pkg) fieldType(structName, field string) (ast.Expr, *ast.File, bool) {
	ts, ok := p.Types[structName]
	if !ok {
		return nil, nil, false
	}
	st, ok := ts.Type.(*ast.StructType)
	if !ok {
		return nil, nil, false
	}
	for _, fl := range st.Fields.List {
		for _, n := range fl.Names {
			if n.Name == field {
				return fl.Type, p.fileOfType(ts), true
			}
		}
	}
	return nil, nil, false
}

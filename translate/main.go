// Command translate regenerates Gallina definitions from the current Go sources of a small table of pure leaf
// functions of chainlink-ccip.  Standard library only.  Usage:
//
//	cd /verif/translate && go run . -repo /repo -out <dir>
//
// It writes <dir>/Leaf.v (definitions only, no proofs) and <dir>/manifest.json, prints the manifest on stdout and
// exits 0 when every table entry was translated, 1 when at least one entry was refused (the others are still
// written), 2 on usage / IO errors.  A construct outside the supported subset is never guessed at: the function is
// refused with a message naming file:line and the construct.
package main

import (
	"encoding/json"
	"flag"
	"fmt"
	"os"
	"path/filepath"
	"strings"
)

// Spec is one row of the table: which Go function becomes which Gallina definition.  Params / Result state the
// expected kinds (u64, int, big, bigopt, bool, range, estr, res <kind>); they are derived again from the signature
// found in the source and compared, so that a changed signature is refused instead of silently re-interpreted.
// A parameter (or receiver) of struct type is replaced by the listed fields, in this order.
type Spec struct {
	File    string
	Recv    string // receiver type name, "" for a plain function
	Func    string
	Name    string   // Gallina name
	Params  []string // kinds of the Gallina parameters (receiver first), after struct flattening
	Result  string
	Structs map[string][]FieldSpec // struct type name -> exposed fields (any other field access is refused)

	// second tier
	Records map[string][]FieldSpec // struct type name -> the field paths that make up its tuple (slice elements, results)
	Opaque  map[string]bool        // record type name -> add a last component N: the identity of everything else
	TypeMap map[string]string      // type expression as written in the source -> kind name (types outside the module,
	//                                byte strings that are only moved around, parameters that are not values)
	Oracles map[string]OracleSpec // "<TypeName>.<Method>" of a parameter / field whose kind is "oracle"
	Cut     *CutSpec
}

// OracleSpec: a method of an interface-typed parameter, read as a Gallina function parameter.
// Args: one kind name per Go argument, "_" = the argument is dropped (context).  Result: "bool", "res bool", ...
type OracleSpec struct {
	Name   string
	Args   []string
	Result string
}

// CutSpec: translate only the statements of the body that precede the (single, top-level) statement calling
// Before, and return the variable Yield there.  What follows the cut is not covered by the translation.
type CutSpec struct {
	Before string
	Yield  string
}

// FieldSpec exposes one field of a struct parameter.  Kind "" = derive from the field's declared type;
// "bigopt" = a *big.Int that may be nil (dereferencing nil is a Panic of the res monad).
type FieldSpec struct {
	Field string
	Kind  string
}

var table = []Spec{
	{File: "pkg/types/ccipocr3/generic_types.go", Recv: "SeqNumRange", Func: "Limit", Name: "gen_limit",
		Params: []string{"range", "u64"}, Result: "range"},
	{File: "pkg/types/ccipocr3/generic_types.go", Recv: "SeqNumRange", Func: "Overlaps", Name: "gen_overlaps",
		Params: []string{"range", "range"}, Result: "bool"},
	{File: "pkg/types/ccipocr3/generic_types.go", Recv: "SeqNumRange", Func: "Contains", Name: "gen_contains",
		Params: []string{"range", "u64"}, Result: "bool"},

	{File: "internal/libs/mathslib/calc.go", Func: "Deviates", Name: "gen_deviates",
		Params: []string{"big", "big", "int"}, Result: "bool"},
	{File: "internal/libs/mathslib/calc.go", Func: "CalculateUsdPerUnitGas", Name: "gen_usd_per_unit_gas",
		Params: []string{"big", "big"}, Result: "big"},
	{File: "commit/chainfee/types.go", Recv: "ComponentsUSDPrices", Func: "ToPackedFee", Name: "gen_to_packed",
		Params: []string{"big", "big"}, Result: "big",
		Structs: map[string][]FieldSpec{"ComponentsUSDPrices": {{"DataAvFeePriceUSD", ""}, {"ExecutionFeePriceUSD", ""}}}},

	{File: "internal/plugincommon/consensus/threshold.go", Func: "TwoFPlus1", Name: "gen_two_f_plus_1",
		Params: []string{"int"}, Result: "u64"},
	{File: "internal/plugincommon/consensus/threshold.go", Func: "FPlus1", Name: "gen_f_plus_1",
		Params: []string{"int"}, Result: "u64"},
	{File: "internal/plugincommon/consensus/threshold.go", Func: "GteFPlusOne", Name: "gen_gte_f_plus_one",
		Params: []string{"int", "int"}, Result: "bool"},
	{File: "internal/plugincommon/consensus/threshold.go", Func: "LtFPlusOne", Name: "gen_lt_f_plus_one",
		Params: []string{"int", "int"}, Result: "bool"},
	{File: "internal/plugincommon/consensus/threshold.go", Func: "LtTwoFPlusOne", Name: "gen_lt_two_f_plus_one",
		Params: []string{"int", "int"}, Result: "bool"},

	{File: "commit/merkleroot/types.go", Recv: "Outcome", Func: "NextState", Name: "gen_next_state",
		Params: []string{"int"}, Result: "int",
		Structs: map[string][]FieldSpec{"Outcome": {{"OutcomeType", ""}}}},

	{File: "execute/exectypes/outcome.go", Recv: "PluginState", Func: "Next", Name: "gen_exec_next",
		Params: []string{"estr"}, Result: "res estr"},
	{File: "execute/exectypes/outcome.go", Recv: "PluginState", Func: "IsValid", Name: "gen_exec_state_valid",
		Params: []string{"estr"}, Result: "bool"},

	{File: "pkg/reader/rmn_home.go", Func: "IsNodeObserver", Name: "gen_is_node_observer",
		Params: []string{"bigopt", "int", "int"}, Result: "res bool",
		Structs: map[string][]FieldSpec{"SourceChain": {{"ObserverNodesBitmap", "bigopt"}}}},

	// ---------------- second tier: loops over slices ----------------
	{File: "commit/merkleroot/observation.go", Func: "msgsCoverRange", Name: "gen_msgs_cover_range",
		Params: []string{"slice record:Message", "range"}, Result: "res unit",
		Records: map[string][]FieldSpec{"Message": {{"Header.SequenceNumber", ""}}}},
	{File: "commit/merkleroot/observation.go", Recv: "observerImpl", Func: "computeMerkleRoot", Name: "gen_compute_root_hashes",
		Params: []string{"func", "slice record:Message"}, Result: "res slice ord",
		Structs: map[string][]FieldSpec{"observerImpl": {{"lggr", ""}, {"msgHasher", ""}}},
		Records: map[string][]FieldSpec{"Message": {{"Header.SequenceNumber", ""}}},
		Opaque:  map[string]bool{"Message": true},
		TypeMap: map[string]string{"logger.Logger": "ignore", "cciptypes.MessageHasher": "oracle",
			"context.Context": "drop", "[32]byte": "ord", "cciptypes.Bytes32": "ord"},
		Oracles: map[string]OracleSpec{"MessageHasher.Hash": {Name: "hash", Args: []string{"_", "record:Message"}, Result: "res ord"}},
		Cut:     &CutSpec{Before: "merklemulti.NewTree", Yield: "hashes"}},

	{File: "commit/merkleroot/validate_observation.go", Func: "validateObservedMerkleRoots", Name: "gen_validate_roots_chains",
		Params: []string{"slice record:MerkleRootChain", "ord", "set u64"}, Result: "res unit",
		Records: map[string][]FieldSpec{"MerkleRootChain": {{"ChainSel", ""}}},
		TypeMap: map[string]string{"commontypes.OracleID": "ord"}},
	{File: "commit/merkleroot/validate_observation.go", Func: "validateObservedOnRampMaxSeqNums", Name: "gen_validate_onramp_chains",
		Params: []string{"slice record:SeqNumChain", "ord", "set u64"}, Result: "res unit",
		Records: map[string][]FieldSpec{"SeqNumChain": {{"ChainSel", ""}}},
		TypeMap: map[string]string{"commontypes.OracleID": "ord"}},
	{File: "commit/merkleroot/validate_observation.go", Func: "validateObservedOffRampMaxSeqNums", Name: "gen_validate_offramp_chains",
		Params: []string{"slice record:SeqNumChain", "ord", "bool"}, Result: "res unit",
		Records: map[string][]FieldSpec{"SeqNumChain": {{"ChainSel", ""}}},
		TypeMap: map[string]string{"commontypes.OracleID": "ord"}},

	{File: "execute/plugin_functions.go", Func: "computeRanges", Name: "gen_compute_ranges",
		Params: []string{"slice record:CommitData"}, Result: "res slice range",
		Records: map[string][]FieldSpec{"CommitData": {{"SequenceNumberRange", ""}}}},

	{File: "internal/plugincommon/transmitters.go", Func: "GetTransmissionSchedule", Name: "gen_schedule",
		Params: []string{"func", "slice ord", "int"}, Result: "res record:TransmissionSchedule",
		TypeMap: map[string]string{"ChainSupport": "oracle", "commontypes.OracleID": "ord", "time.Duration": "int",
			"*ocr3types.TransmissionSchedule": "record:TransmissionSchedule", "ocr3types.TransmissionSchedule": "record:TransmissionSchedule"},
		Oracles: map[string]OracleSpec{"ChainSupport.SupportsDestChain": {Name: "supports", Args: []string{"ord"}, Result: "res bool"}},
		Records: map[string][]FieldSpec{"TransmissionSchedule": {{"Transmitters", "slice ord"}, {"TransmissionDelays", "slice int"}}}},

	{File: "internal/libs/slicelib/bits.go", Func: "BoolsToBitFlags", Name: "gen_bools_to_bit_flags",
		Params: []string{"slice bool"}, Result: "res big"},
	{File: "internal/libs/slicelib/bits.go", Func: "BitFlagsToBools", Name: "gen_bit_flags_to_bools",
		Params: []string{"big", "int"}, Result: "res slice bool"},

	{File: "commit/chainfee/types.go", Func: "FromPackedFee", Name: "gen_from_packed",
		Params: []string{"big"}, Result: "res record:ComponentsUSDPrices",
		Records: map[string][]FieldSpec{"ComponentsUSDPrices": {{"ExecutionFeePriceUSD", ""}, {"DataAvFeePriceUSD", ""}}}},

	{File: "pkg/reader/ccip.go", Func: "chainSelectorToBytes16", Name: "gen_chain_selector_to_bytes16",
		Params: []string{"u64"}, Result: "bytes"},

	{File: "internal/plugincommon/consensus/consensus.go", Func: "Median", Name: "gen_median",
		Params: []string{"tparam", "slice tparam", "func"}, Result: "res tparam"},
}

type failure struct {
	Func   string `json:"func"`
	Reason string `json:"reason"`
}

type manifest struct {
	Translated []string  `json:"translated"`
	Helpers    []string  `json:"helpers"`
	Failed     []failure `json:"translator_failed"`
}

func main() {
	repo := flag.String("repo", "/repo", "root of the chainlink-ccip working tree")
	out := flag.String("out", "", "output directory (Leaf.v, manifest.json)")
	only := flag.String("only", "", "comma separated Gallina names; default: the whole table")
	list := flag.Bool("list", false, "print the table (Gallina name, source file, function) as JSON and exit")
	flag.Parse()
	if *list {
		type row struct {
			Name string `json:"name"`
			File string `json:"file"`
			Func string `json:"func"`
		}
		var rows []row
		for _, sp := range table {
			f := sp.Func
			if sp.Recv != "" {
				f = sp.Recv + "." + sp.Func
			}
			rows = append(rows, row{sp.Name, sp.File, f})
		}
		js, _ := json.MarshalIndent(rows, "", "  ")
		os.Stdout.Write(append(js, '\n'))
		return
	}
	if *out == "" {
		fmt.Fprintln(os.Stderr, "translate: -out is required")
		os.Exit(2)
	}
	want := map[string]bool{}
	for _, n := range strings.Split(*only, ",") {
		if n != "" {
			want[n] = true
		}
	}
	tr := newTranslator(*repo)
	man := manifest{Translated: []string{}, Helpers: []string{}, Failed: []failure{}}
	for i := range table {
		sp := &table[i]
		if len(want) > 0 && !want[sp.Name] {
			continue
		}
		if err := tr.translateSpec(sp); err != nil {
			man.Failed = append(man.Failed, failure{Func: sp.Name, Reason: err.Error()})
			fmt.Fprintf(os.Stderr, "translate: REFUSED %s (%s %s.%s): %v\n", sp.Name, sp.File, sp.Recv, sp.Func, err)
			continue
		}
		man.Translated = append(man.Translated, sp.Name)
	}
	man.Helpers = append(man.Helpers, tr.helperNames...)
	if err := os.MkdirAll(*out, 0o755); err != nil {
		fmt.Fprintln(os.Stderr, "translate:", err)
		os.Exit(2)
	}
	if err := os.WriteFile(filepath.Join(*out, "Leaf.v"), []byte(tr.render()), 0o644); err != nil {
		fmt.Fprintln(os.Stderr, "translate:", err)
		os.Exit(2)
	}
	js, _ := json.MarshalIndent(man, "", "  ")
	js = append(js, '\n')
	if err := os.WriteFile(filepath.Join(*out, "manifest.json"), js, 0o644); err != nil {
		fmt.Fprintln(os.Stderr, "translate:", err)
		os.Exit(2)
	}
	os.Stdout.Write(js)
	if len(man.Failed) > 0 {
		os.Exit(1)
	}
}

module verif/translate

go 1.21

package main

import (
	"fmt"
	"go/ast"
	"go/constant"
	"go/token"
	"go/types"
	"strings"
)

// fieldOf: x.f1.f2... where the base is a value of a record kind (tuple projection), or a flattened struct
// parameter / oracle carrier whose full path is an environment key.
func (c *fnCtx) fieldOf(x *ast.SelectorExpr, e *env) (Val, bool, error) {
	if p := selPath(x); p != "" {
		if v, _, ok := e.lookup(p); ok && strings.Contains(p, ".") {
			switch v.kind.Base {
			case "bigopt":
				return Val{}, true, c.err(x, "nullable *big.Int used outside a big.Int method call")
			case "big":
				return Val{S: v.coq, K: v.kind, Alias: p}, true, nil
			case "drop", "ignore", "oracle", "func":
				return Val{}, true, c.err(x, "%s is not a value in this translation (table kind %s)", p, v.kind.Base)
			}
			return Val{S: v.coq, K: v.kind}, true, nil
		}
	}
	// peel field names until the base is something else
	var path []string
	var base ast.Expr = x
	for {
		s, ok := base.(*ast.SelectorExpr)
		if !ok {
			break
		}
		path = append([]string{s.Sel.Name}, path...)
		base = s.X
	}
	// the base must be a variable of record kind, or a hoisted slice element
	switch b := base.(type) {
	case *ast.Ident:
		v, _, ok := e.lookup(b.Name)
		if !ok || v.kind.Base != "record" {
			return Val{}, false, nil
		}
	case *ast.IndexExpr:
		if _, ok := c.hoisted[b]; !ok {
			return Val{}, false, nil
		}
	default:
		return Val{}, false, nil
	}
	bv, err := c.expr(base, e)
	if err != nil {
		return Val{}, true, err
	}
	if bv.K.Base != "record" {
		return Val{}, false, nil
	}
	want := strings.Join(path, ".")
	for i, f := range bv.K.Rec.Fields {
		if f.Path == want {
			return Val{S: bv.K.Rec.proj(i, bv.S), K: f.K}, true, nil
		}
	}
	return Val{}, true, c.err(x, "field %s of %s is not in the table's field list", want, bv.K.Rec.Name)
}

// recordLit: T{F1: a, F2: b} for a record kind; every listed field must be given (a missing one would be the zero
// value, which for pointers and slices the tuple cannot say).
func (c *fnCtx) recordLit(x *ast.CompositeLit, k Kind, e *env) (Val, error) {
	if k.Rec.Opaque {
		return Val{}, c.err(x, "literal of a record with an abstract rest")
	}
	vals := make([]string, len(k.Rec.Fields))
	for _, el := range x.Elts {
		kv, ok := el.(*ast.KeyValueExpr)
		if !ok {
			return Val{}, c.err(el, "positional struct literal")
		}
		name := selPath(kv.Key)
		found := false
		for i, f := range k.Rec.Fields {
			if f.Path == name {
				c.noMut++
				v, err := c.exprKind(kv.Value, e, f.K)
				c.noMut--
				if err != nil {
					return Val{}, err
				}
				vals[i] = v.S
				found = true
			}
		}
		if !found {
			return Val{}, c.err(el, "field %s of %s is not in the table's field list", name, k.Rec.Name)
		}
	}
	for i, v := range vals {
		if v == "" {
			return Val{}, c.err(x, "field %s of %s is not given in the literal", k.Rec.Fields[i].Path, k.Rec.Name)
		}
	}
	if len(vals) == 1 {
		return Val{S: vals[0], K: k}, nil
	}
	return Val{S: "(" + strings.Join(vals, ", ") + ")", K: k}, nil
}

// call2: the calls of the second tier.  ok = false: not one of them.
func (c *fnCtx) call2(x *ast.CallExpr, e *env) (Val, bool, error) {
	fun := types.ExprString(x.Fun)
	intK := Kind{Base: "int"}

	// T(x) for a type the table maps (time.Duration, ...)
	if c.spec != nil {
		if m, ok := c.spec.TypeMap[fun]; ok && len(x.Args) == 1 {
			if _, _, isVar := e.lookup(selPath(x.Fun)); !isVar {
				k, err := c.kindByName(m, x)
				if err != nil {
					return Val{}, true, err
				}
				v, err := c.convert(x, k, e)
				return v, true, err
			}
		}
	}

	// a function-typed parameter, or an oracle that cannot fail
	if p := selPath(x.Fun); p != "" {
		if fv, _, ok := e.lookup(p); ok && fv.kind.Base == "func" {
			if fv.kind.Fn.Wrap {
				return Val{}, true, c.err(x, "call of %s, which can fail, outside the `v, err := ...; if err != nil { return }` form", p)
			}
			if strings.HasPrefix(fv.coq, "o_") {
				s, err := c.oracleCall(x, p, fv, e)
				return Val{S: s, K: fv.kind.Fn.Res}, true, err
			}
			as, err := c.args(x.Args, fv.kind.Fn.Args, e, x)
			if err != nil {
				return Val{}, true, err
			}
			return Val{S: "(" + fv.coq + as + ")", K: fv.kind.Fn.Res}, true, nil
		}
	}

	builtin := func(name string) bool {
		id, ok := x.Fun.(*ast.Ident)
		if !ok || id.Name != name {
			return false
		}
		_, _, shadow := e.lookup(name)
		return !shadow
	}
	switch {
	case builtin("len") && len(x.Args) == 1:
		v, err := c.expr(x.Args[0], e)
		if err != nil {
			return Val{}, true, err
		}
		switch v.K.Base {
		case "slice", "set":
			if v.K.Base == "set" {
				return Val{}, true, c.err(x, "len of a set")
			}
			return Val{S: "(Z.of_nat (length " + atom(v.S) + "))", K: intK}, true, nil
		case "bytes":
			return Val{K: Kind{Base: "untyped"}, C: constant.MakeInt64(int64(v.K.Len)), S: "?"}, true, nil
		case "range":
			return Val{K: Kind{Base: "untyped"}, C: constant.MakeInt64(2), S: "?"}, true, nil
		}
		return Val{}, true, c.err(x, "len of a value of kind %s", v.K.Base)

	case builtin("append") && len(x.Args) >= 1:
		sv, err := c.expr(x.Args[0], e)
		if err != nil {
			return Val{}, true, err
		}
		if sv.K.Base != "slice" {
			return Val{}, true, c.err(x, "append to a value of kind %s", sv.K.Base)
		}
		c.noMut++
		defer func() { c.noMut-- }()
		if x.Ellipsis.IsValid() {
			if len(x.Args) != 2 {
				return Val{}, true, c.err(x, "append with a spread argument and further arguments")
			}
			tv, err := c.exprKind(x.Args[1], e, sv.K)
			if err != nil {
				return Val{}, true, err
			}
			return Val{S: fmt.Sprintf("(app %s %s)", atom(sv.S), atom(tv.S)), K: sv.K, Alias: sv.Alias}, true, nil
		}
		tail := "nil"
		for i := len(x.Args) - 1; i >= 1; i-- {
			ev, err := c.exprKind(x.Args[i], e, *sv.K.Elem)
			if err != nil {
				return Val{}, true, err
			}
			tail = fmt.Sprintf("(cons %s %s)", atom(ev.S), tail)
		}
		return Val{S: fmt.Sprintf("(app %s %s)", atom(sv.S), tail), K: sv.K, Alias: sv.Alias}, true, nil

	case builtin("make") && len(x.Args) >= 1 && c.isSetType(x.Args[0]):
		k, err := c.kindOf(c.file, x.Args[0])
		if err != nil {
			return Val{}, true, err
		}
		if len(x.Args) > 2 {
			return Val{}, true, c.err(x, "make of a map with %d arguments", len(x.Args))
		}
		if len(x.Args) == 2 { // the size hint has no effect on values
			if _, err := c.expr(x.Args[1], e); err != nil {
				return Val{}, true, err
			}
		}
		return Val{S: "nil", K: k}, true, nil

	case builtin("make") && (len(x.Args) == 2 || len(x.Args) == 3):
		k, err := c.kindOf(c.file, x.Args[0])
		if err != nil {
			return Val{}, true, err
		}
		if k.Base != "slice" {
			return Val{}, true, c.err(x, "make of a value of kind %s", k.Base)
		}
		n, err := c.expr(x.Args[1], e)
		if err != nil {
			return Val{}, true, err
		}
		if len(x.Args) == 3 {
			// the capacity has no effect on values (a negative or too small one panics: not modelled for constants only)
			if _, err := c.expr(x.Args[2], e); err != nil {
				return Val{}, true, err
			}
		}
		if n.K.Base == "untyped" {
			if constant.Sign(n.C) == 0 {
				return Val{S: "nil", K: k}, true, nil
			}
			if constant.Sign(n.C) < 0 {
				return Val{}, true, c.err(x, "make with a negative length")
			}
		}
		nv, err := c.coerce(n, intK, x)
		if err != nil {
			return Val{}, true, err
		}
		z, err := c.zero(*k.Elem, x, e)
		if err != nil {
			return Val{}, true, err
		}
		// NOTE a negative length panics in Go; here Z.to_nat makes it 0.  Lengths are len(..) of other slices
		// in the subset's uses; a general expression is refused.
		if !strings.HasPrefix(nv.S, "(Z.of_nat (length ") && n.K.Base != "untyped" {
			return Val{}, true, c.err(x, "make with a length that is neither a constant nor len(...) (a negative length panics)")
		}
		return Val{S: fmt.Sprintf("(repeat %s (Z.to_nat %s))", atom(z.S), atom(nv.S)), K: k}, true, nil

	case fun == "slices.Contains" && importPath(c.file, "slices") == "slices" && len(x.Args) == 2:
		sv, err := c.expr(x.Args[0], e)
		if err != nil {
			return Val{}, true, err
		}
		if sv.K.Base != "slice" || eqFun(*sv.K.Elem) == "" {
			return Val{}, true, c.err(x, "slices.Contains on this kind of slice")
		}
		c.noMut++
		xv, err := c.exprKind(x.Args[1], e, *sv.K.Elem)
		c.noMut--
		if err != nil {
			return Val{}, true, err
		}
		return Val{S: fmt.Sprintf("(existsb (%s %s) %s)", eqFun(*sv.K.Elem), atom(xv.S), atom(sv.S)), K: Kind{Base: "bool"}}, true, nil

	case fun == "slices.Clone" && importPath(c.file, "slices") == "slices" && len(x.Args) == 1:
		sv, err := c.expr(x.Args[0], e)
		if err != nil {
			return Val{}, true, err
		}
		if sv.K.Base != "slice" {
			return Val{}, true, c.err(x, "slices.Clone of a value of kind %s", sv.K.Base)
		}
		return Val{S: sv.S, K: sv.K}, true, nil
	}

	// mapset.NewSet[T]()
	if ie, ok := x.Fun.(*ast.IndexExpr); ok {
		if sel, ok := ie.X.(*ast.SelectorExpr); ok && sel.Sel.Name == "NewSet" && len(x.Args) == 0 {
			if q, ok := sel.X.(*ast.Ident); ok && strings.HasSuffix(importPath(c.file, q.Name), "golang-set/v2") {
				el, err := c.kindOf(c.file, ie.Index)
				if err != nil {
					return Val{}, true, err
				}
				if el.coqType() != "N" {
					return Val{}, true, c.err(x, "set of elements of kind %s", el.Base)
				}
				return Val{S: "nil", K: Kind{Base: "set", Elem: &el}}, true, nil
			}
		}
		return Val{}, true, c.err(x, "call of an instantiated generic function")
	}
	// set.Contains(x)
	if sel, ok := x.Fun.(*ast.SelectorExpr); ok {
		if id, ok := sel.X.(*ast.Ident); ok {
			if v, _, ok := e.lookup(id.Name); ok && v.kind.Base == "set" {
				if sel.Sel.Name != "Contains" || len(x.Args) != 1 {
					return Val{}, true, c.err(x, "set method %s (only NewSet, Add, Contains with one argument are read)", sel.Sel.Name)
				}
				c.noMut++
				xv, err := c.exprKind(x.Args[0], e, *v.kind.Elem)
				c.noMut--
				if err != nil {
					return Val{}, true, err
				}
				return Val{S: fmt.Sprintf("(memN %s %s)", atom(xv.S), v.coq), K: Kind{Base: "bool"}}, true, nil
			}
		}
	}
	return Val{}, false, nil
}

func (c *fnCtx) isSetType(x ast.Expr) bool {
	if _, ok := x.(*ast.MapType); ok {
		return true
	}
	if id, ok := x.(*ast.Ident); ok {
		if ts, ok := c.pkg.Types[id.Name]; ok {
			_, isMap := ts.Type.(*ast.MapType)
			return isMap
		}
	}
	return false
}

// detectEffect: a parameter (or receiver) of a native set kind that the body inserts into.
func (c *fnCtx) detectEffect(e *env) {
	idx := 0
	var names []string
	if c.decl.Recv != nil && len(c.decl.Recv.List) == 1 && len(c.decl.Recv.List[0].Names) == 1 {
		names = append(names, c.decl.Recv.List[0].Names[0].Name)
	} else if c.decl.Recv != nil {
		names = append(names, "")
	}
	for _, fl := range c.decl.Type.Params.List {
		for _, n := range fl.Names {
			names = append(names, n.Name)
		}
	}
	for i, n := range names {
		v, _, ok := e.lookup(n)
		if n == "" || !ok || v.kind.Base != "set" || !v.kind.Native {
			continue
		}
		written := false
		ast.Inspect(c.decl.Body, func(nd ast.Node) bool {
			if as, ok := nd.(*ast.AssignStmt); ok {
				for _, l := range as.Lhs {
					if ix, ok := l.(*ast.IndexExpr); ok && selPath(ix.X) == n {
						written = true
					}
				}
			}
			return !written
		})
		if written && c.effectVar == "" {
			c.effectVar, c.effectIdx = n, i
			idx = i
		}
	}
	_ = idx
}

// effectCond: an if-condition of the form  x.m(args)  or  !x.m(args)  where m inserts into the local set x
// (a method of x's named map type, or a function of the package taking x).  The call is bound in front of the if:
// let '(b, x') := gen_m x args in if b ...
func (c *fnCtx) effectCond(cond ast.Expr, e *env) (string, Val, bool, error) {
	neg := false
	x := cond
	for {
		if p, ok := x.(*ast.ParenExpr); ok {
			x = p.X
			continue
		}
		if u, ok := x.(*ast.UnaryExpr); ok && u.Op == token.NOT {
			neg = !neg
			x = u.X
			continue
		}
		break
	}
	call, ok := x.(*ast.CallExpr)
	if !ok {
		return "", Val{}, false, nil
	}
	sel, ok := call.Fun.(*ast.SelectorExpr)
	if !ok {
		return "", Val{}, false, nil
	}
	id, ok := sel.X.(*ast.Ident)
	if !ok {
		return "", Val{}, false, nil
	}
	v, _, ok := e.lookup(id.Name)
	if !ok || v.kind.Base != "set" || v.kind.Named == nil {
		return "", Val{}, false, nil
	}
	d, ok := v.kind.Named.Pkg.Funcs[v.kind.Named.Name+"."+sel.Sel.Name]
	if !ok {
		return "", Val{}, false, nil
	}
	sig, err := c.tr.translateFunc(v.kind.Named.Pkg, d, "", c.spec, true)
	if err != nil {
		return "", Val{}, false, err
	}
	if !sig.effect || sig.effectArg != 0 {
		return "", Val{}, false, nil
	}
	if (v.param && id.Name != c.effectVar) || v.shared {
		return "", Val{}, false, c.err(call, "call of %s, which inserts into %s, a set the caller or another variable may share", sel.Sel.Name, id.Name)
	}
	if sig.plain.Base != "bool" {
		return "", Val{}, false, c.err(call, "condition of kind %s", sig.plain.Base)
	}
	recv := Val{S: v.coq, K: v.kind}
	head, as, err := c.calleeArgs(sig, d, &recv, call, e)
	if err != nil {
		return "", Val{}, false, err
	}
	pre := c.takePre()
	bn, sn := c.fresh("hit"), c.fresh(id.Name)
	v.coq = sn
	e.set(id.Name, v)
	text := fmt.Sprintf("%slet '(%s, %s) := (%s%s%s) in\n  ", pre, bn, sn, sig.name, head, as)
	cv := Val{S: bn, K: Kind{Base: "bool"}}
	if neg {
		cv.S = "(negb " + bn + ")"
	}
	return text, cv, true, nil
}

// assignMulti: `a, b := <one expression with several values>`: a membership test on a map used as a set
// (`_, ok := m[k]`), or the call of a translated function with several plain results.
func (c *fnCtx) assignMulti(s *ast.AssignStmt, e *env, rest cont) (string, error) {
	if len(s.Rhs) != 1 || (s.Tok != token.DEFINE && s.Tok != token.ASSIGN) {
		return "", c.err(s, "assignment from a multi-valued expression")
	}
	names := make([]*ast.Ident, len(s.Lhs))
	for i, l := range s.Lhs {
		id, ok := l.(*ast.Ident)
		if !ok {
			return "", c.err(l, "assignment target %T", l)
		}
		names[i] = id
	}
	// declare / assign the Go variable id with the Gallina name cn of kind k
	put := func(id *ast.Ident, cn string, k Kind) error {
		if id.Name == "_" {
			return nil
		}
		if s.Tok == token.DEFINE {
			if _, ok := e.scopes[len(e.scopes)-1][id.Name]; !ok {
				e.declare(id.Name, varInfo{coq: cn, kind: k})
				return nil
			}
		}
		old, _, ok := e.lookup(id.Name)
		if !ok || !sameKind(old.kind, k) {
			return c.err(id, "assignment to %s of a value of kind %s", id.Name, k)
		}
		if old.mutRcv {
			return c.err(id, "re-assignment of the pointer receiver itself")
		}
		e.set(id.Name, varInfo{coq: cn, kind: k, param: old.param})
		return nil
	}
	switch r := s.Rhs[0].(type) {
	case *ast.IndexExpr:
		sv, err := c.expr(r.X, e)
		if err != nil {
			return "", err
		}
		if sv.K.Base != "set" || !sv.K.Native || len(names) != 2 {
			return "", c.err(s, "two-valued index expression on something that is not a map used as a set")
		}
		if names[0].Name != "_" {
			return "", c.err(names[0], "value read from a map used as a set")
		}
		c.noMut++
		kv, err := c.exprKind(r.Index, e, *sv.K.Elem)
		c.noMut--
		if err != nil {
			return "", err
		}
		pre := c.takePre()
		cn := "_"
		if names[1].Name != "_" {
			cn = c.fresh(names[1].Name)
		}
		if err := put(names[1], cn, Kind{Base: "bool"}); err != nil {
			return "", err
		}
		rs, err := rest(e)
		if err != nil {
			return "", err
		}
		return fmt.Sprintf("%slet %s := (memN %s %s) in\n  %s", pre, cn, atom(kv.S), atom(sv.S), rs), nil

	case *ast.CallExpr:
		id, ok := r.Fun.(*ast.Ident)
		if !ok {
			return "", c.err(s, "assignment from a multi-valued expression")
		}
		if _, _, isVar := e.lookup(id.Name); isVar {
			return "", c.err(s, "call of a function value")
		}
		d, ok := c.pkg.Funcs[id.Name]
		if !ok {
			return "", c.err(s, "call of %s (not a function of package %s)", id.Name, c.pkg.Name)
		}
		sig, err := c.tr.translateFunc(c.pkg, d, "", c.spec, true)
		if err != nil {
			return "", err
		}
		if sig.result.Base != "tuple" || sig.wrap || len(sig.result.Elems) != len(names) {
			return "", c.err(s, "call of %s in a %d-valued assignment", id.Name, len(names))
		}
		_, as, err := c.calleeArgs(sig, d, nil, r, e)
		if err != nil {
			return "", err
		}
		pre := c.takePre()
		var pats []string
		for i, n := range names {
			cn := "_"
			if n.Name != "_" {
				cn = c.fresh(n.Name)
			}
			pats = append(pats, cn)
			if err := put(n, cn, sig.result.Elems[i]); err != nil {
				return "", err
			}
		}
		rs, err := rest(e)
		if err != nil {
			return "", err
		}
		return fmt.Sprintf("%slet '(%s) := (%s%s) in\n  %s", pre, strings.Join(pats, ", "), sig.name, as, rs), nil
	}
	return "", c.err(s, "assignment from a multi-valued expression")
}

// pkgVar: a package-level `var x = <big.Int expression>` that nothing in the package assigns, takes the address of,
// or stores into: a constant.  Its initialiser is translated once into `gen_var_<pkg>_<x>`.
func (c *fnCtx) pkgVar(p *Pkg, name string, at ast.Node) (Val, bool, error) {
	var init ast.Expr
	var file *ast.File
	var pos token.Pos
	for _, f := range p.Files {
		for _, d := range f.Decls {
			gd, ok := d.(*ast.GenDecl)
			if !ok || gd.Tok != token.VAR {
				continue
			}
			for _, sp := range gd.Specs {
				vs := sp.(*ast.ValueSpec)
				for i, n := range vs.Names {
					if n.Name == name {
						if len(vs.Values) != len(vs.Names) {
							return Val{}, true, c.err(at, "package-level variable %s without its own initialiser", name)
						}
						init, file, pos = vs.Values[i], f, n.Pos()
					}
				}
			}
		}
	}
	if init == nil {
		return Val{}, false, nil
	}
	// read-only?  (names are compared without scope analysis: a local variable of the same name that is assigned
	// somewhere in the package makes this refuse, which is the safe side)
	why := ""
	for _, f := range p.Files {
		ast.Inspect(f, func(n ast.Node) bool {
			switch n := n.(type) {
			case *ast.AssignStmt:
				if n.Tok != token.DEFINE {
					for _, l := range n.Lhs {
						if selPath(l) == name {
							why = "is assigned"
						}
					}
				}
			case *ast.IncDecStmt:
				if selPath(n.X) == name {
					why = "is assigned"
				}
			case *ast.UnaryExpr:
				if n.Op == token.AND && selPath(n.X) == name {
					why = "has its address taken"
				}
			case *ast.CallExpr:
				if sel, ok := n.Fun.(*ast.SelectorExpr); ok && selPath(sel.X) == name {
					switch sel.Sel.Name {
					case "Cmp", "CmpAbs", "Sign", "BitLen", "Bit", "String", "Int64", "Uint64", "IsInt64", "IsUint64", "Text", "Bytes":
					default:
						why = "is the receiver of " + sel.Sel.Name
					}
				}
			}
			return why == ""
		})
	}
	if why != "" {
		return Val{}, true, c.err(at, "package-level variable %s %s somewhere in the package (only read-only ones are read as constants)", name, why)
	}
	cn := "gen_var_" + p.Name + "_" + sanitize(name)
	if !c.tr.constDone[cn] {
		sub := &fnCtx{tr: c.tr, pkg: p, file: file, spec: c.spec, used: map[string]int{}, tparams: map[string]bool{},
			hoisted: map[ast.Expr]Val{}, sig: &fnSig{}, name: cn}
		ev := &env{}
		ev.push()
		v, err := sub.expr(init, ev)
		if err != nil {
			return Val{}, true, err
		}
		if v.K.Base != "big" || v.Alias != "" || len(sub.pre) > 0 {
			return Val{}, true, c.err(at, "package-level variable %s is not initialised by a fresh *big.Int expression", name)
		}
		c.tr.constDone[cn] = true
		c.tr.emitDef(cn, fmt.Sprintf("(* %s:%d package-level variable, never assigned *)\nDefinition %s : Z := %s.",
			p.Fset.Position(pos).Filename, p.Fset.Position(pos).Line, cn, v.S))
	}
	return Val{S: cn, K: Kind{Base: "big"}, Alias: "\x00pkgvar:" + name}, true, nil
}

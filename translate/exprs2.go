package main

import (
	"fmt"
	"go/ast"
	"go/constant"
	"go/types"
	"strings"
)

// fieldOf: x.f1.f2... where the base is a value of a record kind (tuple projection), or a flattened struct
// parameter / oracle carrier whose full path is an environment key.
func (c *fnCtx) fieldOf(x *ast.SelectorExpr, e *env) (Val, bool, error) {
	if p := selPath(x); p != "" {
		if v, _, ok := e.lookup(p); ok && strings.Contains(p, ".") {
			switch v.kind.Base {
			case "bigopt":
				return Val{}, true, c.err(x, "nullable *big.Int used outside a big.Int method call")
			case "big":
				return Val{S: v.coq, K: v.kind, Alias: p}, true, nil
			case "drop", "ignore", "oracle", "func":
				return Val{}, true, c.err(x, "%s is not a value in this translation (table kind %s)", p, v.kind.Base)
			}
			return Val{S: v.coq, K: v.kind}, true, nil
		}
	}
	// peel field names until the base is something else
	var path []string
	var base ast.Expr = x
	for {
		s, ok := base.(*ast.SelectorExpr)
		if !ok {
			break
		}
		path = append([]string{s.Sel.Name}, path...)
		base = s.X
	}
	// the base must be a variable of record kind, or a hoisted slice element
	switch b := base.(type) {
	case *ast.Ident:
		v, _, ok := e.lookup(b.Name)
		if !ok || v.kind.Base != "record" {
			return Val{}, false, nil
		}
	case *ast.IndexExpr:
		if _, ok := c.hoisted[b]; !ok {
			return Val{}, false, nil
		}
	default:
		return Val{}, false, nil
	}
	bv, err := c.expr(base, e)
	if err != nil {
		return Val{}, true, err
	}
	if bv.K.Base != "record" {
		return Val{}, false, nil
	}
	want := strings.Join(path, ".")
	for i, f := range bv.K.Rec.Fields {
		if f.Path == want {
			return Val{S: bv.K.Rec.proj(i, bv.S), K: f.K}, true, nil
		}
	}
	return Val{}, true, c.err(x, "field %s of %s is not in the table's field list", want, bv.K.Rec.Name)
}

// recordLit: T{F1: a, F2: b} for a record kind; every listed field must be given (a missing one would be the zero
// value, which for pointers and slices the tuple cannot say).
func (c *fnCtx) recordLit(x *ast.CompositeLit, k Kind, e *env) (Val, error) {
	if k.Rec.Opaque {
		return Val{}, c.err(x, "literal of a record with an abstract rest")
	}
	vals := make([]string, len(k.Rec.Fields))
	for _, el := range x.Elts {
		kv, ok := el.(*ast.KeyValueExpr)
		if !ok {
			return Val{}, c.err(el, "positional struct literal")
		}
		name := selPath(kv.Key)
		found := false
		for i, f := range k.Rec.Fields {
			if f.Path == name {
				c.noMut++
				v, err := c.exprKind(kv.Value, e, f.K)
				c.noMut--
				if err != nil {
					return Val{}, err
				}
				vals[i] = v.S
				found = true
			}
		}
		if !found {
			return Val{}, c.err(el, "field %s of %s is not in the table's field list", name, k.Rec.Name)
		}
	}
	for i, v := range vals {
		if v == "" {
			return Val{}, c.err(x, "field %s of %s is not given in the literal", k.Rec.Fields[i].Path, k.Rec.Name)
		}
	}
	if len(vals) == 1 {
		return Val{S: vals[0], K: k}, nil
	}
	return Val{S: "(" + strings.Join(vals, ", ") + ")", K: k}, nil
}

// call2: the calls of the second tier.  ok = false: not one of them.
func (c *fnCtx) call2(x *ast.CallExpr, e *env) (Val, bool, error) {
	fun := types.ExprString(x.Fun)
	intK := Kind{Base: "int"}

	// T(x) for a type the table maps (time.Duration, ...)
	if c.spec != nil {
		if m, ok := c.spec.TypeMap[fun]; ok && len(x.Args) == 1 {
			if _, _, isVar := e.lookup(selPath(x.Fun)); !isVar {
				k, err := c.kindByName(m, x)
				if err != nil {
					return Val{}, true, err
				}
				v, err := c.convert(x, k, e)
				return v, true, err
			}
		}
	}

	// a function-typed parameter, or an oracle that cannot fail
	if p := selPath(x.Fun); p != "" {
		if fv, _, ok := e.lookup(p); ok && fv.kind.Base == "func" {
			if fv.kind.Fn.Wrap {
				return Val{}, true, c.err(x, "call of %s, which can fail, outside the `v, err := ...; if err != nil { return }` form", p)
			}
			if strings.HasPrefix(fv.coq, "o_") {
				s, err := c.oracleCall(x, p, fv, e)
				return Val{S: s, K: fv.kind.Fn.Res}, true, err
			}
			as, err := c.args(x.Args, fv.kind.Fn.Args, e, x)
			if err != nil {
				return Val{}, true, err
			}
			return Val{S: "(" + fv.coq + as + ")", K: fv.kind.Fn.Res}, true, nil
		}
	}

	builtin := func(name string) bool {
		id, ok := x.Fun.(*ast.Ident)
		if !ok || id.Name != name {
			return false
		}
		_, _, shadow := e.lookup(name)
		return !shadow
	}
	switch {
	case builtin("len") && len(x.Args) == 1:
		v, err := c.expr(x.Args[0], e)
		if err != nil {
			return Val{}, true, err
		}
		switch v.K.Base {
		case "slice", "set":
			if v.K.Base == "set" {
				return Val{}, true, c.err(x, "len of a set")
			}
			return Val{S: "(Z.of_nat (length " + atom(v.S) + "))", K: intK}, true, nil
		case "bytes":
			return Val{K: Kind{Base: "untyped"}, C: constant.MakeInt64(int64(v.K.Len)), S: "?"}, true, nil
		case "range":
			return Val{K: Kind{Base: "untyped"}, C: constant.MakeInt64(2), S: "?"}, true, nil
		}
		return Val{}, true, c.err(x, "len of a value of kind %s", v.K.Base)

	case builtin("append") && len(x.Args) >= 1:
		sv, err := c.expr(x.Args[0], e)
		if err != nil {
			return Val{}, true, err
		}
		if sv.K.Base != "slice" {
			return Val{}, true, c.err(x, "append to a value of kind %s", sv.K.Base)
		}
		c.noMut++
		defer func() { c.noMut-- }()
		if x.Ellipsis.IsValid() {
			if len(x.Args) != 2 {
				return Val{}, true, c.err(x, "append with a spread argument and further arguments")
			}
			tv, err := c.exprKind(x.Args[1], e, sv.K)
			if err != nil {
				return Val{}, true, err
			}
			return Val{S: fmt.Sprintf("(app %s %s)", atom(sv.S), atom(tv.S)), K: sv.K, Alias: sv.Alias}, true, nil
		}
		tail := "nil"
		for i := len(x.Args) - 1; i >= 1; i-- {
			ev, err := c.exprKind(x.Args[i], e, *sv.K.Elem)
			if err != nil {
				return Val{}, true, err
			}
			tail = fmt.Sprintf("(cons %s %s)", atom(ev.S), tail)
		}
		return Val{S: fmt.Sprintf("(app %s %s)", atom(sv.S), tail), K: sv.K, Alias: sv.Alias}, true, nil

	case builtin("make") && (len(x.Args) == 2 || len(x.Args) == 3):
		k, err := c.kindOf(c.file, x.Args[0])
		if err != nil {
			return Val{}, true, err
		}
		if k.Base != "slice" {
			return Val{}, true, c.err(x, "make of a value of kind %s", k.Base)
		}
		n, err := c.expr(x.Args[1], e)
		if err != nil {
			return Val{}, true, err
		}
		if len(x.Args) == 3 {
			// the capacity has no effect on values (a negative or too small one panics: not modelled for constants only)
			if _, err := c.expr(x.Args[2], e); err != nil {
				return Val{}, true, err
			}
		}
		if n.K.Base == "untyped" {
			if constant.Sign(n.C) == 0 {
				return Val{S: "nil", K: k}, true, nil
			}
			if constant.Sign(n.C) < 0 {
				return Val{}, true, c.err(x, "make with a negative length")
			}
		}
		nv, err := c.coerce(n, intK, x)
		if err != nil {
			return Val{}, true, err
		}
		z, err := c.zero(*k.Elem, x, e)
		if err != nil {
			return Val{}, true, err
		}
		// NOTE a negative length panics in Go; here Z.to_nat makes it 0.  Lengths are len(..) of other slices
		// in the subset's uses; a general expression is refused.
		if !strings.HasPrefix(nv.S, "(Z.of_nat (length ") && n.K.Base != "untyped" {
			return Val{}, true, c.err(x, "make with a length that is neither a constant nor len(...) (a negative length panics)")
		}
		return Val{S: fmt.Sprintf("(repeat %s (Z.to_nat %s))", atom(z.S), atom(nv.S)), K: k}, true, nil

	case fun == "slices.Contains" && importPath(c.file, "slices") == "slices" && len(x.Args) == 2:
		sv, err := c.expr(x.Args[0], e)
		if err != nil {
			return Val{}, true, err
		}
		if sv.K.Base != "slice" || eqFun(*sv.K.Elem) == "" {
			return Val{}, true, c.err(x, "slices.Contains on this kind of slice")
		}
		c.noMut++
		xv, err := c.exprKind(x.Args[1], e, *sv.K.Elem)
		c.noMut--
		if err != nil {
			return Val{}, true, err
		}
		return Val{S: fmt.Sprintf("(existsb (%s %s) %s)", eqFun(*sv.K.Elem), atom(xv.S), atom(sv.S)), K: Kind{Base: "bool"}}, true, nil

	case fun == "slices.Clone" && importPath(c.file, "slices") == "slices" && len(x.Args) == 1:
		sv, err := c.expr(x.Args[0], e)
		if err != nil {
			return Val{}, true, err
		}
		if sv.K.Base != "slice" {
			return Val{}, true, c.err(x, "slices.Clone of a value of kind %s", sv.K.Base)
		}
		return Val{S: sv.S, K: sv.K}, true, nil
	}

	// mapset.NewSet[T]()
	if ie, ok := x.Fun.(*ast.IndexExpr); ok {
		if sel, ok := ie.X.(*ast.SelectorExpr); ok && sel.Sel.Name == "NewSet" && len(x.Args) == 0 {
			if q, ok := sel.X.(*ast.Ident); ok && strings.HasSuffix(importPath(c.file, q.Name), "golang-set/v2") {
				el, err := c.kindOf(c.file, ie.Index)
				if err != nil {
					return Val{}, true, err
				}
				if el.coqType() != "N" {
					return Val{}, true, c.err(x, "set of elements of kind %s", el.Base)
				}
				return Val{S: "nil", K: Kind{Base: "set", Elem: &el}}, true, nil
			}
		}
		return Val{}, true, c.err(x, "call of an instantiated generic function")
	}
	// set.Contains(x)
	if sel, ok := x.Fun.(*ast.SelectorExpr); ok {
		if id, ok := sel.X.(*ast.Ident); ok {
			if v, _, ok := e.lookup(id.Name); ok && v.kind.Base == "set" {
				if sel.Sel.Name != "Contains" || len(x.Args) != 1 {
					return Val{}, true, c.err(x, "set method %s (only NewSet, Add, Contains with one argument are read)", sel.Sel.Name)
				}
				c.noMut++
				xv, err := c.exprKind(x.Args[0], e, *v.kind.Elem)
				c.noMut--
				if err != nil {
					return Val{}, true, err
				}
				return Val{S: fmt.Sprintf("(memN %s %s)", atom(xv.S), v.coq), K: Kind{Base: "bool"}}, true, nil
			}
		}
	}
	return Val{}, false, nil
}

package main

import (
	"fmt"
	"go/ast"
	"go/constant"
	"go/token"
	"strings"
)

// exprKind translates x and coerces the result to kind k.
func (c *fnCtx) exprKind(x ast.Expr, e *env, k Kind) (Val, error) {
	v, err := c.exprWant(x, e, &k)
	if err != nil {
		return Val{}, err
	}
	return c.coerce(v, k, x)
}

// exprWant translates x; an untyped constant result is given kind *want when want is known.
func (c *fnCtx) exprWant(x ast.Expr, e *env, want *Kind) (Val, error) {
	if want != nil && want.Base == "estr" {
		if lit, ok := x.(*ast.BasicLit); ok && lit.Kind == token.STRING {
			return c.strConst(lit, *want)
		}
	}
	if want != nil && want.Base == "setval" {
		// the value stored into a map that is used as a set
		if cl, ok := x.(*ast.CompositeLit); ok && len(cl.Elts) == 0 {
			if st, ok := cl.Type.(*ast.StructType); ok && (st.Fields == nil || len(st.Fields.List) == 0) {
				return Val{S: "tt", K: *want}, nil
			}
		}
		if id, ok := x.(*ast.Ident); ok && id.Name == "true" {
			if _, _, shadow := e.lookup("true"); !shadow {
				return Val{S: "true", K: *want}, nil
			}
		}
		return Val{}, c.err(x, "store into a map used as a set of a value other than struct{}{} / true")
	}
	if want != nil && want.Base == "slice" {
		// nil is the empty slice (the difference between nil and empty is not modelled)
		if id, ok := x.(*ast.Ident); ok && id.Name == "nil" {
			if _, _, shadow := e.lookup("nil"); !shadow {
				return Val{S: "nil", K: *want}, nil
			}
		}
	}
	v, err := c.expr(x, e)
	if err != nil {
		return Val{}, err
	}
	if want != nil && v.K.Base == "untyped" {
		return c.coerce(v, *want, x)
	}
	return v, nil
}

func (c *fnCtx) strConst(lit *ast.BasicLit, k Kind) (Val, error) {
	v := constant.MakeFromLiteral(lit.Value, token.STRING, 0)
	p := k.Named.Pkg
	for _, ci := range p.ByType[k.Named.Name] {
		if constant.Compare(ci.Val, token.EQL, v) {
			return Val{S: fmt.Sprintf("%d%%N", ci.Ordinal), K: k}, nil
		}
	}
	return Val{}, c.err(lit, "string literal %s is not one of the constants of %s", lit.Value, k.Named.Name)
}

func (c *fnCtx) coerce(v Val, k Kind, at ast.Node) (Val, error) {
	if v.K.Base == "untyped" {
		switch k.Base {
		case "u64":
			s, ok := nLit(v.C)
			if !ok {
				return Val{}, c.err(at, "constant %s does not fit an unsigned 64-bit value", v.C.ExactString())
			}
			return Val{S: s, K: k}, nil
		case "int":
			s, ok := zLit(v.C)
			if !ok {
				return Val{}, c.err(at, "constant %s is not an integer", v.C.ExactString())
			}
			return Val{S: s, K: k}, nil
		}
		return Val{}, c.err(at, "numeric constant where a value of kind %s is needed", k.Base)
	}
	if v.K.Base != k.Base {
		return Val{}, c.err(at, "value of kind %s where kind %s is needed", v.K, k)
	}
	if !sameKind(v.K, k) {
		return Val{}, c.err(at, "value of type %s where %s is needed", v.K, k)
	}
	return v, nil
}

func (c *fnCtx) args(xs []ast.Expr, kinds []Kind, e *env, at ast.Node) (string, error) {
	if len(xs) != len(kinds) {
		return "", c.err(at, "call with %d arguments to a function of %d parameters", len(xs), len(kinds))
	}
	out := ""
	c.noMut++
	defer func() { c.noMut-- }()
	for i, x := range xs {
		v, err := c.exprKind(x, e, kinds[i])
		if err != nil {
			return "", err
		}
		out += " " + atom(v.S)
	}
	return out, nil
}

// callee finds and translates the method `name` of the named type behind kind k.
func (c *fnCtx) callee(k Kind, name string, at ast.Node) (*fnSig, error) {
	if k.Named == nil {
		return nil, c.err(at, "method %s on an unnamed type", name)
	}
	p := k.Named.Pkg
	d, ok := p.Funcs[k.Named.Name+"."+name]
	if !ok {
		return nil, c.err(at, "method %s.%s not found", k.Named.Name, name)
	}
	return c.tr.translateFunc(p, d, "", c.spec, true)
}

var mathConsts = map[string]string{"MaxUint64": "18446744073709551615", "MaxInt64": "9223372036854775807",
	"MinInt64": "-9223372036854775808", "MaxUint32": "4294967295", "MaxInt32": "2147483647", "MaxUint16": "65535",
	"MaxUint8": "255"}

func (c *fnCtx) expr(x ast.Expr, e *env) (Val, error) {
	switch x := x.(type) {
	case *ast.ParenExpr:
		return c.expr(x.X, e)

	case *ast.BasicLit:
		switch x.Kind {
		case token.INT, token.FLOAT, token.CHAR:
			v := constant.MakeFromLiteral(x.Value, x.Kind, 0)
			if v.Kind() == constant.Unknown {
				return Val{}, c.err(x, "literal %s", x.Value)
			}
			return Val{K: Kind{Base: "untyped"}, C: v, S: "?"}, nil
		}
		return Val{}, c.err(x, "literal %s of this kind here", x.Value)

	case *ast.Ident:
		switch x.Name {
		case "true", "false":
			if _, _, shadow := e.lookup(x.Name); !shadow {
				return Val{S: x.Name, K: Kind{Base: "bool"}}, nil
			}
		case "nil":
			return Val{}, c.err(x, "nil used as a value")
		}
		if v, _, ok := e.lookup(x.Name); ok {
			switch v.kind.Base {
			case "struct":
				return Val{}, c.err(x, "struct value %s used as a whole", x.Name)
			case "bigopt":
				return Val{}, c.err(x, "nullable *big.Int used outside a big.Int method call")
			case "big", "slice", "set":
				return Val{S: v.coq, K: v.kind, Alias: x.Name}, nil
			case "drop", "ignore", "oracle":
				return Val{}, c.err(x, "%s is not a value in this translation (table kind %s)", x.Name, v.kind.Base)
			}
			return Val{S: v.coq, K: v.kind}, nil
		}
		return c.constRef(c.pkg, x.Name, x)

	case *ast.SelectorExpr:
		if v, ok, err := c.fieldOf(x, e); ok || err != nil {
			return v, err
		}
		if id, ok := x.X.(*ast.Ident); ok {
			if v, _, ok := e.lookup(id.Name); ok {
				if v.kind.Base != "struct" {
					return Val{}, c.err(x, "field / method value %s.%s", id.Name, x.Sel.Name)
				}
				f, _, ok := e.lookup(id.Name + "." + x.Sel.Name)
				if !ok {
					return Val{}, c.err(x, "field %s.%s is not in the table's field list for %s", id.Name, x.Sel.Name, v.kind.Named.Name)
				}
				if f.kind.Base == "bigopt" {
					return Val{}, c.err(x, "nullable *big.Int used outside a big.Int method call")
				}
				if f.kind.Base == "big" {
					return Val{S: f.coq, K: f.kind, Alias: id.Name + "." + x.Sel.Name}, nil
				}
				return Val{S: f.coq, K: f.kind}, nil
			}
			if id.Name == "math" && importPath(c.file, "math") == "math" {
				if s, ok := mathConsts[x.Sel.Name]; ok {
					return Val{K: Kind{Base: "untyped"}, C: constant.MakeFromLiteral(s, token.INT, 0), S: "?"}, nil
				}
				return Val{}, c.err(x, "math.%s", x.Sel.Name)
			}
			if importPath(c.file, id.Name) != "" {
				other, err := c.pkg.pkgOfQualifier(c.file, id.Name, x.Pos())
				if err != nil {
					return Val{}, err
				}
				return c.constRef(other, x.Sel.Name, x)
			}
		}
		return Val{}, c.err(x, "selector expression")

	case *ast.StarExpr:
		v, err := c.expr(x.X, e)
		if err != nil {
			return Val{}, err
		}
		if v.K.Base != "range" {
			return Val{}, c.err(x, "pointer dereference of kind %s", v.K.Base)
		}
		return v, nil

	case *ast.IndexExpr:
		if hv, ok := c.hoisted[x]; ok {
			return hv, nil
		}
		v, err := c.expr(x.X, e)
		if err != nil {
			return Val{}, err
		}
		if v.K.Base == "slice" {
			return Val{}, c.err(x, "slice element read in a position that is not evaluated exactly once by its statement")
		}
		if v.K.Base == "set" {
			// m[k] on a map[K]bool into which only `true` is stored: membership
			if !v.K.BoolMap {
				return Val{}, c.err(x, "value read from a map[K]struct{}")
			}
			c.noMut++
			kv, err := c.exprKind(x.Index, e, *v.K.Elem)
			c.noMut--
			if err != nil {
				return Val{}, err
			}
			return Val{S: fmt.Sprintf("(memN %s %s)", atom(kv.S), atom(v.S)), K: Kind{Base: "bool"}}, nil
		}
		if v.K.Base != "range" {
			return Val{}, c.err(x, "index expression on kind %s", v.K.Base)
		}
		i, err := c.constIndex(x.Index, e)
		if err != nil {
			return Val{}, err
		}
		if i == 0 {
			return Val{S: "(fst " + atom(v.S) + ")", K: Kind{Base: "u64"}}, nil
		}
		return Val{S: "(snd " + atom(v.S) + ")", K: Kind{Base: "u64"}}, nil

	case *ast.CompositeLit:
		if x.Type == nil {
			return Val{}, c.err(x, "composite literal without a type")
		}
		k, err := c.kindOf(c.file, x.Type)
		if err != nil {
			return Val{}, err
		}
		if k.Base == "record" {
			return c.recordLit(x, k, e)
		}
		if k.Base != "range" {
			return Val{}, c.err(x, "composite literal of kind %s", k.Base)
		}
		elts := []string{"0%N", "0%N"}
		if len(x.Elts) > 2 {
			return Val{}, c.err(x, "too many elements")
		}
		for i, el := range x.Elts {
			if _, keyed := el.(*ast.KeyValueExpr); keyed {
				return Val{}, c.err(el, "keyed array literal")
			}
			c.noMut++
			v, err := c.exprKind(el, e, Kind{Base: "u64"})
			c.noMut--
			if err != nil {
				return Val{}, err
			}
			elts[i] = v.S
		}
		return Val{S: "(" + elts[0] + ", " + elts[1] + ")", K: k}, nil

	case *ast.UnaryExpr:
		if x.Op == token.AND {
			if cl, ok := x.X.(*ast.CompositeLit); ok {
				v, err := c.expr(cl, e)
				if err == nil && v.K.Base != "record" {
					return Val{}, c.err(x, "address of a composite literal of kind %s", v.K.Base)
				}
				return v, err
			}
			if id, ok := x.X.(*ast.Ident); ok {
				if v, _, ok := e.lookup(id.Name); ok && v.kind.Base == "record" {
					return Val{S: v.coq, K: v.kind}, nil // a pointer to a record that is only returned
				}
			}
			return Val{}, c.err(x, "address-of")
		}
		switch x.Op {
		case token.NOT:
			v, err := c.exprKind(x.X, e, Kind{Base: "bool"})
			if err != nil {
				return Val{}, err
			}
			return Val{S: "(negb " + atom(v.S) + ")", K: v.K}, nil
		case token.SUB, token.ADD:
			v, err := c.expr(x.X, e)
			if err != nil {
				return Val{}, err
			}
			switch v.K.Base {
			case "untyped":
				return Val{K: v.K, C: constant.UnaryOp(x.Op, v.C, 0), S: "?"}, nil
			case "int":
				if x.Op == token.ADD {
					return v, nil
				}
				return Val{S: "(Z.opp " + atom(v.S) + ")", K: v.K}, nil
			case "u64":
				if x.Op == token.ADD {
					return v, nil
				}
				return Val{S: "(sub64 0%N " + atom(v.S) + ")", K: v.K}, nil
			}
			return Val{}, c.err(x, "unary %s on kind %s", x.Op, v.K.Base)
		}
		return Val{}, c.err(x, "unary operator %s", x.Op)

	case *ast.BinaryExpr:
		return c.binary(x, e)

	case *ast.CallExpr:
		return c.call(x, e)

	case *ast.FuncLit:
		return Val{}, c.err(x, "function literal")
	case *ast.TypeAssertExpr:
		return Val{}, c.err(x, "type assertion")
	case *ast.SliceExpr:
		if hv, ok := c.hoisted[x]; ok {
			return hv, nil
		}
		return Val{}, c.err(x, "slice expression (only s[:] and s[k:] of a slice variable, evaluated once by its statement, are read)")
	}
	return Val{}, c.err(x, "expression %T", x)
}

// constRef: a package-level constant.  Typed constants become definitions gen_const_<pkg>_<Name> (emitted once,
// before their first use); untyped ones are inlined as literals.
func (c *fnCtx) constRef(p *Pkg, name string, at ast.Node) (Val, error) {
	if err := p.loadConsts(); err != nil {
		return Val{}, err
	}
	ci, ok := p.Consts[name]
	if !ok {
		if v, ok, err := c.pkgVar(p, name, at); ok || err != nil {
			return v, err
		}
		return Val{}, c.err(at, "identifier %s (not a local variable, parameter, constant or read-only *big.Int variable of package %s)", name, p.Name)
	}
	if ci.Type == "" {
		if ci.Val.Kind() != constant.Int && ci.Val.Kind() != constant.Float {
			return Val{}, c.err(at, "untyped constant %s of this kind", name)
		}
		return Val{K: Kind{Base: "untyped"}, C: ci.Val, S: "?"}, nil
	}
	k, err := p.kindOfType(p.Files[0], &ast.Ident{Name: ci.Type, NamePos: at.Pos()})
	if err != nil {
		return Val{}, err
	}
	var lit string
	switch k.Base {
	case "estr":
		lit = fmt.Sprintf("%d%%N", ci.Ordinal)
	case "int":
		s, ok := zLit(ci.Val)
		if !ok {
			return Val{}, c.err(at, "constant %s is not an integer", name)
		}
		lit = s
	case "u64":
		s, ok := nLit(ci.Val)
		if !ok {
			return Val{}, c.err(at, "constant %s does not fit an unsigned 64-bit value", name)
		}
		lit = s
	default:
		return Val{}, c.err(at, "constant %s of kind %s", name, k.Base)
	}
	cn := "gen_const_" + p.Name + "_" + sanitize(name)
	if !c.tr.constDone[cn] {
		c.tr.constDone[cn] = true
		comment := ""
		if k.Base == "estr" {
			comment = fixComment(fmt.Sprintf("= %s, constant number %d of type %s", ci.Val.ExactString(), ci.Ordinal, ci.Type))
		}
		c.tr.emitDef(cn, fmt.Sprintf("(* %s:%d *)\nDefinition %s : %s := %s.%s", p.Fset.Position(ci.Pos).Filename,
			p.Fset.Position(ci.Pos).Line, cn, k.coqType(), lit, comment))
	}
	return Val{S: cn, K: k}, nil
}

// fixComment renders text as a Coq comment that cannot be broken by the text itself.
func fixComment(text string) string {
	text = strings.ReplaceAll(text, "(*", "( *")
	text = strings.ReplaceAll(text, "*)", "* )")
	text = strings.ReplaceAll(text, "\"", "'")
	return "   (* " + text + " *)"
}

func (c *fnCtx) binary(x *ast.BinaryExpr, e *env) (Val, error) {
	if x.Op == token.LAND || x.Op == token.LOR {
		a, err := c.exprKind(x.X, e, Kind{Base: "bool"})
		if err != nil {
			return Val{}, err
		}
		c.noMut++
		b, err := c.exprKind(x.Y, e, Kind{Base: "bool"})
		c.noMut--
		if err != nil {
			return Val{}, err
		}
		f := "andb"
		if x.Op == token.LOR {
			f = "orb"
		}
		return Val{S: fmt.Sprintf("(%s %s %s)", f, atom(a.S), atom(b.S)), K: a.K}, nil
	}
	a, err := c.expr(x.X, e)
	if err != nil {
		return Val{}, err
	}
	c.noMut++
	b, err := c.expr(x.Y, e)
	c.noMut--
	if err != nil {
		return Val{}, err
	}
	isShift := x.Op == token.SHL || x.Op == token.SHR
	if a.K.Base == "untyped" && b.K.Base == "untyped" {
		return c.foldConst(x, a, b)
	}
	if isShift {
		return Val{}, c.err(x, "shift on a machine integer")
	}
	if a.K.Base == "untyped" {
		if a, err = c.coerce(a, b.K, x.X); err != nil {
			return Val{}, err
		}
	}
	if b.K.Base == "untyped" {
		if b, err = c.coerce(b, a.K, x.Y); err != nil {
			return Val{}, err
		}
	}
	if a.K.Base != b.K.Base {
		return Val{}, c.err(x, "operands of kinds %s and %s", a.K, b.K)
	}
	k := a.K
	as, bs := atom(a.S), atom(b.S)
	pre := map[string]string{"u64": "N", "estr": "N", "ord": "N", "int": "Z"}[k.Base]
	boolK := Kind{Base: "bool"}
	switch x.Op {
	case token.EQL, token.NEQ:
		eq, err := c.equal(a, b, x)
		if err != nil {
			return Val{}, err
		}
		if x.Op == token.NEQ {
			eq = "(negb " + eq + ")"
		}
		return Val{S: eq, K: boolK}, nil
	case token.LSS, token.LEQ, token.GTR, token.GEQ:
		if k.Base != "u64" && k.Base != "int" && k.Base != "ord" {
			return Val{}, c.err(x, "ordering on kind %s", k.Base)
		}
		switch x.Op {
		case token.LSS:
			return Val{S: fmt.Sprintf("(%s.ltb %s %s)", pre, as, bs), K: boolK}, nil
		case token.LEQ:
			return Val{S: fmt.Sprintf("(%s.leb %s %s)", pre, as, bs), K: boolK}, nil
		case token.GTR:
			return Val{S: fmt.Sprintf("(%s.ltb %s %s)", pre, bs, as), K: boolK}, nil
		default:
			return Val{S: fmt.Sprintf("(%s.leb %s %s)", pre, bs, as), K: boolK}, nil
		}
	}
	switch k.Base {
	case "u64":
		switch x.Op {
		case token.ADD:
			return Val{S: fmt.Sprintf("(add64 %s %s)", as, bs), K: k}, nil
		case token.SUB:
			return Val{S: fmt.Sprintf("(sub64 %s %s)", as, bs), K: k}, nil
		case token.MUL:
			return Val{S: fmt.Sprintf("(mul64 %s %s)", as, bs), K: k}, nil
		case token.AND:
			return Val{S: fmt.Sprintf("(N.land %s %s)", as, bs), K: k}, nil
		case token.OR:
			return Val{S: fmt.Sprintf("(N.lor %s %s)", as, bs), K: k}, nil
		case token.XOR:
			return Val{S: fmt.Sprintf("(N.lxor %s %s)", as, bs), K: k}, nil
		case token.QUO, token.REM:
			if !nonZeroLiteral(bs) {
				return Val{}, c.err(x, "division by a value that is not a non-zero constant (a zero divisor panics)")
			}
			if x.Op == token.QUO {
				return Val{S: fmt.Sprintf("(N.div %s %s)", as, bs), K: k}, nil
			}
			return Val{S: fmt.Sprintf("(N.modulo %s %s)", as, bs), K: k}, nil
		}
	case "int":
		switch x.Op {
		case token.ADD:
			return Val{S: fmt.Sprintf("(Z.add %s %s)", as, bs), K: k}, nil
		case token.SUB:
			return Val{S: fmt.Sprintf("(Z.sub %s %s)", as, bs), K: k}, nil
		case token.MUL:
			return Val{S: fmt.Sprintf("(Z.mul %s %s)", as, bs), K: k}, nil
		case token.QUO, token.REM:
			if !nonZeroLiteral(bs) {
				return Val{}, c.err(x, "division by a value that is not a non-zero constant (a zero divisor panics)")
			}
			if x.Op == token.QUO {
				return Val{S: fmt.Sprintf("(Z.quot %s %s)", as, bs), K: k}, nil // Go truncates towards zero
			}
			return Val{S: fmt.Sprintf("(Z.rem %s %s)", as, bs), K: k}, nil
		}
	case "bool":
		// handled above (== / !=, && / ||)
	}
	return Val{}, c.err(x, "operator %s on kind %s", x.Op, k.Base)
}

func nonZeroLiteral(s string) bool {
	t := strings.TrimSuffix(strings.TrimSuffix(s, "%N"), "%Z")
	t = strings.Trim(t, "()")
	if t == "" || t == "0" || t == "-0" {
		return false
	}
	for i, r := range t {
		if !(r >= '0' && r <= '9') && !(i == 0 && r == '-') {
			return false
		}
	}
	return true
}

func (c *fnCtx) foldConst(x *ast.BinaryExpr, a, b Val) (Val, error) {
	u := Kind{Base: "untyped"}
	switch x.Op {
	case token.ADD, token.SUB, token.MUL:
		return Val{K: u, C: constant.BinaryOp(a.C, x.Op, b.C), S: "?"}, nil
	case token.QUO:
		if constant.Sign(b.C) == 0 {
			return Val{}, c.err(x, "constant division by zero")
		}
		if a.C.Kind() == constant.Int && b.C.Kind() == constant.Int {
			return Val{K: u, C: constant.BinaryOp(a.C, token.QUO_ASSIGN, b.C), S: "?"}, nil
		}
		return Val{K: u, C: constant.BinaryOp(a.C, token.QUO, b.C), S: "?"}, nil
	case token.SHL, token.SHR:
		n, ok := constant.Uint64Val(constant.ToInt(b.C))
		if !ok || n > 4096 || constant.ToInt(a.C).Kind() != constant.Int {
			return Val{}, c.err(x, "constant shift")
		}
		return Val{K: u, C: constant.Shift(constant.ToInt(a.C), x.Op, uint(n)), S: "?"}, nil
	case token.EQL, token.NEQ, token.LSS, token.LEQ, token.GTR, token.GEQ:
		if constant.Compare(a.C, x.Op, b.C) {
			return Val{S: "true", K: Kind{Base: "bool"}}, nil
		}
		return Val{S: "false", K: Kind{Base: "bool"}}, nil
	}
	return Val{}, c.err(x, "operator %s on constants", x.Op)
}

// ---------------------------------------------------------------- calls

func (c *fnCtx) isBigPkg(x ast.Expr) bool {
	id, ok := x.(*ast.Ident)
	return ok && importPath(c.file, id.Name) == "math/big"
}

func (c *fnCtx) call(x *ast.CallExpr, e *env) (Val, error) {
	if v, ok, err := c.call2(x, e); ok || err != nil {
		return v, err
	}
	if x.Ellipsis != token.NoPos {
		return Val{}, c.err(x, "variadic call")
	}
	switch f := x.Fun.(type) {
	case *ast.Ident:
		if _, _, isVar := e.lookup(f.Name); isVar {
			return Val{}, c.err(x, "call of a function value")
		}
		switch f.Name {
		case "new":
			if len(x.Args) == 1 {
				if sel, ok := x.Args[0].(*ast.SelectorExpr); ok && c.isBigPkg(sel.X) && sel.Sel.Name == "Int" {
					return Val{S: "0%Z", K: Kind{Base: "big"}}, nil
				}
			}
			return Val{}, c.err(x, "new of anything but big.Int")
		case "panic":
			return Val{}, c.err(x, "panic inside an expression")
		case "len", "cap", "append", "make", "copy", "delete", "min", "max", "print", "println", "recover", "close":
			return Val{}, c.err(x, "builtin %s", f.Name)
		}
		// conversion to a builtin or package-level type
		if isTypeName(c.pkg, f.Name) {
			k, err := c.kindOf(c.file, f)
			if err != nil {
				return Val{}, err
			}
			return c.convert(x, k, e)
		}
		d, ok := c.pkg.Funcs[f.Name]
		if !ok {
			return Val{}, c.err(x, "call of %s (not a function of package %s)", f.Name, c.pkg.Name)
		}
		return c.callFunc(c.pkg, d, nil, x, e)

	case *ast.ParenExpr, *ast.StarExpr, *ast.ArrayType:
		k, err := c.kindOf(c.file, f)
		if err != nil {
			return Val{}, err
		}
		return c.convert(x, k, e)

	case *ast.SelectorExpr:
		// package-qualified: big.NewInt, another package's function or type
		if id, ok := f.X.(*ast.Ident); ok {
			if _, _, isVar := e.lookup(id.Name); !isVar && importPath(c.file, id.Name) != "" {
				if c.isBigPkg(id) {
					if f.Sel.Name == "NewInt" && len(x.Args) == 1 {
						c.noMut++
						v, err := c.exprKind(x.Args[0], e, Kind{Base: "int"})
						c.noMut--
						if err != nil {
							return Val{}, err
						}
						return Val{S: v.S, K: Kind{Base: "big"}}, nil
					}
					return Val{}, c.err(x, "big.%s", f.Sel.Name)
				}
				other, err := c.pkg.pkgOfQualifier(c.file, id.Name, x.Pos())
				if err != nil {
					return Val{}, err
				}
				if _, isType := other.Types[f.Sel.Name]; isType {
					k, err := c.kindOf(c.file, f)
					if err != nil {
						return Val{}, err
					}
					return c.convert(x, k, e)
				}
				d, ok := other.Funcs[f.Sel.Name]
				if !ok {
					return Val{}, c.err(x, "call of %s.%s (not found)", id.Name, f.Sel.Name)
				}
				return c.callFunc(other, d, nil, x, e)
			}
		}
		// method call: the receiver decides
		if _, isOpt := c.optRef(f.X, e); isOpt {
			return Val{}, c.err(x, "internal: nullable receiver was not dereferenced") // hoistNil rebinds it first
		}
		recv, err := c.expr(f.X, e)
		if err != nil {
			return Val{}, err
		}
		switch recv.K.Base {
		case "big":
			return c.bigMethod(x, f, recv, e)
		case "range", "u64", "int", "estr", "bool":
			if recv.K.Named == nil {
				return Val{}, c.err(x, "method %s on a value of an unnamed type", f.Sel.Name)
			}
			d, ok := recv.K.Named.Pkg.Funcs[recv.K.Named.Name+"."+f.Sel.Name]
			if !ok {
				return Val{}, c.err(x, "method %s.%s not found", recv.K.Named.Name, f.Sel.Name)
			}
			return c.callFunc(recv.K.Named.Pkg, d, &recv, x, e)
		}
		return Val{}, c.err(x, "method call on kind %s", recv.K.Base)
	}
	return Val{}, c.err(x, "call of this form")
}

func isTypeName(p *Pkg, n string) bool {
	switch n {
	case "uint64", "uint", "int", "int64", "bool", "string", "int32", "uint32", "int16", "uint16", "int8", "uint8",
		"byte", "rune", "float64", "float32", "uintptr":
		return true
	}
	_, ok := p.Types[n]
	return ok
}

func (c *fnCtx) callFunc(p *Pkg, d *ast.FuncDecl, recv *Val, x *ast.CallExpr, e *env) (Val, error) {
	sig, err := c.tr.translateFunc(p, d, "", c.spec, true)
	if err != nil {
		return Val{}, err
	}
	if sig.mutator {
		return Val{}, c.err(x, "mutating method %s used inside an expression", d.Name.Name)
	}
	if sig.wrap {
		return Val{}, c.err(x, "call of %s, which can panic or return an error, inside an expression", d.Name.Name)
	}
	if sig.result.Base == "tuple" {
		return Val{}, c.err(x, "call of %s, which has several results, inside an expression", d.Name.Name)
	}
	head, as, err := c.calleeArgs(sig, d, recv, x, e)
	if err != nil {
		return Val{}, err
	}
	return Val{S: "(" + sig.name + head + as + ")", K: sig.result}, nil
}

// calleeArgs renders the arguments of a call of a translated function of the module, parameter by parameter:
// values are coerced, contexts and loggers are dropped, an interface that is an oracle carrier is passed as its
// oracle functions.
func (c *fnCtx) calleeArgs(sig *fnSig, d *ast.FuncDecl, recv *Val, x *ast.CallExpr, e *env) (string, string, error) {
	groups := sig.groups
	head := ""
	if recv != nil {
		if len(groups) == 0 || groups[0].how != "value" || groups[0].kind.Base != recv.K.Base {
			return "", "", c.err(x, "receiver of kind %s for %s", recv.K.Base, d.Name.Name)
		}
		head = " " + atom(recv.S)
		groups = groups[1:]
	} else if d.Recv != nil {
		return "", "", c.err(x, "method expression")
	}
	if d.Type.TypeParams != nil {
		return "", "", c.err(x, "call of the generic function %s", d.Name.Name)
	}
	if len(groups) != len(x.Args) {
		return "", "", c.err(x, "call with %d arguments to a function of %d parameters", len(x.Args), len(groups))
	}
	out := ""
	c.noMut++
	defer func() { c.noMut-- }()
	for i, a := range x.Args {
		g := groups[i]
		switch g.how {
		case "none":
			continue
		case "value":
			v, err := c.exprKind(a, e, g.kind)
			if err != nil {
				return "", "", err
			}
			out += " " + atom(v.S)
		case "oracle":
			p := selPath(a)
			cv, _, ok := e.lookup(p)
			if p == "" || !ok || cv.kind.Base != "oracle" || cv.kind.Named.Name != g.typ {
				return "", "", c.err(a, "argument for the interface parameter of %s is not an oracle carrier of type %s", d.Name.Name, g.typ)
			}
			for _, m := range g.methods {
				fv, _, ok := e.lookup(p + "." + m)
				if !ok {
					return "", "", c.err(a, "oracle %s.%s is not available here", p, m)
				}
				out += " " + fv.coq
			}
		default:
			return "", "", c.err(a, "struct argument for %s", d.Name.Name)
		}
	}
	return head, out, nil
}

// convert: T(x) for a type T of kind k.
func (c *fnCtx) convert(x *ast.CallExpr, k Kind, e *env) (Val, error) {
	if len(x.Args) != 1 {
		return Val{}, c.err(x, "conversion with %d arguments", len(x.Args))
	}
	if k.Base == "estr" {
		v, err := c.exprWant(x.Args[0], e, &k)
		if err != nil {
			return Val{}, err
		}
		if v.K.Base != "estr" || !sameKind(v.K, k) {
			return Val{}, c.err(x, "conversion of kind %s to %s", v.K, k)
		}
		return v, nil
	}
	v, err := c.expr(x.Args[0], e)
	if err != nil {
		return Val{}, err
	}
	switch {
	case v.K.Base == "untyped":
		if k.Base != "u64" && k.Base != "int" {
			return Val{}, c.err(x, "conversion of a constant to kind %s", k.Base)
		}
		return c.coerce(v, k, x)
	case v.K.Base == k.Base && (k.Base == "u64" || k.Base == "int" || k.Base == "bool" || k.Base == "range"):
		// same representation.  NOTE int64(x) / int(x) between the two signed types is the identity on 64-bit
		// platforms; narrower integer types are not in the subset at all.
		return Val{S: v.S, K: k}, nil
	case v.K.Base == "int" && k.Base == "u64":
		return Val{S: "(to_u64 " + atom(v.S) + ")", K: k}, nil
	case v.K.Base == "u64" && k.Base == "int":
		return Val{}, c.err(x, "conversion of an unsigned value to a signed type (values >= 2^63 change sign)")
	}
	return Val{}, c.err(x, "conversion of kind %s to kind %s", v.K.Base, k.Base)
}

// bigMethod: recv.M(args) on a *big.Int.  Value-producing methods store into the receiver and return it: when
// the receiver is a variable it is re-bound (a let-binding pushed to c.pre) and the result aliases it.
func (c *fnCtx) bigMethod(x *ast.CallExpr, f *ast.SelectorExpr, recv Val, e *env) (Val, error) {
	name := f.Sel.Name
	bigK := Kind{Base: "big"}
	intK := Kind{Base: "int"}
	arg := func(i int, k Kind) (string, error) {
		c.noMut++
		defer func() { c.noMut-- }()
		v, err := c.exprKind(x.Args[i], e, k)
		if err != nil {
			return "", err
		}
		return atom(v.S), nil
	}
	need := func(n int) error {
		if len(x.Args) != n {
			return c.err(x, "big.Int.%s with %d arguments", name, len(x.Args))
		}
		return nil
	}
	// observers
	switch name {
	case "Cmp":
		if err := need(1); err != nil {
			return Val{}, err
		}
		a, err := arg(0, bigK)
		if err != nil {
			return Val{}, err
		}
		return Val{S: fmt.Sprintf("(big_cmp %s %s)", atom(recv.S), a), K: intK}, nil
	case "CmpAbs":
		if err := need(1); err != nil {
			return Val{}, err
		}
		a, err := arg(0, bigK)
		if err != nil {
			return Val{}, err
		}
		return Val{S: fmt.Sprintf("(big_cmp (Z.abs %s) (Z.abs %s))", atom(recv.S), a), K: intK}, nil
	case "Sign":
		if err := need(0); err != nil {
			return Val{}, err
		}
		return Val{S: fmt.Sprintf("(Z.sgn %s)", atom(recv.S)), K: intK}, nil
	case "BitLen":
		if err := need(0); err != nil {
			return Val{}, err
		}
		return Val{S: fmt.Sprintf("(big_bitlen %s)", atom(recv.S)), K: intK}, nil
	case "Bit":
		// the position has been checked to be non-negative in front of the statement (hoistIndex)
		if err := need(1); err != nil {
			return Val{}, err
		}
		a, err := arg(0, intK)
		if err != nil {
			return Val{}, err
		}
		return Val{S: fmt.Sprintf("(if Z.testbit %s %s then 1%%N else 0%%N)", atom(recv.S), a), K: Kind{Base: "u64"}}, nil
	}
	// value-producing methods
	var val string
	two := map[string]string{"Add": "Z.add", "Sub": "Z.sub", "Mul": "Z.mul", "Div": "big_div", "Mod": "big_mod",
		"Quo": "big_quo", "Rem": "big_rem", "And": "Z.land", "Or": "Z.lor", "Xor": "Z.lxor"}
	switch {
	case two[name] != "":
		if err := need(2); err != nil {
			return Val{}, err
		}
		a, err := arg(0, bigK)
		if err != nil {
			return Val{}, err
		}
		b, err := arg(1, bigK)
		if err != nil {
			return Val{}, err
		}
		val = fmt.Sprintf("(%s %s %s)", two[name], a, b)
	case name == "SetBit":
		if err := need(3); err != nil {
			return Val{}, err
		}
		a, err := arg(0, bigK)
		if err != nil {
			return Val{}, err
		}
		i, err := arg(1, intK)
		if err != nil {
			return Val{}, err
		}
		bv, err := c.expr(x.Args[2], e)
		if err != nil {
			return Val{}, err
		}
		if bv.K.Base != "untyped" {
			return Val{}, c.err(x, "SetBit with a bit that is not the literal 0 or 1 (any other value panics)")
		}
		switch bv.C.ExactString() {
		case "1":
			val = fmt.Sprintf("(Z.setbit %s %s)", a, i)
		case "0":
			val = fmt.Sprintf("(Z.clearbit %s %s)", a, i)
		default:
			return Val{}, c.err(x, "SetBit with a bit that is not the literal 0 or 1 (any other value panics)")
		}
	case name == "Lsh" || name == "Rsh":
		if err := need(2); err != nil {
			return Val{}, err
		}
		a, err := arg(0, bigK)
		if err != nil {
			return Val{}, err
		}
		n, err := arg(1, Kind{Base: "u64"})
		if err != nil {
			return Val{}, err
		}
		op := "Z.shiftl"
		if name == "Rsh" {
			op = "Z.shiftr"
		}
		val = fmt.Sprintf("(%s %s (Z.of_N %s))", op, a, n)
	case name == "Neg" || name == "Abs" || name == "Set":
		if err := need(1); err != nil {
			return Val{}, err
		}
		a, err := arg(0, bigK)
		if err != nil {
			return Val{}, err
		}
		val = map[string]string{"Neg": "(Z.opp " + a + ")", "Abs": "(Z.abs " + a + ")", "Set": a}[name]
	case name == "SetInt64":
		if err := need(1); err != nil {
			return Val{}, err
		}
		a, err := arg(0, intK)
		if err != nil {
			return Val{}, err
		}
		val = a
	case name == "SetUint64":
		if err := need(1); err != nil {
			return Val{}, err
		}
		a, err := arg(0, Kind{Base: "u64"})
		if err != nil {
			return Val{}, err
		}
		val = "(Z.of_N " + a + ")"
	default:
		return Val{}, c.err(x, "big.Int.%s (outside the subset: only Add Sub Mul Div Mod Quo Rem Lsh Rsh And Or Xor Neg Abs Set SetInt64 SetUint64 SetBit Bit Cmp CmpAbs Sign BitLen)", name)
	}
	if recv.Alias == "" {
		return Val{S: val, K: bigK}, nil // the receiver is a temporary: nobody else sees the store
	}
	// the receiver is a variable: the store is visible through it (and through every alias of it)
	if strings.HasPrefix(recv.Alias, "\x00pkgvar:") {
		return Val{}, c.err(x, "big.Int.%s stores into the package-level variable %s", name, recv.Alias[len("\x00pkgvar:"):])
	}
	v, _, ok := e.lookup(recv.Alias)
	if !ok {
		return Val{}, c.err(x, "internal: unknown receiver %s", recv.Alias)
	}
	if v.param {
		return Val{}, c.err(x, "big.Int.%s stores into %s, which belongs to the caller", name, recv.Alias)
	}
	if v.shared {
		return Val{}, c.err(x, "big.Int.%s stores into %s, which may be aliased by another variable", name, recv.Alias)
	}
	if c.noMut > 0 {
		return Val{}, c.err(x, "big.Int.%s stores into variable %s inside an argument, an operand, or on the right of && / ||", name, recv.Alias)
	}
	cn := c.fresh(recv.Alias)
	c.pre = append(c.pre, fmt.Sprintf("let %s := %s in\n  ", cn, val))
	v.coq = cn
	e.set(recv.Alias, v)
	return Val{S: cn, K: bigK, Alias: recv.Alias}, nil
}

package main

import (
	"fmt"
	"go/ast"
	"go/types"
	"sort"
	"strings"
)

// kindByName reads a kind name of the table ("ord", "slice int", "set u64", "record:Message", "res bool", ...).
func (c *fnCtx) kindByName(name string, at ast.Node) (Kind, error) {
	name = strings.TrimSpace(name)
	switch {
	case strings.HasPrefix(name, "slice "), strings.HasPrefix(name, "set "):
		i := strings.Index(name, " ")
		el, err := c.kindByName(name[i+1:], at)
		if err != nil {
			return Kind{}, err
		}
		return Kind{Base: name[:i], Elem: &el}, nil
	case strings.HasPrefix(name, "record:"):
		return c.recordKind(name[len("record:"):], nil, at)
	}
	switch name {
	case "u64", "int", "big", "bool", "range", "ord", "unit", "drop", "ignore":
		return Kind{Base: name}, nil
	}
	return Kind{}, c.err(at, "kind name %q in the table", name)
}

// recordKind builds the tuple layout of a struct type listed in the table's Records.  named is the declaration of
// the struct when it lives in this module (field kinds are then read from it), nil for types outside the module
// (every field needs an explicit kind in the table).
func (c *fnCtx) recordKind(name string, named *Named, at ast.Node) (Kind, error) {
	if c.spec == nil || c.spec.Records[name] == nil {
		return Kind{}, c.err(at, "struct type %s (no field list in the table's Records)", name)
	}
	if r, ok := c.recCache[name]; ok {
		return Kind{Base: "record", Rec: r, Named: named}, nil
	}
	if named == nil {
		named = c.findStruct(name)
	}
	r := &Record{Name: name, Opaque: c.spec.Opaque[name]}
	for _, fs := range c.spec.Records[name] {
		var k Kind
		var err error
		if fs.Kind != "" {
			k, err = c.kindByName(fs.Kind, at)
		} else if named != nil {
			k, err = c.pathKind(named, fs.Field, at)
		} else {
			err = c.err(at, "field %s.%s needs an explicit kind in the table (the type is declared outside the module)", name, fs.Field)
		}
		if err != nil {
			return Kind{}, err
		}
		r.Fields = append(r.Fields, RecField{Path: fs.Field, K: k})
	}
	if c.recCache == nil {
		c.recCache = map[string]*Record{}
	}
	c.recCache[name] = r
	return Kind{Base: "record", Rec: r, Named: named}, nil
}

// findStruct looks a struct type up by its bare name in the current package and in the packages of the module that
// the current file imports.
func (c *fnCtx) findStruct(name string) *Named {
	isStruct := func(p *Pkg) bool {
		ts, ok := p.Types[name]
		if !ok {
			return false
		}
		_, ok = ts.Type.(*ast.StructType)
		return ok
	}
	if isStruct(c.pkg) {
		return &Named{Pkg: c.pkg, Name: name}
	}
	if c.file == nil {
		return nil
	}
	var paths []string
	for _, im := range c.file.Imports {
		paths = append(paths, strings.Trim(im.Path.Value, "\""))
	}
	sort.Strings(paths)
	for _, path := range paths {
		if path != modulePath && !strings.HasPrefix(path, modulePath+"/") {
			continue
		}
		p, err := c.tr.loadPkg(strings.TrimPrefix(strings.TrimPrefix(path, modulePath), "/"))
		if err == nil && isStruct(p) {
			return &Named{Pkg: p, Name: name}
		}
	}
	return nil
}

// pathKind follows a field path "A.B.C" through struct declarations of the module.
func (c *fnCtx) pathKind(named *Named, path string, at ast.Node) (Kind, error) {
	cur := named
	parts := strings.Split(path, ".")
	for i, f := range parts {
		ft, ff, ok := cur.Pkg.fieldType(cur.Name, f)
		if !ok {
			return Kind{}, c.err(at, "struct %s has no field %s (path %s)", cur.Name, f, path)
		}
		sub := &fnCtx{tr: c.tr, pkg: cur.Pkg, file: ff, spec: c.spec, recCache: c.recCache, tparams: c.tparams}
		k, err := sub.kindOf(ff, ft)
		if i == len(parts)-1 {
			return k, err
		}
		// an inner struct: it need not be in the table, we only walk through it
		if err != nil || k.Base != "struct" {
			pk, perr := cur.Pkg.kindOfType(ff, ft)
			if perr != nil {
				return Kind{}, perr
			}
			k = pk
		}
		if k.Base != "struct" || k.Named == nil {
			return Kind{}, c.err(at, "field %s of %s is not a struct (path %s)", f, cur.Name, path)
		}
		cur = k.Named
	}
	return Kind{}, c.err(at, "empty field path")
}

// kindOf classifies a type expression in the context of the current table row (TypeMap, Records, type parameters)
// and falls back to the declarations of the module.
func (c *fnCtx) kindOf(f *ast.File, e ast.Expr) (Kind, error) {
	if c.spec != nil {
		if m, ok := c.spec.TypeMap[types.ExprString(e)]; ok {
			if m == "oracle" {
				return Kind{Base: "oracle", Named: &Named{Pkg: c.pkg, Name: lastName(e)}}, nil
			}
			return c.kindByName(m, e)
		}
	}
	switch e := e.(type) {
	case *ast.ParenExpr:
		return c.kindOf(f, e.X)
	case *ast.Ident:
		if c.tparams[e.Name] {
			return Kind{Base: "tparam", Named: &Named{Pkg: c.pkg, Name: e.Name}}, nil
		}
		if e.Name == "error" {
			return Kind{Base: "error"}, nil
		}
		// a named map type used as a set
		if ts, ok := c.pkg.Types[e.Name]; ok {
			if mt, isMap := ts.Type.(*ast.MapType); isMap {
				k, err := c.kindOf(c.pkg.fileOfType(ts), mt)
				if err != nil {
					return Kind{}, err
				}
				k.Named = &Named{Pkg: c.pkg, Name: e.Name}
				return k, nil
			}
		}
	case *ast.ArrayType:
		if e.Len == nil {
			el, err := c.kindOf(f, e.Elt)
			if err != nil {
				return Kind{}, err
			}
			if !elemOK(el) {
				return Kind{}, c.err(e, "slice of elements of kind %s", el.Base)
			}
			return Kind{Base: "slice", Elem: &el}, nil
		}
		if id, ok := e.Elt.(*ast.Ident); ok && (id.Name == "byte" || id.Name == "uint8") {
			if lit, ok := e.Len.(*ast.BasicLit); ok {
				n := 0
				fmt.Sscanf(lit.Value, "%d", &n)
				if n > 0 && n <= 64 {
					return Kind{Base: "bytes", Len: n}, nil
				}
			}
			return Kind{}, c.err(e, "byte array of this length")
		}
	case *ast.IndexExpr:
		// mapset.Set[T]
		if sel, ok := e.X.(*ast.SelectorExpr); ok && sel.Sel.Name == "Set" {
			if q, ok := sel.X.(*ast.Ident); ok && strings.HasSuffix(importPath(f, q.Name), "golang-set/v2") {
				el, err := c.kindOf(f, e.Index)
				if err != nil {
					return Kind{}, err
				}
				if el.coqType() != "N" {
					return Kind{}, c.err(e, "set of elements of kind %s", el.Base)
				}
				return Kind{Base: "set", Elem: &el}, nil
			}
		}
		return Kind{}, c.err(e, "instantiated generic type")
	case *ast.MapType:
		// a map used as a set: map[K]struct{} / map[K]bool with K of an N-valued kind
		isBool := false
		switch v := e.Value.(type) {
		case *ast.StructType:
			if v.Fields != nil && len(v.Fields.List) > 0 {
				return Kind{}, c.err(e, "map with struct values")
			}
		case *ast.Ident:
			if v.Name != "bool" {
				return Kind{}, c.err(e, "map with values of type %s (only map[K]struct{} / map[K]bool used as sets are read)", v.Name)
			}
			isBool = true
		default:
			return Kind{}, c.err(e, "map type (only map[K]struct{} / map[K]bool used as sets are read)")
		}
		el, err := c.kindOf(f, e.Key)
		if err != nil {
			return Kind{}, err
		}
		if el.coqType() != "N" {
			return Kind{}, c.err(e, "map used as a set with keys of kind %s", el.Base)
		}
		return Kind{Base: "set", Elem: &el, BoolMap: isBool, Native: true}, nil
	case *ast.FuncType:
		ft := &FnType{}
		if e.TypeParams != nil {
			return Kind{}, c.err(e, "generic function type")
		}
		for _, fl := range e.Params.List {
			k, err := c.kindOf(f, fl.Type)
			if err != nil {
				return Kind{}, err
			}
			n := len(fl.Names)
			if n == 0 {
				n = 1
			}
			for i := 0; i < n; i++ {
				ft.Args = append(ft.Args, k)
			}
		}
		if e.Results == nil || len(e.Results.List) != 1 || len(e.Results.List[0].Names) > 1 {
			return Kind{}, c.err(e, "function type without exactly one result")
		}
		r, err := c.kindOf(f, e.Results.List[0].Type)
		if err != nil {
			return Kind{}, err
		}
		ft.Res = r
		return Kind{Base: "func", Fn: ft}, nil
	case *ast.StarExpr:
		// pointer to a record (a result built with &T{...})
		if k, err := c.kindOf(f, e.X); err == nil && k.Base == "record" {
			return k, nil
		}
	}
	k, err := c.pkg.kindOfType(f, e)
	if err != nil {
		return Kind{}, err
	}
	if k.Base == "struct" && c.spec != nil && c.spec.Records[k.Named.Name] != nil {
		return c.recordKind(k.Named.Name, k.Named, e)
	}
	return k, nil
}

func lastName(e ast.Expr) string {
	switch e := e.(type) {
	case *ast.Ident:
		return e.Name
	case *ast.SelectorExpr:
		return e.Sel.Name
	case *ast.StarExpr:
		return lastName(e.X)
	}
	return types.ExprString(e)
}

// elemOK: kinds that may be slice elements.
func elemOK(k Kind) bool {
	switch k.Base {
	case "u64", "int", "bool", "big", "range", "estr", "ord", "record", "tparam", "slice":
		return true
	}
	return false
}

// eqFun is the boolean equality on values of kind k, "" when there is none in the subset.
func eqFun(k Kind) string {
	switch k.Base {
	case "u64", "estr", "ord":
		return "N.eqb"
	case "int", "big":
		return "Z.eqb"
	case "bool":
		return "Bool.eqb"
	}
	return ""
}

// leFun is the "less or equal" on values of kind k used as a sort key.
func leFun(k Kind) string {
	switch k.Base {
	case "u64", "ord", "estr":
		return "N.leb"
	case "int", "big":
		return "Z.leb"
	}
	return ""
}

package main

import (
	"fmt"
	"go/ast"
	"go/constant"
	"go/token"
	"go/types"
	"regexp"
	"sort"
	"strings"
)

// ---------------------------------------------------------------- small recognisers

// selPath flattens a.b.c into "a.b.c" ("" when x is not a chain of identifiers).
func selPath(x ast.Expr) string {
	switch x := x.(type) {
	case *ast.Ident:
		return x.Name
	case *ast.SelectorExpr:
		p := selPath(x.X)
		if p == "" {
			return ""
		}
		return p + "." + x.Sel.Name
	case *ast.ParenExpr:
		return selPath(x.X)
	}
	return ""
}

// ignoredStmt: a call statement on a value whose table kind is "ignore" (loggers).
func (c *fnCtx) ignoredStmt(s ast.Stmt, e *env) bool {
	es, ok := s.(*ast.ExprStmt)
	if !ok {
		return false
	}
	call, ok := es.X.(*ast.CallExpr)
	if !ok {
		return false
	}
	sel, ok := call.Fun.(*ast.SelectorExpr)
	if !ok {
		return false
	}
	p := selPath(sel.X)
	if p == "" {
		return false
	}
	v, _, ok := e.lookup(p)
	return ok && v.kind.Base == "ignore"
}

// isErrValue: an expression that is certainly a non-nil error.
func (c *fnCtx) isErrValue(x ast.Expr, e *env) bool {
	switch x := x.(type) {
	case *ast.CallExpr:
		if sel, ok := x.Fun.(*ast.SelectorExpr); ok {
			if q, ok := sel.X.(*ast.Ident); ok {
				if _, _, local := e.lookup(q.Name); local {
					return false
				}
				return (importPath(c.file, q.Name) == "fmt" && sel.Sel.Name == "Errorf") ||
					(importPath(c.file, q.Name) == "errors" && sel.Sel.Name == "New")
			}
		}
	case *ast.Ident:
		if _, _, local := e.lookup(x.Name); local {
			return false
		}
		// package-level `var errX = errors.New(...)`
		for _, f := range c.pkg.Files {
			for _, d := range f.Decls {
				gd, ok := d.(*ast.GenDecl)
				if !ok || gd.Tok != token.VAR {
					continue
				}
				for _, sp := range gd.Specs {
					vs := sp.(*ast.ValueSpec)
					for i, n := range vs.Names {
						if n.Name != x.Name || i >= len(vs.Values) {
							continue
						}
						if call, ok := vs.Values[i].(*ast.CallExpr); ok {
							if sel, ok := call.Fun.(*ast.SelectorExpr); ok {
								if q, ok := sel.X.(*ast.Ident); ok {
									return (importPath(f, q.Name) == "fmt" && sel.Sel.Name == "Errorf") ||
										(importPath(f, q.Name) == "errors" && sel.Sel.Name == "New")
								}
							}
						}
					}
				}
			}
		}
	}
	return false
}

// errIdiom recognises
//
//	v, err := <oracle>(args)
//	if err != nil { <logging>; return ..., <error> }
//
// and reads it as rbind (oracle args) (fun v => rest).
func (c *fnCtx) errIdiom(s, next ast.Stmt, e *env, rest cont) (string, bool, error) {
	as, ok := s.(*ast.AssignStmt)
	if !ok || (as.Tok != token.DEFINE && as.Tok != token.ASSIGN) || len(as.Lhs) != 2 || len(as.Rhs) != 1 {
		return "", false, nil
	}
	call, ok := as.Rhs[0].(*ast.CallExpr)
	if !ok {
		return "", false, nil
	}
	errID, ok := as.Lhs[1].(*ast.Ident)
	if !ok {
		return "", false, nil
	}
	p := selPath(call.Fun)
	fv, _, ok := e.lookup(p)
	var calleeSig *fnSig
	var calleeDecl *ast.FuncDecl
	if p == "" || !ok || fv.kind.Base != "func" || !fv.kind.Fn.Wrap {
		// a function of this package that returns (T, error)
		id, isID := call.Fun.(*ast.Ident)
		if !isID {
			return "", false, nil
		}
		if _, _, isVar := e.lookup(id.Name); isVar {
			return "", false, nil
		}
		d, found := c.pkg.Funcs[id.Name]
		if !found || d.Type.Results == nil || len(d.Type.Results.List) != 2 {
			return "", false, nil
		}
		if rid, isErr := d.Type.Results.List[1].Type.(*ast.Ident); !isErr || rid.Name != "error" {
			return "", false, nil
		}
		sig, err := c.tr.translateFunc(c.pkg, d, "", c.spec, true)
		if err != nil {
			return "", false, err
		}
		calleeSig, calleeDecl = sig, d
	}
	// from here on the statement is a fallible call: anything that does not fit is refused
	ifs, ok := next.(*ast.IfStmt)
	if !ok || ifs.Init != nil || ifs.Else != nil {
		return "", false, c.err(s, "call of %s whose error is not checked by the next statement", p)
	}
	cond, ok := ifs.Cond.(*ast.BinaryExpr)
	if !ok || cond.Op != token.NEQ || selPath(cond.X) != errID.Name || selPath(cond.Y) != "nil" {
		return "", false, c.err(ifs, "call of %s whose error is not checked by `if %s != nil`", p, errID.Name)
	}
	body := ifs.Body.List
	for len(body) > 0 && c.ignoredStmt(body[0], e) {
		body = body[1:]
	}
	if len(body) != 1 {
		return "", false, c.err(ifs, "error branch that does more than return")
	}
	ret, ok := body[0].(*ast.ReturnStmt)
	if !ok || len(ret.Results) == 0 {
		return "", false, c.err(ifs, "error branch that does not return an error")
	}
	last := ret.Results[len(ret.Results)-1]
	if !(selPath(last) == errID.Name || c.isErrValue(last, e)) || !c.hasErr {
		return "", false, c.err(ifs, "error branch that does not return an error")
	}
	var callText string
	var resK Kind
	if calleeSig != nil {
		_, as2, err := c.calleeArgs(calleeSig, calleeDecl, nil, call, e)
		if err != nil {
			return "", false, err
		}
		callText, resK = "("+calleeSig.name+as2+")", calleeSig.result
	} else {
		ct, err := c.oracleCall(call, p, fv, e)
		if err != nil {
			return "", false, err
		}
		callText, resK = ct, fv.kind.Fn.Res
	}
	pre := c.takePre()
	binder := "_"
	if id, ok := as.Lhs[0].(*ast.Ident); ok && id.Name != "_" {
		binder = c.fresh(id.Name)
		vi := varInfo{coq: binder, kind: resK}
		if as.Tok == token.DEFINE {
			e.declare(id.Name, vi)
		} else {
			old, _, ok := e.lookup(id.Name)
			if !ok || !sameKind(old.kind, vi.kind) {
				return "", false, c.err(id, "assignment of an oracle result to %s", id.Name)
			}
			e.set(id.Name, vi)
		}
	} else if !ok {
		return "", false, c.err(as.Lhs[0], "assignment target")
	}
	r, err := rest(e)
	if err != nil {
		return "", false, err
	}
	return fmt.Sprintf("%smatch %s with Err => Err | Panic => Panic | Spin => Spin | Ok %s =>\n  %s end", pre, callText, binder, r), true, nil
}

// oracleCall renders the application of an oracle; arguments marked "_" in the table are dropped.
func (c *fnCtx) oracleCall(call *ast.CallExpr, path string, fv varInfo, e *env) (string, error) {
	// find the table entry to know which arguments are dropped
	var spec *OracleSpec
	for k, o := range c.spec.Oracles {
		o := o
		if strings.HasSuffix(path, "."+k[strings.Index(k, ".")+1:]) && "o_"+sanitize(o.Name) == fv.coq {
			spec = &o
		}
	}
	if spec == nil || len(spec.Args) != len(call.Args) {
		return "", c.err(call, "oracle %s called with %d arguments, the table lists another arity", path, len(call.Args))
	}
	out := fv.coq
	j := 0
	c.noMut++
	defer func() { c.noMut-- }()
	for i, a := range call.Args {
		if spec.Args[i] == "_" {
			continue
		}
		v, err := c.exprKind(a, e, fv.kind.Fn.Args[j])
		if err != nil {
			return "", err
		}
		j++
		out += " " + atom(v.S)
	}
	return "(" + out + ")", nil
}

// ---------------------------------------------------------------- partial operations: slice index, big.Int bits

// ownExprs: the expressions the statement itself evaluates once, in order (for loops: only what is evaluated on
// entry).
func ownExprs(s ast.Stmt) []ast.Expr {
	switch s := s.(type) {
	case *ast.RangeStmt:
		return []ast.Expr{s.X}
	case *ast.ForStmt:
		if s.Init != nil {
			return ownExprs(s.Init)
		}
		return nil
	case *ast.AssignStmt:
		out := append([]ast.Expr{}, s.Rhs...)
		for _, l := range s.Lhs {
			if ix, ok := l.(*ast.IndexExpr); ok {
				out = append(out, ix.Index)
			}
		}
		return out
	}
	return stmtExprs(s)
}

func (c *fnCtx) needPanic(at ast.Node) error {
	if !c.sig.wrap {
		if c.forceWrap {
			return c.err(at, "internal: result not in the res monad")
		}
		return errNeedWrap
	}
	return nil
}

// hoistIndex binds, in front of the statement, every slice element the statement's own expressions read:
// `match slice_at s i with None => Panic | Some v => ...`, and guards big.Int bit positions against negative
// values.  Inside a canonical loop s[i] is the current element and s[i-1] the previous one.
func (c *fnCtx) hoistIndex(s ast.Stmt, e *env) (string, string, error) {
	open, shut := "", ""
	var walk func(x ast.Expr, short bool) error
	walk = func(x ast.Expr, short bool) error {
		switch x := x.(type) {
		case nil:
			return nil
		case *ast.ParenExpr:
			return walk(x.X, short)
		case *ast.UnaryExpr:
			return walk(x.X, short)
		case *ast.StarExpr:
			return walk(x.X, short)
		case *ast.BinaryExpr:
			if err := walk(x.X, short); err != nil {
				return err
			}
			return walk(x.Y, short || x.Op == token.LAND || x.Op == token.LOR)
		case *ast.SelectorExpr:
			return walk(x.X, short)
		case *ast.KeyValueExpr:
			return walk(x.Value, short)
		case *ast.CompositeLit:
			for _, el := range x.Elts {
				if err := walk(el, short); err != nil {
					return err
				}
			}
			return nil
		case *ast.SliceExpr:
			// s[:] is s; s[k:] is the tail from k on (k out of range panics)
			if _, done := c.hoisted[x]; done {
				return nil
			}
			if p := selPath(x.X); p == "" || x.High != nil || x.Max != nil {
				return walk(x.X, short)
			}
			sv, err := c.expr(x.X, e)
			if err != nil {
				return err
			}
			if sv.K.Base != "slice" {
				return nil
			}
			if x.Low == nil {
				c.hoisted[x] = Val{S: sv.S, K: sv.K, Alias: sv.Alias}
				return nil
			}
			if err := walk(x.Low, short); err != nil {
				return err
			}
			lv, err := c.exprKind(x.Low, e, Kind{Base: "int"})
			if err != nil {
				return err
			}
			if short {
				return c.err(x, "slice expression on the right of && / || (conditional panic)")
			}
			if err := c.needPanic(x); err != nil {
				return err
			}
			tn := c.fresh("from")
			open += fmt.Sprintf("match slice_from %s %s with None => Panic | Some %s =>\n  ", atom(sv.S), atom(lv.S), tn)
			shut = " end" + shut
			c.hoisted[x] = Val{S: tn, K: sv.K, Alias: sv.Alias}
			return nil
		case *ast.FuncLit:
			return nil // only as the comparator of sort.Slice, which is read as a whole
		case *ast.CallExpr:
			if sel, ok := x.Fun.(*ast.SelectorExpr); ok {
				if err := walk(sel.X, short); err != nil {
					return err
				}
				// big.Int.Bit(i) / SetBit(x, i, b): a negative position panics
				pos := -1
				if sel.Sel.Name == "Bit" && len(x.Args) == 1 {
					pos = 0
				} else if sel.Sel.Name == "SetBit" && len(x.Args) == 3 {
					pos = 1
				}
				if pos >= 0 {
					iv, err := c.expr(x.Args[pos], e)
					if err != nil {
						return err
					}
					if iv.K.Base == "untyped" {
						if constant.Sign(iv.C) < 0 {
							return c.err(x, "negative bit position")
						}
					} else {
						if short {
							return c.err(x, "bit position evaluated on the right of && / || (conditional panic)")
						}
						if err := c.needPanic(x); err != nil {
							return err
						}
						open += fmt.Sprintf("if Z.ltb %s 0%%Z then Panic else (\n  ", atom(iv.S))
						shut = ")" + shut
					}
				}
			}
			for _, a := range x.Args {
				if err := walk(a, short); err != nil {
					return err
				}
			}
			return nil
		case *ast.IndexExpr:
			if err := walk(x.Index, short); err != nil {
				return err
			}
			if _, done := c.hoisted[x]; done {
				return nil
			}
			if p := selPath(x.X); p == "" {
				return walk(x.X, short)
			}
			sv, err := c.expr(x.X, e)
			if err != nil {
				return err
			}
			if sv.K.Base != "slice" {
				return nil
			}
			// the current / previous element of a canonical loop over this very slice
			if l := c.loopOver(x.X, e); l != nil {
				if id, ok := x.Index.(*ast.Ident); ok && l.isIdx(id, e) {
					c.hoisted[x] = Val{S: l.elemCoq, K: *sv.K.Elem}
					return nil
				}
				if b, ok := x.Index.(*ast.BinaryExpr); ok && b.Op == token.SUB && l.prevCoq != "" {
					if id, ok := b.X.(*ast.Ident); ok && l.isIdx(id, e) {
						if lit, ok := b.Y.(*ast.BasicLit); ok && lit.Value == "1" {
							if short {
								return c.err(x, "slice element read on the right of && / || (conditional panic)")
							}
							if err := c.needPanic(x); err != nil {
								return err
							}
							pn := c.fresh("prev")
							open += fmt.Sprintf("match %s with None => Panic | Some %s =>\n  ", l.prevCoq, pn)
							shut = " end" + shut
							c.hoisted[x] = Val{S: pn, K: *sv.K.Elem}
							return nil
						}
					}
				}
			}
			if short {
				return c.err(x, "slice element read on the right of && / || (conditional panic)")
			}
			iv, err := c.exprKind(x.Index, e, Kind{Base: "int"})
			if err != nil {
				return err
			}
			if err := c.needPanic(x); err != nil {
				return err
			}
			vn := c.fresh("at")
			open += fmt.Sprintf("match slice_at %s %s with None => Panic | Some %s =>\n  ", atom(sv.S), atom(iv.S), vn)
			shut = " end" + shut
			c.hoisted[x] = Val{S: vn, K: *sv.K.Elem}
			return nil
		}
		return nil
	}
	for _, x := range ownExprs(s) {
		if err := walk(x, false); err != nil {
			return "", "", err
		}
	}
	if len(c.pre) > 0 {
		return "", "", c.err(s, "index expression with an effect")
	}
	return open, shut, nil
}

// ---------------------------------------------------------------- loops

type loopCtx struct {
	name     string
	sliceGo  string // Go name of the slice variable the loop runs over ("" in counting mode or for an expression)
	sliceCoq string
	idxGo    string
	idxCoq   string
	elemCoq  string // the pattern variable of the current element
	prevCoq  string // option: the previous element ("" when the body never reads s[i-1])
	depth    int
	next     cont // `continue` / end of the body
}

// loopOver: the innermost enclosing loop, when it runs over the (unchanged) slice variable x.
func (c *fnCtx) loopOver(x ast.Expr, e *env) *loopCtx {
	id, ok := x.(*ast.Ident)
	if !ok || len(c.loops) == 0 {
		return nil
	}
	l := c.loops[len(c.loops)-1]
	if l.sliceGo == "" || l.sliceGo != id.Name {
		return nil
	}
	if v, _, ok := e.lookup(id.Name); !ok || v.coq != l.sliceCoq {
		return nil
	}
	return l
}

func (l *loopCtx) isIdx(id *ast.Ident, e *env) bool {
	if l.idxGo == "" || id.Name != l.idxGo {
		return false
	}
	v, _, ok := e.lookup(id.Name)
	return ok && v.coq == l.idxCoq
}

// assignedOuter lists, in order of first occurrence, the variables visible at loop entry that the body assigns.
func (c *fnCtx) assignedOuter(body *ast.BlockStmt, post ast.Stmt, e *env) []string {
	var out []string
	seen := map[string]bool{}
	add := func(x ast.Expr) {
		for {
			switch y := x.(type) {
			case *ast.IndexExpr:
				x = y.X
				continue
			case *ast.ParenExpr:
				x = y.X
				continue
			}
			break
		}
		id, ok := x.(*ast.Ident)
		if !ok || id.Name == "_" || seen[id.Name] {
			return
		}
		if v, _, ok := e.lookup(id.Name); ok && v.coq != "" {
			seen[id.Name] = true
			out = append(out, id.Name)
		}
	}
	visit := func(n ast.Node) bool {
		switch n := n.(type) {
		case *ast.AssignStmt:
			if n.Tok != token.DEFINE {
				for _, l := range n.Lhs {
					add(l)
				}
			} else {
				for _, l := range n.Lhs {
					if _, isIdx := l.(*ast.IndexExpr); isIdx {
						add(l)
					}
				}
			}
		case *ast.IncDecStmt:
			add(n.X)
		case *ast.ExprStmt:
			if call, ok := n.X.(*ast.CallExpr); ok {
				if sel, ok := call.Fun.(*ast.SelectorExpr); ok {
					// v.SetEnd(..), v.Mul(v, ..), set.Add(..): the receiver changes
					add(sel.X)
					// sort.Slice(v, ..), slices.Sort(v), copy(v, ..)
					if q, ok := sel.X.(*ast.Ident); ok && len(call.Args) > 0 {
						if ip := importPath(c.file, q.Name); ip == "sort" || ip == "slices" {
							add(call.Args[0])
						}
					}
				} else if id, ok := call.Fun.(*ast.Ident); ok && id.Name == "copy" && len(call.Args) > 0 {
					x := call.Args[0]
					if sl, ok := x.(*ast.SliceExpr); ok {
						x = sl.X
					}
					add(x)
				}
			}
		case *ast.CallExpr:
			// a method of a named set type (it may insert into its receiver)
			if sel, ok := n.Fun.(*ast.SelectorExpr); ok {
				if id, ok := sel.X.(*ast.Ident); ok {
					if v, _, ok := e.lookup(id.Name); ok && v.kind.Base == "set" && v.kind.Named != nil && sel.Sel.Name != "Contains" {
						add(id)
					}
				}
			}
			// a big.Int method that stores into a variable receiver inside an expression
			if sel, ok := n.Fun.(*ast.SelectorExpr); ok && bigMethods[sel.Sel.Name] || ok && sel.Sel.Name == "SetBit" {
				if id, ok := sel.X.(*ast.Ident); ok {
					if v, _, ok := e.lookup(id.Name); ok && v.kind.Base == "big" {
						add(id)
					}
				}
			}
		}
		return true
	}
	ast.Inspect(body, visit)
	if post != nil {
		ast.Inspect(post, visit)
	}
	return out
}

type loopSpec struct {
	at       ast.Stmt
	body     *ast.BlockStmt
	listMode bool   // structural recursion over a list; else over a nat count
	over     Val    // listMode: the list; else unused
	overGo   string // Go name of the slice variable ("" for an expression)
	count    string // count mode: the nat number of iterations
	idxGo    string // "" = none
	idxStart string // Z term
	valGo    string // listMode: name of the element variable ("" = none)
	prev0    string // option term: the element before the first one
}

var wordRe = regexp.MustCompile(`[A-Za-z_][A-Za-z0-9_']*`)

func words(s string) map[string]int {
	out := map[string]int{}
	for _, loc := range wordRe.FindAllStringIndex(s, -1) {
		w := s[loc[0]:loc[1]]
		if _, ok := out[w]; !ok {
			out[w] = loc[0]
		}
	}
	return out
}

// emitLoop turns the loop into a top-level Fixpoint that also contains everything after the loop (continuation
// style: `continue` is the recursive call, `break` and the end of the list run the rest, `return` leaves).
func (c *fnCtx) emitLoop(ls loopSpec, e *env, rest cont) (string, error) {
	if len(c.loops) > 0 {
		return "", c.err(ls.at, "loop nested in a loop")
	}
	carried := c.assignedOuter(ls.body, nil, e)
	for _, g := range carried {
		if g == ls.idxGo || (ls.valGo != "" && g == ls.valGo) {
			continue
		}
		if ls.listMode && g == ls.overGo && ls.overGo != "" {
			return "", c.err(ls.at, "the slice the loop runs over is modified in its body")
		}
	}
	name := c.name + "_loop"
	if c.nloops > 0 {
		name = fmt.Sprintf("%s_loop%d", c.name, c.nloops+1)
	}
	c.nloops++
	if c.tr.names[name] {
		return "", c.err(ls.at, "Gallina name %s used twice", name)
	}

	depth := e.depth()
	// the rest of the function, once, over the formal names (= the names the carried variables have on entry)
	formal := map[string]varInfo{}
	for _, g := range carried {
		v, _, _ := e.lookup(g)
		formal[g] = v
	}
	restEnv := e.clone()
	restText, err := rest(restEnv)
	if err != nil {
		return "", err
	}
	// leaving the loop from inside the body: bring the carried variables back to their formal names
	leave := func(e2 *env) (string, error) {
		out := ""
		for _, g := range carried {
			cur, ok := lookupBelow(e2, g, depth)
			if !ok {
				return "", c.err(ls.at, "internal: carried variable %s lost", g)
			}
			if cur.coq != formal[g].coq {
				out += fmt.Sprintf("let %s := %s in\n  ", formal[g].coq, cur.coq)
			}
		}
		return out + restText, nil
	}

	lc := &loopCtx{name: name, sliceGo: ls.overGo, idxGo: ls.idxGo, depth: depth}
	if ls.overGo != "" {
		v, _, _ := e.lookup(ls.overGo)
		lc.sliceCoq = v.coq
	}
	be := e.clone()
	be.push()
	lN, tailN := c.fresh("l"), c.fresh("l")
	if !ls.listMode {
		lN, tailN = c.fresh("n"), c.fresh("n")
	}
	if ls.idxGo != "" {
		lc.idxCoq = c.fresh(ls.idxGo)
		be.declare(ls.idxGo, varInfo{coq: lc.idxCoq, kind: Kind{Base: "int"}})
	} else {
		lc.idxCoq = c.fresh("i")
	}
	var elemK Kind
	if ls.listMode {
		elemK = *ls.over.K.Elem
		gn := ls.valGo
		if gn == "" {
			gn = "elem"
		}
		lc.elemCoq = c.fresh(gn)
		if ls.valGo != "" {
			be.declare(ls.valGo, varInfo{coq: lc.elemCoq, kind: elemK})
		}
		if ls.overGo != "" && ls.idxGo != "" && readsPrev(ls.body, ls.overGo, ls.idxGo) {
			lc.prevCoq = c.fresh("prev")
		}
	}
	const hole = "\x01ARGS\x01"
	lc.next = func(e2 *env) (string, error) {
		out := name + " " + hole
		for _, g := range carried {
			cur, ok := lookupBelow(e2, g, depth)
			if !ok {
				return "", c.err(ls.at, "internal: carried variable %s lost", g)
			}
			out += " " + cur.coq
		}
		return out, nil
	}
	c.loops = append(c.loops, lc)
	nb := len(c.breaks)
	c.breaks = append(c.breaks, func(e2 *env) (string, error) {
		saved := c.breaks
		c.breaks = c.breaks[:nb]
		defer func() { c.breaks = saved }()
		return leave(e2)
	})
	be.push()
	bodyText, err := c.stmts(ls.body.List, be, lc.next)
	c.breaks = c.breaks[:nb]
	c.loops = c.loops[:len(c.loops)-1]
	if err != nil {
		return "", err
	}

	// which of the variables visible on entry does the text mention?  They become parameters, in the order of their
	// first occurrence; the carried ones follow the list.
	all := bodyText + "\n" + restText
	w := words(all)
	type inv struct {
		coq  string
		kind Kind
		pos  int
	}
	var invs []inv
	isCarried := map[string]bool{}
	for _, g := range carried {
		isCarried[formal[g].coq] = true
	}
	seen := map[string]bool{}
	for i := len(e.scopes) - 1; i >= 0; i-- {
		for g, v := range e.scopes[i] {
			if v.coq == "" || seen[g] {
				continue
			}
			seen[g] = true
			if isCarried[v.coq] {
				continue
			}
			if pos, ok := w[v.coq]; ok {
				invs = append(invs, inv{v.coq, v.kind, pos})
			}
		}
	}
	sort.Slice(invs, func(i, j int) bool { return invs[i].pos < invs[j].pos })
	_, useIdx := w[lc.idxCoq]

	var binders, invArgs, varArgs, recArgs []string
	var tps []string
	for t := range c.tparams {
		tps = append(tps, t)
	}
	sort.Strings(tps)
	for _, t := range tps {
		binders = append(binders, fmt.Sprintf("{%s : Type}", t))
	}
	for _, iv := range invs {
		binders = append(binders, fmt.Sprintf("(%s : %s)", iv.coq, iv.kind.coqType()))
		invArgs = append(invArgs, iv.coq)
		recArgs = append(recArgs, iv.coq)
	}
	if ls.listMode {
		binders = append(binders, fmt.Sprintf("(%s : list %s)", lN, elemK.coqType()))
		varArgs = append(varArgs, atom(ls.over.S))
	} else {
		binders = append(binders, fmt.Sprintf("(%s : nat)", lN))
		varArgs = append(varArgs, atom(ls.count))
	}
	recArgs = append(recArgs, tailN)
	if useIdx {
		binders = append(binders, fmt.Sprintf("(%s : Z)", lc.idxCoq))
		varArgs = append(varArgs, atom(ls.idxStart))
		recArgs = append(recArgs, fmt.Sprintf("(Z.add %s 1%%Z)", lc.idxCoq))
	}
	if lc.prevCoq != "" {
		binders = append(binders, fmt.Sprintf("(%s : option %s)", lc.prevCoq, elemK.coqType()))
		varArgs = append(varArgs, atom(ls.prev0))
		recArgs = append(recArgs, fmt.Sprintf("(Some %s)", lc.elemCoq))
	}
	for _, g := range carried {
		binders = append(binders, fmt.Sprintf("(%s : %s)", formal[g].coq, formal[g].kind.coqType()))
		varArgs = append(varArgs, formal[g].coq)
	}
	if len(varArgs) > 6 {
		return "", c.err(ls.at, "loop with more than four carried variables")
	}
	bodyText = strings.ReplaceAll(bodyText, hole, strings.Join(recArgs, " "))
	rt := c.sig.result.coqType()
	if c.sig.result.Base == "pending" {
		return "", c.err(ls.at, "loop before the kind of the cut variable is known")
	}
	if c.sig.wrap {
		rt = "res " + rt
	}
	var def string
	pos := c.pkg.Fset.Position(ls.at.Pos())
	if ls.listMode {
		def = fmt.Sprintf("(* %s:%d loop of %s, together with everything that follows it *)\nFixpoint %s %s {struct %s} : %s :=\n  match %s with\n  | nil =>\n  %s\n  | cons %s %s =>\n  %s\n  end.\n",
			pos.Filename, pos.Line, declTitle(c.decl), name, strings.Join(binders, " "), lN, rt, lN, restText, lc.elemCoq, tailN, bodyText)
	} else {
		def = fmt.Sprintf("(* %s:%d loop of %s, together with everything that follows it *)\nFixpoint %s %s {struct %s} : %s :=\n  match %s with\n  | O =>\n  %s\n  | S %s =>\n  %s\n  end.\n",
			pos.Filename, pos.Line, declTitle(c.decl), name, strings.Join(binders, " "), lN, rt, lN, restText, tailN, bodyText)
	}
	c.tr.names[name] = true
	c.tr.defs = append(c.tr.defs, def)
	c.tr.helperNames = append(c.tr.helperNames, name)
	// The call is marked so that proofs can find it whatever the loop function is called and whatever its invariant
	// parameters are: gen_loop<k> (loop invariants...) list-or-count [index] [previous] carried...
	fn := name
	if len(invArgs) > 0 {
		fn = "(" + name + " " + strings.Join(invArgs, " ") + ")"
	}
	return fmt.Sprintf("gen_loop%d %s %s", len(varArgs), fn, strings.Join(varArgs, " ")), nil
}

// lookupBelow: the binding of a name in the scopes that existed when the loop was entered.
func lookupBelow(e *env, n string, depth int) (varInfo, bool) {
	for i := depth - 1; i >= 0; i-- {
		if v, ok := e.scopes[i][n]; ok {
			return v, true
		}
	}
	return varInfo{}, false
}

// readsPrev: does the body read s[i-1]?
func readsPrev(body *ast.BlockStmt, s, i string) bool {
	found := false
	ast.Inspect(body, func(n ast.Node) bool {
		if ix, ok := n.(*ast.IndexExpr); ok {
			if id, ok := ix.X.(*ast.Ident); ok && id.Name == s {
				if b, ok := ix.Index.(*ast.BinaryExpr); ok && b.Op == token.SUB {
					if bi, ok := b.X.(*ast.Ident); ok && bi.Name == i {
						if lit, ok := b.Y.(*ast.BasicLit); ok && lit.Value == "1" {
							found = true
						}
					}
				}
			}
		}
		return !found
	})
	return found
}

// onlyElementWrites: every assignment to name in the body has the form name[i] = v.
func onlyElementWrites(body ast.Node, name string) bool {
	ok := true
	ast.Inspect(body, func(n ast.Node) bool {
		switch n := n.(type) {
		case *ast.AssignStmt:
			for _, l := range n.Lhs {
				if id, isID := l.(*ast.Ident); isID && id.Name == name {
					ok = false
				}
			}
		case *ast.ExprStmt:
			if call, isCall := n.X.(*ast.CallExpr); isCall {
				for _, a := range call.Args {
					if selPath(a) == name {
						ok = false // sort.Slice(name, ..), copy(name, ..), ...
					}
					if sl, isSl := a.(*ast.SliceExpr); isSl && selPath(sl.X) == name {
						ok = false
					}
				}
			}
		case *ast.UnaryExpr:
			if n.Op == token.AND && selPath(n.X) == name {
				ok = false
			}
		}
		return ok
	})
	return ok
}

func assignsName(body ast.Node, name string) bool {
	found := false
	ast.Inspect(body, func(n ast.Node) bool {
		switch n := n.(type) {
		case *ast.AssignStmt:
			for _, l := range n.Lhs {
				if id, ok := l.(*ast.Ident); ok && id.Name == name {
					found = true
				}
			}
		case *ast.IncDecStmt:
			if id, ok := n.X.(*ast.Ident); ok && id.Name == name {
				found = true
			}
		case *ast.UnaryExpr:
			if n.Op == token.AND {
				if id, ok := n.X.(*ast.Ident); ok && id.Name == name {
					found = true
				}
			}
		}
		return !found
	})
	return found
}

func (c *fnCtx) rangeStmt(s *ast.RangeStmt, e *env, rest cont) (string, error) {
	if s.Tok == token.ASSIGN {
		return "", c.err(s, "range loop assigning to existing variables")
	}
	name := func(x ast.Expr) (string, error) {
		if x == nil {
			return "", nil
		}
		id, ok := x.(*ast.Ident)
		if !ok {
			return "", c.err(x, "range variable")
		}
		if id.Name == "_" {
			return "", nil
		}
		return id.Name, nil
	}
	kn, err := name(s.Key)
	if err != nil {
		return "", err
	}
	vn, err := name(s.Value)
	if err != nil {
		return "", err
	}
	over, err := c.expr(s.X, e)
	if err != nil {
		return "", err
	}
	if over.K.Base != "slice" {
		return "", c.err(s.X, "range over a value of kind %s", over.K.Base)
	}
	if kn != "" && assignsName(s.Body, kn) {
		return "", c.err(s, "the loop index is assigned in the body")
	}
	pre := c.takePre()
	overGo := ""
	if id, ok := s.X.(*ast.Ident); ok {
		overGo = id.Name
	}
	carried := c.assignedOuter(s.Body, nil, e)
	modified := false
	for _, g := range carried {
		if g == overGo && overGo != "" {
			modified = true
		}
	}
	if modified {
		// the range expression is evaluated once: the number of iterations is the length on entry; the body works
		// on the live slice through its index
		if vn != "" {
			return "", c.err(s, "range loop with an element variable over a slice that the body modifies")
		}
		txt, err := c.emitLoop(loopSpec{at: s, body: s.Body, listMode: false, count: "(length " + atom(over.S) + ")",
			idxGo: kn, idxStart: "0%Z"}, e, rest)
		return pre + txt, err
	}
	txt, err := c.emitLoop(loopSpec{at: s, body: s.Body, listMode: true, over: over, overGo: overGo, idxGo: kn,
		idxStart: "0%Z", valGo: vn, prev0: "None"}, e, rest)
	return pre + txt, err
}

// forStmt: `for i := a; i < b; i++ { ... }` with i not assigned in the body and b not depending on anything the body
// assigns.  Over `len(s)` of an unmodified slice and a literal a it is the range loop over (the tail of) s.
func (c *fnCtx) forStmt(s *ast.ForStmt, e *env, rest cont) (string, error) {
	init, ok := s.Init.(*ast.AssignStmt)
	if !ok || init.Tok != token.DEFINE || len(init.Lhs) != 1 || len(init.Rhs) != 1 {
		return "", c.err(s, "loop that is not of the form `for i := a; i < b; i++`")
	}
	iv, ok := init.Lhs[0].(*ast.Ident)
	if !ok || iv.Name == "_" {
		return "", c.err(s, "loop that is not of the form `for i := a; i < b; i++`")
	}
	cond, ok := s.Cond.(*ast.BinaryExpr)
	if !ok || cond.Op != token.LSS || selPath(cond.X) != iv.Name {
		return "", c.err(s, "loop condition that is not `%s < b`", iv.Name)
	}
	post, ok := s.Post.(*ast.IncDecStmt)
	if !ok || post.Tok != token.INC || selPath(post.X) != iv.Name {
		return "", c.err(s, "loop step that is not `%s++`", iv.Name)
	}
	if assignsName(s.Body, iv.Name) {
		return "", c.err(s, "the loop index is assigned in the body")
	}
	start, err := c.exprKind(init.Rhs[0], e, Kind{Base: "int"})
	if err != nil {
		return "", err
	}
	carried := c.assignedOuter(s.Body, nil, e)
	isCarried := map[string]bool{}
	for _, g := range carried {
		isCarried[g] = true
	}
	if len(c.pre) > 0 {
		return "", c.err(s, "loop start with an effect")
	}
	// `i < len(s)` where the body writes elements of s but never replaces s: the length is the one on entry
	if call, ok := cond.Y.(*ast.CallExpr); ok && selPath(call.Fun) == "len" && len(call.Args) == 1 {
		if sid, ok := call.Args[0].(*ast.Ident); ok && isCarried[sid.Name] && onlyElementWrites(s.Body, sid.Name) {
			if _, _, shadow := e.lookup("len"); !shadow {
				sv, err := c.expr(sid, e)
				if err != nil {
					return "", err
				}
				if sv.K.Base == "slice" {
					count := fmt.Sprintf("(Z.to_nat (Z.sub (Z.of_nat (length %s)) %s))", atom(sv.S), atom(start.S))
					if lit, ok := init.Rhs[0].(*ast.BasicLit); ok && lit.Value == "0" {
						count = "(length " + atom(sv.S) + ")"
					}
					st := start.S
					if lit, ok := init.Rhs[0].(*ast.BasicLit); ok && lit.Value == "0" {
						st = "0%Z"
					}
					return c.emitLoop(loopSpec{at: s, body: s.Body, listMode: false, count: count, idxGo: iv.Name, idxStart: st}, e, rest)
				}
			}
		}
	}
	// the bound must not depend on anything the body changes
	bad := ""
	ast.Inspect(cond.Y, func(n ast.Node) bool {
		if id, ok := n.(*ast.Ident); ok && isCarried[id.Name] {
			bad = id.Name
		}
		return true
	})
	if bad != "" {
		return "", c.err(s, "the loop bound depends on %s, which the body modifies", bad)
	}
	// list mode: i < len(s), s unmodified, literal start
	if call, ok := cond.Y.(*ast.CallExpr); ok && selPath(call.Fun) == "len" && len(call.Args) == 1 {
		if sid, ok := call.Args[0].(*ast.Ident); ok {
			if _, _, shadow := e.lookup("len"); !shadow {
				sv, err := c.expr(sid, e)
				if err != nil {
					return "", err
				}
				if sv.K.Base == "slice" {
					if lit, ok := init.Rhs[0].(*ast.BasicLit); ok && lit.Kind == token.INT {
						k := 0
						fmt.Sscanf(lit.Value, "%d", &k)
						over := sv
						prev0 := "None"
						if k > 0 {
							over = Val{S: fmt.Sprintf("(skipn %d %s)", k, atom(sv.S)), K: sv.K}
							prev0 = fmt.Sprintf("(slice_at %s (%d)%%Z)", atom(sv.S), k-1)
						}
						st := start.S
						if k == 0 {
							st = "0%Z"
						}
						return c.emitLoop(loopSpec{at: s, body: s.Body, listMode: true, over: over, overGo: sid.Name,
							idxGo: iv.Name, idxStart: st, prev0: prev0}, e, rest)
					}
				}
			}
		}
	}
	bound, err := c.exprKind(cond.Y, e, Kind{Base: "int"})
	if err != nil {
		return "", err
	}
	if len(c.pre) > 0 {
		return "", c.err(s, "loop bound with an effect")
	}
	return c.emitLoop(loopSpec{at: s, body: s.Body, listMode: false,
		count: fmt.Sprintf("(Z.to_nat (Z.sub %s %s))", atom(bound.S), atom(start.S)), idxGo: iv.Name, idxStart: start.S}, e, rest)
}

// ---------------------------------------------------------------- statements on slices / sets / byte arrays

// sliceStmt: call statements whose effect is on a local slice, set or byte array.
func (c *fnCtx) sliceStmt(call *ast.CallExpr, s ast.Stmt, e *env, rest cont) (string, bool, error) {
	rebind := func(goName string, v varInfo, val string) (string, bool, error) {
		pre := c.takePre()
		cn := c.fresh(goName)
		v.coq = cn
		e.set(goName, v)
		r, err := rest(e)
		if err != nil {
			return "", true, err
		}
		return fmt.Sprintf("%slet %s := %s in\n  %s", pre, cn, val, r), true, nil
	}
	fun := types.ExprString(call.Fun)
	switch {
	case fun == "copy" && len(call.Args) == 2:
		// copy(dst, src): min(len dst, len src) elements
		strip := func(x ast.Expr) ast.Expr {
			if sl, ok := x.(*ast.SliceExpr); ok && sl.Low == nil && sl.High == nil && sl.Max == nil {
				return sl.X
			}
			return x
		}
		did, ok := strip(call.Args[0]).(*ast.Ident)
		if !ok {
			return "", true, c.err(s, "copy into something that is not a local slice")
		}
		dv, _, ok := e.lookup(did.Name)
		if !ok || dv.kind.Base != "slice" || dv.param {
			return "", true, c.err(s, "copy into something that is not a local slice")
		}
		sv, err := c.exprKind(strip(call.Args[1]), e, dv.kind)
		if err != nil {
			return "", true, err
		}
		return rebind(did.Name, dv, fmt.Sprintf("slice_copy %s %s", dv.coq, atom(sv.S)))

	case (fun == "sort.Slice" && importPath(c.file, "sort") == "sort" && len(call.Args) == 2) ||
		(fun == "slices.Sort" && importPath(c.file, "slices") == "slices" && len(call.Args) == 1):
		id, ok := call.Args[0].(*ast.Ident)
		if !ok {
			return "", true, c.err(s, "sorting something that is not a slice variable")
		}
		v, _, ok := e.lookup(id.Name)
		if !ok || v.kind.Base != "slice" {
			return "", true, c.err(s, "sorting something that is not a slice variable")
		}
		var le string
		if fun == "slices.Sort" {
			le = leFun(*v.kind.Elem)
			if le == "" {
				return "", true, c.err(s, "slices.Sort on elements of kind %s", v.kind.Elem.Base)
			}
		} else {
			var err error
			le, err = c.comparator(call.Args[1], id.Name, v, e)
			if err != nil {
				return "", true, err
			}
		}
		// NOTE sorting a parameter also sorts the caller's slice; that effect is outside this translation
		return rebind(id.Name, v, fmt.Sprintf("sort_by %s %s", le, v.coq))

	case fun == "binary.BigEndian.PutUint64" && importPath(c.file, "binary") == "encoding/binary" && len(call.Args) == 2:
		x := call.Args[0]
		off := 0
		if sl, ok := x.(*ast.SliceExpr); ok {
			if sl.High != nil || sl.Max != nil {
				return "", true, c.err(s, "PutUint64 into a slice expression with an upper bound")
			}
			if sl.Low != nil {
				lv, err := c.expr(sl.Low, e)
				if err != nil {
					return "", true, err
				}
				n, ok := int64(0), false
				if lv.K.Base == "untyped" {
					n, ok = constant.Int64Val(constant.ToInt(lv.C))
				}
				if !ok || n < 0 {
					return "", true, c.err(s, "PutUint64 at a non-constant offset")
				}
				off = int(n)
			}
			x = sl.X
		}
		id, ok := x.(*ast.Ident)
		if !ok {
			return "", true, c.err(s, "PutUint64 into something that is not a local byte array")
		}
		v, _, ok := e.lookup(id.Name)
		if !ok || v.kind.Base != "bytes" || v.param {
			return "", true, c.err(s, "PutUint64 into something that is not a local byte array")
		}
		if v.kind.Len-off < 8 {
			return "", true, c.err(s, "PutUint64 into fewer than 8 bytes (panics)")
		}
		val, err := c.exprKind(call.Args[1], e, Kind{Base: "u64"})
		if err != nil {
			return "", true, err
		}
		return rebind(id.Name, v, fmt.Sprintf("put_be64 %s %d %s", v.coq, off, atom(val.S)))
	}
	// set.Add(x)
	if sel, ok := call.Fun.(*ast.SelectorExpr); ok {
		if id, ok := sel.X.(*ast.Ident); ok {
			if v, _, ok := e.lookup(id.Name); ok && v.kind.Base == "set" {
				if sel.Sel.Name != "Add" || len(call.Args) != 1 {
					return "", true, c.err(s, "set method %s used as a statement", sel.Sel.Name)
				}
				if v.param {
					return "", true, c.err(s, "Add to a set that belongs to the caller")
				}
				x, err := c.exprKind(call.Args[0], e, *v.kind.Elem)
				if err != nil {
					return "", true, err
				}
				return rebind(id.Name, v, fmt.Sprintf("cons %s %s", atom(x.S), v.coq))
			}
		}
	}
	return "", false, nil
}

// comparator reads `func(i, j int) bool { return KEY(s[i]) < KEY(s[j]) }` (or `less(s[i], s[j])` with a
// function-typed parameter less) and returns the "less or equal" function for sort_by.
func (c *fnCtx) comparator(x ast.Expr, sliceGo string, sv varInfo, e *env) (string, error) {
	fl, ok := x.(*ast.FuncLit)
	if !ok {
		return "", c.err(x, "sort.Slice with a comparator that is not a function literal")
	}
	var ps []string
	for _, f := range fl.Type.Params.List {
		for _, n := range f.Names {
			ps = append(ps, n.Name)
		}
	}
	if len(ps) != 2 || len(fl.Body.List) != 1 {
		return "", c.err(x, "sort.Slice comparator that is not a single return of a comparison")
	}
	ret, ok := fl.Body.List[0].(*ast.ReturnStmt)
	if !ok || len(ret.Results) != 1 {
		return "", c.err(x, "sort.Slice comparator that is not a single return of a comparison")
	}
	elemK := *sv.kind.Elem
	// translate an expression in which s[<idx>] stands for the variable `name`
	side := func(ex ast.Expr, idx, name string) (Val, error) {
		bad := error(nil)
		ast.Inspect(ex, func(n ast.Node) bool {
			if ix, ok := n.(*ast.IndexExpr); ok {
				if selPath(ix.X) == sliceGo && selPath(ix.Index) == idx {
					c.hoisted[ix] = Val{S: name, K: elemK}
					return false
				}
			}
			if id, ok := n.(*ast.Ident); ok && (id.Name == ps[0] || id.Name == ps[1]) {
				bad = c.err(id, "sort.Slice comparator that uses an index other than in %s[%s]", sliceGo, id.Name)
			}
			return true
		})
		if bad != nil {
			return Val{}, bad
		}
		c.noMut++
		defer func() { c.noMut-- }()
		return c.expr(ex, e)
	}
	switch r := ret.Results[0].(type) {
	case *ast.BinaryExpr:
		if r.Op != token.LSS {
			return "", c.err(r, "sort.Slice comparator other than `<` on a key")
		}
		ka, err := side(r.X, ps[0], "a")
		if err != nil {
			return "", err
		}
		kb, err := side(r.Y, ps[1], "b")
		if err != nil {
			return "", err
		}
		// both sides must be the same key function
		re := regexp.MustCompile(`\ba\b`)
		if re.ReplaceAllString(ka.S, "b") != kb.S || ka.K.Base != kb.K.Base {
			return "", c.err(r, "sort.Slice comparator whose two sides are not the same key of the two elements")
		}
		le := leFun(ka.K)
		if le == "" {
			return "", c.err(r, "sort key of kind %s", ka.K.Base)
		}
		return fmt.Sprintf("(fun a b => %s %s %s)", le, atom(ka.S), atom(kb.S)), nil
	case *ast.CallExpr:
		// less(s[i], s[j]) with less a function-typed parameter: a <= b is "not b < a"
		p := selPath(r.Fun)
		fv, _, ok := e.lookup(p)
		if p == "" || !ok || fv.kind.Base != "func" || fv.kind.Fn.Wrap || len(r.Args) != 2 || fv.kind.Fn.Res.Base != "bool" {
			return "", c.err(r, "sort.Slice comparator that calls something other than a comparison parameter")
		}
		a, err := side(r.Args[0], ps[0], "a")
		if err != nil {
			return "", err
		}
		b, err := side(r.Args[1], ps[1], "b")
		if err != nil {
			return "", err
		}
		if a.S != "a" || b.S != "b" {
			return "", c.err(r, "sort.Slice comparator that does not compare the two elements themselves")
		}
		return fmt.Sprintf("(fun a b => negb (%s b a))", fv.coq), nil
	}
	return "", c.err(x, "sort.Slice comparator of this form")
}

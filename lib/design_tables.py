#!/usr/bin/env python3
"""Prints the generated tables of DESIGN.md: findings (from known_findings.json) and seeded changes (seeded/)."""
import json, os, sys
ROOT = os.path.dirname(os.path.dirname(os.path.abspath(__file__)))


def findings():
    d = json.load(open(os.path.join(ROOT, 'known_findings.json')))['findings']
    out = ['| id | property | disposition | what failed |', '|----|----------|-------------|-------------|']
    for f in sorted(d, key=lambda f: (f['status'] != 'fixed', f['property'], f['id'])):
        disp = ('fixed in `%s`' % f['commit']) if f['status'] == 'fixed' else '**known** (recorded)'
        what = f['what'] + ((' — *not repaired because:* ' + f['why_not_repaired']) if f.get('why_not_repaired') else '')
        out.append('| %s | %s | %s | %s |' % (f['id'], f['property'], disp, what.replace('|', '\\|')))
    nfix = sum(1 for f in d if f['status'] == 'fixed')
    return '\n'.join(out), nfix, len(d) - nfix


def seeded():
    sd = os.path.join(ROOT, 'seeded')
    res = json.load(open(os.path.join(sd, 'RESULTS.json')))
    out = ['| seeded change | property | what was changed | needs | confirmed | result of the checks |', '|---|---|---|---|---|---|']
    n = det = conc = 0
    retired = []
    for sid in sorted(res):
        mp = os.path.join(sd, sid, 'meta.json')
        if not os.path.exists(mp):
            continue
        m = json.load(open(mp))
        r = res[sid]
        if m.get('obsolete'):
            retired.append('%s (%s)' % (sid, m.get('coordinator_note', '')[-220:]))
            continue
        n += 1
        checks = '; '.join('%s: %s' % (p, ('VIOLATION (concrete input)' if v.get('concrete_input') else
                                           ('VIOLATION no-failing-input-found' if v.get('violation_lines') else 'passed')))
                           for p, v in r.get('checks', {}).items())
        if r.get('detected'):
            det += 1
        if any(v.get('concrete_input') for v in r.get('checks', {}).values()):
            conc += 1
        note = m.get('coordinator_note', '')
        out.append('| %s | %s | %s | %s | %s | %s%s |' % (sid, m['property'], m['summary'][:220].replace('|', '/'), m['needs'][:200].replace('|', '/'),
                                                       'yes' if m.get('verified', {}).get('confirmed') else 'NO', checks, (' — ' + note) if note else ''))
    if retired:
        out.append('')
        out.append('Retired seeded changes (made behaviour preserving or unreachable by a later repair): ' + '; '.join(retired))
    return '\n'.join(out), n, det, conc


if __name__ == '__main__':
    t, a, b = findings()
    print(t); print(a, b)
    t, n, d, c = seeded()
    print(t); print(n, d, c)

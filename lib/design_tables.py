#!/usr/bin/env python3
"""Prints the generated tables of DESIGN.md: findings (from known_findings.json) and seeded changes (seeded/)."""
import json, os, sys
ROOT = os.path.dirname(os.path.dirname(os.path.abspath(__file__)))


def findings():
    d = json.load(open(os.path.join(ROOT, 'known_findings.json')))['findings']
    out = ['| id | property | disposition | what failed |', '|----|----------|-------------|-------------|']
    for f in sorted(d, key=lambda f: (f['status'] != 'fixed', f['property'], f['id'])):
        disp = ('fixed in `%s`' % f['commit']) if f['status'] == 'fixed' else '**known** (recorded)'
        what = f['what'] + ((' — *not repaired because:* ' + f['why_not_repaired']) if f.get('why_not_repaired') else '')
        out.append('| %s | %s | %s | %s |' % (f['id'], f['property'], disp, what.replace('|', '\\|')))
    nfix = sum(1 for f in d if f['status'] == 'fixed')
    return '\n'.join(out), nfix, len(d) - nfix


def seeded():
    sd = os.path.join(ROOT, 'seeded')
    res = json.load(open(os.path.join(sd, 'RESULTS.json')))
    out = ['| seeded change | property | what was changed | needs | confirmed | result of the checks |', '|---|---|---|---|---|---|']
    n = det = conc = 0
    retired = []
    for sid in sorted(res):
        mp = os.path.join(sd, sid, 'meta.json')
        if not os.path.exists(mp):
            continue
        m = json.load(open(mp))
        r = res[sid]
        if m.get('obsolete'):
            retired.append('%s (%s)' % (sid, m.get('coordinator_note', '')[-220:]))
            continue
        n += 1
        checks = '; '.join('%s: %s' % (p, ('VIOLATION (concrete input)' if v.get('concrete_input') else
                                           ('VIOLATION no-failing-input-found' if v.get('violation_lines') else 'passed')))
                           for p, v in r.get('checks', {}).items())
        if r.get('detected'):
            det += 1
        if any(v.get('concrete_input') for v in r.get('checks', {}).values()):
            conc += 1
        note = m.get('coordinator_note', '')
        out.append('| %s | %s | %s | %s | %s | %s%s |' % (sid, m['property'], m['summary'][:220].replace('|', '/'), m['needs'][:200].replace('|', '/'),
                                                       'yes' if m.get('verified', {}).get('confirmed') else 'NO', checks, (' — ' + note) if note else ''))
    if retired:
        out.append('')
        out.append('Retired seeded changes (made behaviour preserving or unreachable by a later repair): ' + '; '.join(retired))
    return '\n'.join(out), n, det, conc


if __name__ == '__main__':
    t, a, b = findings()
    print(t); print(a, b)
    t, n, d, c = seeded()
    print(t); print(n, d, c)


def benign():
    """table of the behaviour-preserving refactorings under benign/ and what the quick checks said about them"""
    B = os.path.join(ROOT, 'benign')
    res = json.load(open(os.path.join(B, 'RESULTS.json'))) if os.path.exists(os.path.join(B, 'RESULTS.json')) else {}
    rows = ['| id | files rewritten | what was rewritten | quick checks run (others: no dependency changed) | alarms | tie notes |', '|----|----|----|----|----|----|']
    n = ok = 0
    for bid in sorted(d for d in os.listdir(B) if os.path.isdir(os.path.join(B, d))):
        m = json.load(open(os.path.join(B, bid, 'meta.json')))
        r = res.get(bid, {})
        ch = r.get('checks', {})
        ran = sorted(p for p, v in ch.items() if not v.get('skipped'))
        notes = sorted({p for p, v in ch.items() if v.get('notes')})
        n += 1
        ok += 1 if r.get('applied') and not r.get('alarms') else 0
        summ = m.get('summary', '').replace('|', '/').replace('\n', ' ')
        rows.append('| %s | %s | %s | %d: %s | %s | %s |' % (
            bid, '<br>'.join(os.path.basename(f) for f in m.get('files', [])), summ[:260] + ('…' if len(summ) > 260 else ''),
            len(ran), ' '.join(ran), ', '.join(r.get('alarms', [])) or 'none',
            ('translator refused a rewritten function (tie unavailable, boosted correspondence): ' + ' '.join(notes)) if notes else '—'))
    return '\n'.join(rows), n, ok

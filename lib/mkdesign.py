#!/usr/bin/env python3
"""Re-assembles DESIGN.md from docs/design/*.md parts and the generated tables (findings, seeded changes)."""
import os, sys, re, glob
ROOT = os.path.dirname(os.path.dirname(os.path.abspath(__file__)))
sys.path.insert(0, os.path.join(ROOT, 'lib'))
import design_tables as T
D = os.path.join(ROOT, 'docs', 'design')
parts = [open(os.path.join(D, n)).read() for n in ('00_head.md', '01_system.md', '02_technique.md', '03_properties.md', '04_tail.md', '05_appendix.md')]
ft, nfix, nknown = T.findings()
st, n, det, conc = T.seeded()
nthm = 0
for f in glob.glob(os.path.join(ROOT, 'coq', 'Props', '*.v')):
    nthm += len(re.findall(r'^Theorem ', open(f).read(), flags=re.M))
txt = '\n'.join(parts)
txt = txt.replace('FINDINGS_TABLE', ft).replace('SEEDED_TABLE', st)
txt = txt.replace('SEEDED_SUMMARY', '%d seeded changes: %d reported as VIOLATION by the current checks, %d of them with a concrete failing '
                  'input as replay. Changes marked in the last column were missed by an earlier version of a check and led to the '
                  'strengthening described there.' % (n, det, conc))
txt = re.sub(r'\*\*\d+ genuine defects\*\*', '**%d genuine defects**' % (nfix + nknown), txt)
txt = re.sub(r'\d+ were repaired\nwith small', '%d were repaired\nwith small' % nfix, txt)
txt = re.sub(r'passes after each\), \d+ are recorded', 'passes after each), %d are recorded' % nknown, txt)
txt = re.sub(r'\d+ independently seeded changes', '%d independently seeded changes' % n, txt)
txt = re.sub(r'of the\n\d+ seeded changes', 'of the\n%d seeded changes' % n, txt)
txt = re.sub(r'\b\d+ property theorems', '%d property theorems' % nthm, txt)
open(os.path.join(ROOT, 'DESIGN.md'), 'w').write(txt)
print('DESIGN.md: %d bytes, %d theorems, %d fixed, %d known, %d seeded (%d detected)' % (len(txt), nthm, nfix, nknown, n, det))

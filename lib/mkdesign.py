#!/usr/bin/env python3
"""Re-assembles DESIGN.md from docs/design/*.md parts and the generated tables (findings, seeded changes)."""
import os, sys, re, glob
ROOT = os.path.dirname(os.path.dirname(os.path.abspath(__file__)))
sys.path.insert(0, os.path.join(ROOT, 'lib'))
import design_tables as T
D = os.path.join(ROOT, 'docs', 'design')
parts = [open(os.path.join(D, n)).read() for n in ('00_head.md', '01_system.md', '02_technique.md', 'translator.md', 'locks.md', '03_properties.md', '04_tail.md', '05_appendix.md')]
MODELS = {'C01': 'Consensus, CommitConsensus, Discovery', 'C02': 'SeqRange, CommitMerkle', 'C03': 'CommitSM', 'C04': 'CommitSys (+ C01/C02/C03 models)',
          'C05': 'CommitRmnGate, CommitSM', 'C06': 'Rmn', 'C07': 'ExecMerge, Consensus', 'C08': 'Merkle, ExecReport', 'C09': 'ExecPending (+ ExecReport)',
          'C10': 'Determinism, Consensus, Transmit', 'C11': 'Roles', 'C12': 'Roles', 'C13': 'PanicSites, Rmn, Truncate', 'C14': 'Prices, Consensus',
          'C15': 'Curses', 'C16': 'Transmit', 'C17': 'Truncate', 'C18': 'Pollers', 'C19': 'BgObserver', 'C20': 'Codec'}


def prop_table():
    import json
    fs = json.load(open(os.path.join(ROOT, 'known_findings.json')))['findings']
    out = ['| id | model (coq/Model) | thm | quick cases (distinct non-trivial) | quick s | findings (§4) |', '|----|----|----|----|----|----|']
    for pid in sorted(MODELS):
        ev = json.load(open(os.path.join(ROOT, 'evidence', pid + '.json')))
        c = ev['coverage']
        fx = [f['id'] for f in fs if f['property'] == pid and f['status'] == 'fixed']
        kn = [f['id'] for f in fs if f['property'] == pid and f['status'] == 'known']
        ftxt = '; '.join(x for x in [(', '.join(fx) + ' fixed') if fx else '', (', '.join(kn) + ' known') if kn else ''] if x) or '—'
        out.append('| %s | %s | %d | %d (%d) | %d | %s |' % (pid, MODELS[pid], c['obligations'], c['evaluations'], c['distinct_nontrivial'], round(ev['wall_s']), ftxt))
    return '\n'.join(out)


ft, nfix, nknown = T.findings()
st, n, det, conc = T.seeded()
nthm = 0
for f in glob.glob(os.path.join(ROOT, 'coq', 'Props', '*.v')):
    nthm += len(re.findall(r'^Theorem ', open(f).read(), flags=re.M))
txt = '\n'.join(parts)
txt = txt.replace('PROPERTY_TABLE', prop_table())
txt = txt.replace('FINDINGS_TABLE', ft).replace('SEEDED_TABLE', st)
txt = txt.replace('SEEDED_SUMMARY', '%d seeded changes: %d reported as VIOLATION by the current checks, %d of them with a concrete failing '
                  'input as replay. Changes marked in the last column were missed by an earlier version of a check and led to the '
                  'strengthening described there.' % (n, det, conc))
bt, bn, bok = T.benign()
txt = txt.replace('BENIGN_TABLE', bt).replace('BENIGN_SUMMARY', '%d refactorings, %d without any alarm on the current checks. The first full run of the '
                  'suite raised three alarms, all in C19 (`C19_ctor` / `C19_comp`, wall-clock dependent observables under machine load) and two translator '
                  'proof breaks (R-C02: a `for range` loop rewritten as an index loop): they were false alarms, corrected in the machinery (§6: timing audit, '
                  'marker-based loop lemmas, tie-unavailable policy) — never by loosening a check.' % (bn, bok))
txt = re.sub(r'\*\*\d+ genuine defects\*\*', '**%d genuine defects**' % (nfix + nknown), txt)
txt = re.sub(r'\d+ were repaired\nwith small', '%d were repaired\nwith small' % nfix, txt)
txt = re.sub(r'passes after each\), \d+ are recorded', 'passes after each), %d are recorded' % nknown, txt)
txt = re.sub(r'\d+ independently seeded changes', '%d independently seeded changes' % n, txt)
txt = re.sub(r'of the\s+\d+ seeded changes were missed', 'of the %d seeded changes were missed at first' % n, txt)
txt = re.sub(r'\b\d+ property theorems', '%d property theorems' % nthm, txt)
txt = re.sub(r'Of the \d+ seeded changes', 'Of the %d seeded changes' % n, txt)
open(os.path.join(ROOT, 'DESIGN.md'), 'w').write(txt)
print('DESIGN.md: %d bytes, %d theorems, %d fixed, %d known, %d seeded (%d detected)' % (len(txt), nthm, nfix, nknown, n, det))

#!/usr/bin/env python3
"""gentranslate — second tie between the Coq development and the Go sources.

On every call the leaf functions listed in /verif/translate (table in main.go) are translated again from the
*current* Go sources of `repo` into Gallina (Gen/Leaf.v, definitions only), and the theorems of
coq/GenEquiv/<pid>_gen.v — `generated = hand-written model`, and the property statements restated over the
generated definitions — are re-checked against that fresh Leaf.v.

    run(repo, pid, workdir=None) -> {
        'translated': [gallina names], 'translator_failed': [{'func', 'reason'}],
        'theorems': {name: 'closed' | <text>}, 'failed_theorems': [names], 'ok': bool, 'log': tail, ...}

    python3 lib/gentranslate.py <pid> [--repo DIR] [--workdir DIR]      prints the dict as JSON, exit 0 / 1

Assumes /verif/coq has been built (`./check --setup`): the hand models and their proofs are loaded as .vo files.
Concurrency: the work directory is per repository path (build/gen/<sha1 of the path>/) and guarded by a file lock,
so runs on different repositories do not touch each other and runs on the same repository are serialised; the
translator binary is built once per source version into build/gen/bin/ under its own lock.
"""
import concurrent.futures
import fcntl
import hashlib
import json
import os
import re
import shutil
import subprocess
import sys
import time

ROOT = os.path.dirname(os.path.dirname(os.path.abspath(__file__)))
COQ = os.path.join(ROOT, 'coq')
GENEQUIV = os.path.join(COQ, 'GenEquiv')
TRANSLATE = os.path.join(ROOT, 'translate')
GENROOT = os.path.join(ROOT, 'build', 'gen')
GOENV = dict(os.environ, GOFLAGS='-mod=mod', GOPROXY='off', GOSUMDB='off', GOTOOLCHAIN='local',
             CGO_ENABLED=os.environ.get('CGO_ENABLED', '0'))
FORBIDDEN = re.compile(r'\b(Admitted|admit|Axiom|Axioms|Parameter|Parameters|Conjecture|Admit Obligations)\b'
                       r'|Unset Guard|bypass_check|type-in-type|impredicative-set|Unset Universe|Unset Positivity')
COQC_TIMEOUT = 300      # seconds per coqc call (shell `timeout`)
PA_JOBS = 8

# which GenEquiv files belong to a property.  Default: <pid>_gen.v when it exists.
PID_FILES = {
    'C01': ['C01_gen.v'], 'C02': ['C02_gen.v'], 'C03': ['C03_gen.v'], 'C06': ['C06_gen.v', 'C18_gen.v'], 'C07': ['C07_gen.v'],
    'C08': ['C08_gen.v'], 'C13': ['C13_gen.v'], 'C14': ['C14_gen.v'], 'C15': ['C15_gen.v'], 'C16': ['C16_gen.v'],
    'C18': ['C18_gen.v'],
    'C04': ['C01_gen.v', 'C02_gen.v', 'C03_gen.v'],   # C04 composes C01 (thresholds, chain validators), C02 (msgsCoverRange / computeMerkleRoot / Limit), C03 (NextState)
    'C05': ['C03_gen.v'],                # C05 rests on the same round state machine (NextState)
    'C10': ['C16_gen.v'],                # C10 rests on the transmission schedule
    'C17': [],
    'C09': ['C09_gen.v', 'C13_gen.v'],   # computeRanges; PluginState.Next
}


def sh(cmd, cwd=None, env=None, timeout=None):
    t0 = time.time()
    try:
        p = subprocess.run(cmd, cwd=cwd, env=env, timeout=timeout, stdout=subprocess.PIPE,
                           stderr=subprocess.STDOUT, text=True, errors='replace')
        return p.returncode, p.stdout, time.time() - t0
    except subprocess.TimeoutExpired as e:
        out = e.stdout if isinstance(e.stdout, str) else (e.stdout or b'').decode(errors='replace')
        return 124, (out or '') + '\n[timeout]', time.time() - t0


def _sha(*chunks):
    h = hashlib.sha1()
    for c in chunks:
        h.update(c if isinstance(c, bytes) else c.encode())
        h.update(b'\0')
    return h.hexdigest()


def files_for(pid):
    fs = PID_FILES.get(pid)
    if fs is None:
        f = '%s_gen.v' % pid
        fs = [f] if os.path.exists(os.path.join(GENEQUIV, f)) else []
    return fs


def default_workdir(repo):
    return os.path.join(GENROOT, _sha(os.path.realpath(repo))[:16])


# ----------------------------------------------------------------------------- translator binary
def translator_binary():
    """Build /verif/translate once per version of its sources; returns (path | None, log)."""
    srcs = sorted(f for f in os.listdir(TRANSLATE) if f.endswith('.go') or f == 'go.mod')
    ver = _sha(*[open(os.path.join(TRANSLATE, f), 'rb').read() for f in srcs])[:16]
    bindir = os.path.join(GENROOT, 'bin')
    os.makedirs(bindir, exist_ok=True)
    path = os.path.join(bindir, 'translate-' + ver)
    if os.path.exists(path):
        return path, ''
    with open(os.path.join(bindir, '.lock'), 'w') as lk:
        fcntl.flock(lk, fcntl.LOCK_EX)
        if os.path.exists(path):
            return path, ''
        tmp = '%s.tmp%d' % (path, os.getpid())
        rc, out, _ = sh(['go', 'build', '-o', tmp, '.'], cwd=TRANSLATE, env=GOENV, timeout=600)
        if rc != 0:
            return None, 'go build of /verif/translate failed (rc=%d):\n%s' % (rc, out[-3000:])
        os.rename(tmp, path)
    return path, ''


# ----------------------------------------------------------------------------- coq
def coqc(gen, fname, timeout=COQC_TIMEOUT):
    cmd = ['timeout', str(timeout), 'coqc', '-Q', COQ, 'Verif', '-Q', gen, 'VerifGen', '-w', '-notation-overridden', fname]
    return sh(cmd, cwd=gen, timeout=timeout + 30)


BLOCK_START = re.compile(r'^\s*(?:Theorem|Lemma|Corollary|Example|Fact|Remark|Proposition)\s+([A-Za-z0-9_\']+)')
BLOCK_END = re.compile(r'\b(?:Qed|Defined)\.\s*(?:\(\*.*\*\)\s*)?$')
PRINT_ASSUM = re.compile(r'^\s*Print Assumptions\s+([A-Za-z0-9_\']+)\s*\.\s*$')


def parse_blocks(lines):
    """[(name, first_line, last_line)] (0-based, inclusive); a block runs from its keyword to its Qed, plus the
    Print Assumptions line that follows it."""
    blocks, i = [], 0
    while i < len(lines):
        m = BLOCK_START.match(lines[i])
        if not m:
            i += 1
            continue
        j = i
        while j < len(lines) and not BLOCK_END.search(lines[j]):
            j += 1
        if j >= len(lines):
            j = len(lines) - 1
        k = j
        if k + 1 < len(lines):
            pm = PRINT_ASSUM.match(lines[k + 1])
            if pm and pm.group(1) == m.group(1):
                k += 1
        blocks.append((m.group(1), i, k))
        i = k + 1
    return blocks


def strip_comments(txt):
    prev = None
    while prev != txt:
        prev = txt
        txt = re.sub(r'\(\*[^()]*?\*\)', '', txt, flags=re.S)
    return re.sub(r'\(\*.*?\*\)', '', txt, flags=re.S)


def check_file(gen, fname, log):
    """Compile one GenEquiv file against gen/Leaf.vo.  A theorem whose proof (or statement) no longer goes through
    is reported and removed, and the rest of the file is checked again, so that every theorem gets its own verdict.
    Print Assumptions is run afterwards, in parallel, against the compiled file."""
    src = open(os.path.join(GENEQUIV, fname)).read()
    verdict, failed = {}, []
    hits = FORBIDDEN.findall(strip_comments(src))
    if hits:
        return {'<file %s>' % fname: 'forbidden vernacular: %s' % hits}, ['<file %s>' % fname]
    lines = src.split('\n')
    blocks = parse_blocks(lines)
    wanted = [PRINT_ASSUM.match(l).group(1) for l in lines if PRINT_ASSUM.match(l)]
    # the Print Assumptions lines are taken out of the compiled copy (line numbers kept) and run separately
    work = [('' if PRINT_ASSUM.match(l) else l) for l in lines]
    mod = fname[:-2]
    path = os.path.join(gen, fname)
    alive = {b[0] for b in blocks}
    for _ in range(len(blocks) + 1):
        open(path, 'w').write('\n'.join(work))
        rc, out, dt = coqc(gen, fname)
        log.append('coqc %s rc=%d %.1fs' % (fname, rc, dt))
        if rc == 0:
            break
        log.append(out[-1500:])
        m = re.search(r'File "[^"]*%s", line (\d+), characters' % re.escape(fname), out)
        err = out[out.find('Error'):].strip() if 'Error' in out else out.strip()
        err = ('timeout after %ds' % COQC_TIMEOUT) if rc == 124 else re.sub(r'\s+', ' ', err)[:600]
        blk = None
        if m and rc != 124:
            ln = int(m.group(1)) - 1
            blk = next((b for b in blocks if b[1] <= ln <= b[2] and b[0] in alive), None)
        if blk is None:
            # not inside a theorem (imports, a definition, a timeout): nothing of this file is established
            for name in sorted(alive, key=lambda n: [b[0] for b in blocks].index(n)):
                if name not in verdict:
                    verdict[name] = 'not checked: ' + err
                    failed.append(name)
            return verdict, failed
        verdict[blk[0]] = 'FAILED: ' + err
        failed.append(blk[0])
        alive.discard(blk[0])
        for k in range(blk[1], blk[2] + 1):
            work[k] = ''
    else:
        return {'<file %s>' % fname: 'did not converge'}, ['<file %s>' % fname]

    # Print Assumptions for every surviving theorem that asks for it
    todo = [n for n in wanted if n in alive]

    def one(args):
        i, name = args
        f = 'pa_%s_%d.v' % (mod, i)
        open(os.path.join(gen, f), 'w').write('Require Import VerifGen.%s.\nPrint Assumptions %s.\n' % (mod, name))
        rc, out, dt = coqc(gen, f, timeout=120)
        for ext in ('.v', '.vo', '.vok', '.vos', '.glob'):
            try:
                os.remove(os.path.join(gen, f[:-2] + ext))
            except OSError:
                pass
        aux = os.path.join(gen, '.' + f[:-2] + '.aux')
        if os.path.exists(aux):
            os.remove(aux)
        if rc != 0:
            return name, 'Print Assumptions failed: ' + re.sub(r'\s+', ' ', out)[-400:]
        if 'Closed under the global context' in out:
            return name, 'closed'
        return name, re.sub(r'\s+', ' ', out[out.find('Axioms:'):] if 'Axioms:' in out else out).strip()[:400]

    with concurrent.futures.ThreadPoolExecutor(max_workers=PA_JOBS) as ex:
        for name, v in ex.map(one, list(enumerate(todo))):
            verdict[name] = v
            if v != 'closed':
                failed.append(name)
    return verdict, failed


# ----------------------------------------------------------------------------- main entry
def run(repo, pid, workdir=None):
    t0 = time.time()
    repo = os.path.abspath(repo)
    workdir = workdir or default_workdir(repo)
    gen = os.path.join(workdir, 'Gen')
    os.makedirs(gen, exist_ok=True)
    log = []
    res = {'pid': pid, 'repo': repo, 'workdir': workdir, 'translated': [], 'translator_failed': [], 'theorems': {},
           'failed_theorems': [], 'files': files_for(pid), 'ok': False,
           'cmd': 'python3 lib/gentranslate.py %s --repo %s' % (pid, repo)}

    def done():
        res['wall_s'] = round(time.time() - t0, 2)
        res['log'] = '\n'.join(log)[-4000:]
        return res

    binary, blog = translator_binary()
    if binary is None:
        log.append(blog)
        res['translator_failed'] = [{'func': '*', 'reason': 'translator does not build'}]
        return done()

    def prepare():
        """(i) translate, (ii) compile Leaf.v and the shared tactics; returns the stamp of what is now in gen/."""
        # (i) translate
        rc, out, dt = sh([binary, '-repo', repo, '-out', gen], env=GOENV, timeout=120)
        log.append('translate rc=%d %.2fs' % (rc, dt))
        man_path = os.path.join(gen, 'manifest.json')
        if rc not in (0, 1) or not os.path.exists(man_path):
            log.append(out[-3000:])
            res['translator_failed'] = [{'func': '*', 'reason': 'translator crashed (rc=%d): %s' % (rc, out[-500:])}]
            return None
        man = json.load(open(man_path))
        res['translated'] = man['translated']
        res['helpers'] = man.get('helpers', [])
        res['translator_failed'] = man['translator_failed']
        if man['translator_failed']:
            log.append(out[-2000:])
        # (ii) Leaf.v and the shared tactics; skipped when nothing they depend on changed since the last run here
        leaf = open(os.path.join(gen, 'Leaf.v'), 'rb').read()
        tac = open(os.path.join(GENEQUIV, 'GenTac.v'), 'rb').read()
        base = os.stat(os.path.join(COQ, 'Model', 'Base.vo'))
        stamp = _sha(leaf, tac, '%d:%d' % (base.st_mtime_ns, base.st_size))
        stamp_path = os.path.join(gen, '.stamp')
        fresh = (os.path.exists(stamp_path) and open(stamp_path).read() == stamp and
                 os.path.exists(os.path.join(gen, 'Leaf.vo')) and os.path.exists(os.path.join(gen, 'GenTac.vo')))
        if not fresh:
            if os.path.exists(stamp_path):
                os.remove(stamp_path)
            if FORBIDDEN.search(strip_comments(leaf.decode())) or FORBIDDEN.search(strip_comments(tac.decode())):
                res['theorems'] = {'<Leaf.v / GenTac.v>': 'forbidden vernacular'}
                res['failed_theorems'] = ['<Leaf.v / GenTac.v>']
                return None
            shutil.copyfile(os.path.join(GENEQUIV, 'GenTac.v'), os.path.join(gen, 'GenTac.v'))
            for f in ('Leaf.v', 'GenTac.v'):
                rc, out, dt = coqc(gen, f)
                log.append('coqc %s rc=%d %.1fs' % (f, rc, dt))
                if rc != 0:
                    log.append(out[-3000:])
                    res['theorems'] = {'<%s>' % f: 'does not compile: ' + re.sub(r'\s+', ' ', out)[-600:]}
                    res['failed_theorems'] = ['<%s>' % f]
                    return None
            open(stamp_path, 'w').write(stamp)
        else:
            log.append('Leaf.vo / GenTac.vo up to date')

        return stamp

    with open(os.path.join(workdir, '.lock'), 'w') as lk:
        # Translating and compiling Leaf.v / GenTac.v is exclusive per repository; checking the property files then
        # only needs Leaf.vo to stay what it is (shared lock) plus an exclusive lock per GenEquiv file.
        for _attempt in range(5):
            fcntl.flock(lk, fcntl.LOCK_EX)
            stamp = prepare()
            if stamp is None:
                return done()
            fcntl.flock(lk, fcntl.LOCK_SH)      # not atomic: somebody may have re-translated in between
            sp = os.path.join(gen, '.stamp')
            if os.path.exists(sp) and open(sp).read() == stamp:
                break
        else:
            log.append('the generated definitions kept changing under us')
            res['theorems'] = {'<Leaf.v>': 'work directory is being rewritten by concurrent runs on a changing tree'}
            res['failed_theorems'] = ['<Leaf.v>']
            return done()
        # (iii) the property's theorems
        text = ''

        def one_file(f):
            with open(os.path.join(workdir, '.%s.lock' % f), 'w') as flk:
                fcntl.flock(flk, fcntl.LOCK_EX)
                flog = []
                v, failed = check_file(gen, f, flog)
                return f, v, failed, flog

        with concurrent.futures.ThreadPoolExecutor(max_workers=4) as ex:
            results = list(ex.map(one_file, res['files']))
        for f, v, failed, flog in results:
            log.extend(flog)
            res['theorems'].update(v)
            res['failed_theorems'] += [n for n in failed if n not in res['failed_theorems']]
            text += open(os.path.join(GENEQUIV, f)).read()
        res['translator_failed_relevant'] = [x for x in res['translator_failed']
                                             if x['func'] == '*' or re.search(r'\b%s\b' % re.escape(x['func']), text)]
        res['closed'] = sum(1 for v in res['theorems'].values() if v == 'closed')
        res['ok'] = not res['failed_theorems'] and not res['translator_failed_relevant']
        if not res['files']:
            res['note'] = 'no translated leaf function belongs to %s' % pid
    return done()


def main():
    import argparse
    ap = argparse.ArgumentParser()
    ap.add_argument('pid')
    ap.add_argument('--repo', default=os.environ.get('VERIF_REPO', '/repo'))
    ap.add_argument('--workdir', default=None)
    a = ap.parse_args()
    r = run(a.repo, a.pid, a.workdir)
    json.dump(r, sys.stdout, indent=1)
    sys.stdout.write('\n')
    sys.exit(0 if r['ok'] else 1)


if __name__ == '__main__':
    main()

"""Source digests of the repository under verification (DESIGN.md §2.4 "changed-source boost").

lib/baseline_digests.json records, for the tree on which the checks were last validated, the sha256 of every
non-test Go file and, per property, the repository directories its harness packages depend on (go list -deps).
On every run the driver compares the working tree with that record; when a file a property depends on differs, the
differential search for that property is enlarged (a second pass with another seed and a larger sample).  The record
never decides a verdict: it only chooses how hard to search, so a stale record costs time, not soundness.
"""
import os, json, hashlib, subprocess

HERE = os.path.dirname(os.path.abspath(__file__))
BASELINE = os.path.join(HERE, 'baseline_digests.json')


def _tracked_go_files(repo):
    try:
        out = subprocess.run(['git', '-C', repo, 'ls-files', '-co', '--exclude-standard', '*.go'],
                             stdout=subprocess.PIPE, stderr=subprocess.DEVNULL, text=True, timeout=60).stdout
        files = [l for l in out.splitlines() if l]
    except Exception:  # noqa: BLE001
        files = []
    if not files:
        for d, _, fs in os.walk(repo):
            if '/.git' in d:
                continue
            files += [os.path.relpath(os.path.join(d, f), repo) for f in fs if f.endswith('.go')]
    return sorted(f for f in files if not f.endswith('_test.go') and not os.path.basename(f).startswith('zz_verif_'))


def digests(repo):
    res = {}
    for f in _tracked_go_files(repo):
        p = os.path.join(repo, f)
        try:
            res[f] = hashlib.sha256(open(p, 'rb').read()).hexdigest()
        except OSError:
            pass
    return res


def dep_dirs(repo, pkgs, goenv):
    """Repository-relative directories of the in-module packages that the given package directories depend on."""
    dirs = set()
    for pkg in sorted(set(pkgs)):
        dirs.add(pkg.strip('./'))
        p = subprocess.run(['go', 'list', '-deps', '-f', '{{.Dir}}', './' + pkg + '/'], cwd=repo, env=goenv,
                           stdout=subprocess.PIPE, stderr=subprocess.DEVNULL, text=True, timeout=300)
        for l in p.stdout.splitlines():
            l = l.strip()
            if l.startswith(repo.rstrip('/') + '/'):
                dirs.add(os.path.relpath(l, repo))
    return sorted(dirs)


def record(repo, specs, goenv):
    data = {'files': digests(repo), 'deps': {}}
    try:
        data['head'] = subprocess.run(['git', '-C', repo, 'rev-parse', 'HEAD'], stdout=subprocess.PIPE, text=True).stdout.strip()
    except Exception:  # noqa: BLE001
        data['head'] = ''
    for pid, spec in sorted(specs.items()):
        data['deps'][pid] = dep_dirs(repo, [p['pkg'] for p in spec['parts']], goenv)
    json.dump(data, open(BASELINE, 'w'), indent=0, sort_keys=True)
    return data


def changed_for(repo, pid):
    """Files of the property's dependency directories whose content differs from the recorded baseline
    (changed, added or removed). Returns (list, note)."""
    if not os.path.exists(BASELINE):
        return [], 'no baseline recorded'
    base = json.load(open(BASELINE))
    deps = base.get('deps', {}).get(pid)
    cur = digests(repo)
    old = base.get('files', {})
    ch = sorted(f for f in set(cur) | set(old) if cur.get(f) != old.get(f))
    if deps is not None:
        ds = set(deps)
        ch = [f for f in ch if os.path.dirname(f) in ds]
    return ch, 'baseline head %s' % base.get('head', '')[:7]

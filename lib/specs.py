"""Per-property specifications for the check driver."""

SPECS = {}
NOT_APPLICABLE = {}

SPECS['C16'] = {
    'title': 'Only the active instance and destination writers transmit, on an agreed schedule',
    'coq_check': 'C16_check',
    'parts': [
        {'pkg': 'internal/plugincommon', 'pkgname': 'plugincommon',
         'src': 'harness/internal/plugincommon/c16_test.go', 'test': 'TestVerif_C16_sched',
         'sinks': {'C16_sched': 'sched_judge'}, 'n': {'quick': 400, 'thorough': 20000}},
    ],
    'rule': 'sched: oracle-id sets of size 0..31 (uint8 ids) with writer pattern classes none/one/some/all/err/big, '
            'each evaluated in two random orders; non-trivial = >=2 oracles and >=1 destination writer; distinct by full input',
    'trusted': ['ChainSupport.SupportsDestChain answers are an oracle (scripted fake)',
                'time.Duration multiplication assumed not to overflow int64 (mult <= 5s, <= 256 oracles)'],
    'assumptions': ['libocr hands every oracle the same outcome bytes; oracleIDToP2PID has the same key set on every oracle'],
    'level_text': 'Proof: 10 Coq theorems (schedule order-independence over all permutations, exact membership/ordering/delays, '
                  'error iff no writer, candidate and non-writer never transmit, empty reports never accepted) over the executable model; '
                  'correspondence: GetTransmissionSchedule, Plugin.Reports and the accept/transmit callbacks of both plugins run against the model on generated configurations every run',
    'level_note': 'Trusted: Coq kernel, hand-written model, differential harness. Codec decode results, curse reads and home-chain answers are model inputs (oracles). No axioms.',
    'modelled': 'GetTransmissionSchedule, commit/execute ShouldTransmitAcceptedReport gates, empty-report gates; '
                'codec decode results and curse reads are inputs of the model',
}

#!/usr/bin/env python3
"""genlocks — third tie between the Coq development and the Go sources: the lock discipline.

On every call /verif/locks extracts, from the *current* Go sources of `repo`, the action programs (Lock / RLock /
Unlock / field reads and writes / channel operations, with branching and loops) of every method of the receiver
types in its table (homeChainPoller, rmnHomePoller, msgQueue, inMemTokenDataCache) into Gen/LocksGen.v, and the
theorems of coq/GenEquiv/<pid>_locks_gen.v — the decidable check `well_locked` on the extracted programs and the
general interleaving theorem of Proofs/LocksP.v instantiated with them — are re-checked against that fresh file.

    run(repo, pid, workdir=None) -> {
        'extracted': [object names], 'translator_failed': [{'func', 'reason'}],
        'theorems': {name: 'closed' | <text>}, 'failed_theorems': [names], 'ok': bool, 'log': tail, ...}

    python3 lib/genlocks.py <pid> [--repo DIR] [--workdir DIR]      prints the dict as JSON, exit 0 / 1

Same conventions as gentranslate.py (whose per-theorem checker is reused): work directory build/gen/<sha1 of the
repository path>/Gen, file locks, the extractor binary is built once per version of its sources into build/gen/bin/.
Assumes /verif/coq has been built; Model/Locks.vo and Proofs/LocksP.vo are (re)built here when they are missing or
older than their sources.
"""
import concurrent.futures
import fcntl
import json
import os
import re
import sys
import time

sys.path.insert(0, os.path.dirname(os.path.abspath(__file__)))
import gentranslate as gt  # noqa: E402

ROOT = gt.ROOT
COQ = gt.COQ
GENEQUIV = gt.GENEQUIV
LOCKS = os.path.join(ROOT, 'locks')
GENROOT = gt.GENROOT

# which GenEquiv files belong to a property
PID_FILES = {
    'C18': ['C18_locks_gen.v'],
    'C19': ['C19_locks_gen.v'],
}


def files_for(pid):
    return [f for f in PID_FILES.get(pid, []) if os.path.exists(os.path.join(GENEQUIV, f))]


def extractor_binary():
    """Build /verif/locks once per version of its sources; returns (path | None, log)."""
    srcs = sorted(f for f in os.listdir(LOCKS) if f.endswith('.go') or f == 'go.mod')
    ver = gt._sha(*[open(os.path.join(LOCKS, f), 'rb').read() for f in srcs])[:16]
    bindir = os.path.join(GENROOT, 'bin')
    os.makedirs(bindir, exist_ok=True)
    path = os.path.join(bindir, 'locks-' + ver)
    if os.path.exists(path):
        return path, ''
    with open(os.path.join(bindir, '.locks.lock'), 'w') as lk:
        fcntl.flock(lk, fcntl.LOCK_EX)
        if os.path.exists(path):
            return path, ''
        tmp = '%s.tmp%d' % (path, os.getpid())
        rc, out, _ = gt.sh(['go', 'build', '-o', tmp, '.'], cwd=LOCKS, env=gt.GOENV, timeout=600)
        if rc != 0:
            return None, 'go build of /verif/locks failed (rc=%d):\n%s' % (rc, out[-3000:])
        os.rename(tmp, path)
    return path, ''


def ensure_models(log):
    """Model/Locks.vo and Proofs/LocksP.vo must be there and not older than their sources."""
    for rel in ('Model/Locks', 'Proofs/LocksP'):
        v, vo = os.path.join(COQ, rel + '.v'), os.path.join(COQ, rel + '.vo')
        if os.path.exists(vo) and os.stat(vo).st_mtime_ns >= os.stat(v).st_mtime_ns:
            continue
        with open(os.path.join(GENROOT, '.locks_models.lock'), 'w') as lk:
            fcntl.flock(lk, fcntl.LOCK_EX)
            if os.path.exists(vo) and os.stat(vo).st_mtime_ns >= os.stat(v).st_mtime_ns:
                continue
            rc, out, dt = gt.sh(['timeout', str(gt.COQC_TIMEOUT), 'coqc', '-Q', COQ, 'Verif', '-w', '-notation-overridden',
                                 rel + '.v'], cwd=COQ, timeout=gt.COQC_TIMEOUT + 30)
            log.append('coqc %s.v rc=%d %.1fs' % (rel, rc, dt))
            if rc != 0:
                log.append(out[-3000:])
                return '%s.v does not compile: %s' % (rel, re.sub(r'\s+', ' ', out)[-600:])
    return None


def run(repo, pid, workdir=None):
    t0 = time.time()
    repo = os.path.abspath(repo)
    workdir = workdir or gt.default_workdir(repo)
    gen = os.path.join(workdir, 'Gen')
    os.makedirs(gen, exist_ok=True)
    log = []
    res = {'pid': pid, 'repo': repo, 'workdir': workdir, 'extracted': [], 'translator_failed': [], 'theorems': {},
           'failed_theorems': [], 'files': files_for(pid), 'ok': False, 'translator_failed_relevant': [],
           'cmd': 'python3 lib/genlocks.py %s --repo %s' % (pid, repo)}

    def done():
        res['wall_s'] = round(time.time() - t0, 2)
        res['log'] = '\n'.join(log)[-4000:]
        return res

    if not res['files']:
        res['ok'] = True
        res['note'] = 'no lock discipline is extracted for %s' % pid
        return done()

    binary, blog = extractor_binary()
    if binary is None:
        log.append(blog)
        res['translator_failed'] = res['translator_failed_relevant'] = [{'func': '*', 'reason': 'extractor does not build'}]
        return done()
    err = ensure_models(log)
    if err:
        res['theorems'] = {'<Locks.v / LocksP.v>': err}
        res['failed_theorems'] = ['<Locks.v / LocksP.v>']
        return done()

    def prepare():
        rc, out, dt = gt.sh([binary, '-repo', repo, '-out', gen], env=gt.GOENV, timeout=120)
        log.append('locks rc=%d %.2fs' % (rc, dt))
        man_path = os.path.join(gen, 'locks_manifest.json')
        if rc not in (0, 1) or not os.path.exists(man_path):
            log.append(out[-3000:])
            res['translator_failed'] = res['translator_failed_relevant'] = \
                [{'func': '*', 'reason': 'extractor crashed (rc=%d): %s' % (rc, out[-500:])}]
            return None
        man = json.load(open(man_path))
        res['extracted'] = man['extracted']
        res['objects'] = {o['name']: {'methods': o['methods'], 'lock_held_helpers': o['lock_held_helpers']}
                          for o in man['objects']}
        res['translator_failed'] = man['translator_failed']
        if man['translator_failed']:
            log.append(out[-2000:])
        src = open(os.path.join(gen, 'LocksGen.v'), 'rb').read()
        dep = [os.stat(os.path.join(COQ, p)) for p in ('Model/Locks.vo', 'Proofs/LocksP.vo')]
        stamp = gt._sha(src, *['%d:%d' % (s.st_mtime_ns, s.st_size) for s in dep])
        stamp_path = os.path.join(gen, '.locks_stamp')
        fresh = (os.path.exists(stamp_path) and open(stamp_path).read() == stamp and
                 os.path.exists(os.path.join(gen, 'LocksGen.vo')))
        if not fresh:
            if os.path.exists(stamp_path):
                os.remove(stamp_path)
            if gt.FORBIDDEN.search(gt.strip_comments(src.decode())):
                res['theorems'] = {'<LocksGen.v>': 'forbidden vernacular'}
                res['failed_theorems'] = ['<LocksGen.v>']
                return None
            rc, out, dt = gt.coqc(gen, 'LocksGen.v')
            log.append('coqc LocksGen.v rc=%d %.1fs' % (rc, dt))
            if rc != 0:
                log.append(out[-3000:])
                res['theorems'] = {'<LocksGen.v>': 'does not compile: ' + re.sub(r'\s+', ' ', out)[-600:]}
                res['failed_theorems'] = ['<LocksGen.v>']
                return None
            open(stamp_path, 'w').write(stamp)
        else:
            log.append('LocksGen.vo up to date')
        return stamp

    with open(os.path.join(workdir, '.locks.lock'), 'w') as lk:
        for _attempt in range(5):
            fcntl.flock(lk, fcntl.LOCK_EX)
            stamp = prepare()
            if stamp is None:
                return done()
            fcntl.flock(lk, fcntl.LOCK_SH)
            sp = os.path.join(gen, '.locks_stamp')
            if os.path.exists(sp) and open(sp).read() == stamp:
                break
        else:
            res['theorems'] = {'<LocksGen.v>': 'work directory is being rewritten by concurrent runs on a changing tree'}
            res['failed_theorems'] = ['<LocksGen.v>']
            return done()

        def one_file(f):
            with open(os.path.join(workdir, '.%s.lock' % f), 'w') as flk:
                fcntl.flock(flk, fcntl.LOCK_EX)
                flog = []
                v, failed = gt.check_file(gen, f, flog)
                return f, v, failed, flog

        text = ''
        with concurrent.futures.ThreadPoolExecutor(max_workers=4) as ex:
            results = list(ex.map(one_file, res['files']))
        for f, v, failed, flog in results:
            log.extend(flog)
            res['theorems'].update(v)
            res['failed_theorems'] += [n for n in failed if n not in res['failed_theorems']]
            text += open(os.path.join(GENEQUIV, f)).read()
        res['translator_failed_relevant'] = [x for x in res['translator_failed']
                                             if x['func'] == '*' or re.search(r'\b%s\b' % re.escape(x['func']), text)]
        res['closed'] = sum(1 for v in res['theorems'].values() if v == 'closed')
        res['ok'] = not res['failed_theorems'] and not res['translator_failed_relevant']
    return done()


def main():
    import argparse
    ap = argparse.ArgumentParser()
    ap.add_argument('pid')
    ap.add_argument('--repo', default=os.environ.get('VERIF_REPO', '/repo'))
    ap.add_argument('--workdir', default=None)
    a = ap.parse_args()
    r = run(a.repo, a.pid, a.workdir)
    json.dump(r, sys.stdout, indent=1)
    sys.stdout.write('\n')
    sys.exit(0 if r['ok'] else 1)


if __name__ == '__main__':
    main()

"""C17 check specification (see lib/specs/__init__.py for the field reference)."""

SPEC = {
    'id': 'C17',
    'title': 'Execute observations fit the size limit and stay consistent when truncated',
    'coq_check': 'C17_check',
    'parts': [
        {'pkg': 'execute', 'src': 'harness/execute/c17_test.go', 'test': 'TestVerif_C17_trunc', 'fakes': True,
         'sinks': {'C17_trunc': 'trunc_judge'}, 'n': {'quick': 400, 'thorough': 12000}},
        {'pkg': 'execute', 'src': 'harness/execute/c17_test.go', 'test': 'TestVerif_C17_step', 'fakes': True,
         'sinks': {'C17_step': 'step_judge'}, 'n': {'quick': 800, 'thorough': 24000}},
        {'pkg': 'execute', 'src': 'harness/execute/c17_test.go', 'test': 'TestVerif_C17_observation', 'fakes': True,
         'sinks': {'C17_observation': 'trunc_judge'}, 'n': {'quick': 40, 'thorough': 600}},
    ],
    'rule': 'observations with 1..4 chains (class deep: 1..2 chains with 3..5 reports), 0..5 commit reports per chain '
            '(adjacent or with holes), 0..3 messages per report of 20..1500 data bytes, token data with and without a message, '
            'messages outside every report, a chain with messages / nonces but no reports, costly ids spread over the chains '
            '(shuffled; classes: repeated id, foreign id, nil slice). trunc: truncateObservation with the real Encode at 6 limits '
            'per observation (4 taken from the encoded sizes met on the cut path +-1, one extreme, one at the full size); the '
            'harness finds a cut sequence (Go map order is free after the first cut) that explains the answer and the model replays it '
            'with the real encoded sizes. step: truncateLastCommit / truncateChain on a present, empty, absent or report-less chain. '
            'observation: execute.Plugin.Observation in the GetMessages phase (real plugin, scripted reader, pending reports of 1..3 chains, '
            'costly flags on a third of the messages; contract discovery processor disabled / enabled with 0, 3 or ~300 discovered source '
            'chains and contracts initialised). Classes: far below, far above, one report too big, and three calibrated by padding one message: '
            'the observation WITHOUT the discovery data ends less than the discovery data\'s size below the limit (the whole one is above), '
            'just above it, or the whole observation ends 0..2 bytes below it. The limit is the package constant maxObservationLength = 1 MiB '
            '(what ReportingPluginInfo advertises; it cannot be lowered through the constructor, so every case encodes ~1 MiB several times: '
            '40 cases in the quick tier). Executable property: len(bytes returned) <= the limit and the decoded observation is consistent. '
            'non-trivial = at least one cut (trunc), chain with reports (step); distinct by full input',
    'trusted': ['encoded size: the real exectypes.Observation.Encode length, measured by the harness on its own projection of the '
                'original observation for every observation on the witness path (the theorems hold for any size function)',
                'Go map iteration yields an existing key (hypothesis of C17_terminates); which key is free'],
    'assumptions': ['message ids are compared as byte strings (interned); an empty inner map and an absent key are identified'],
    'level_text': 'Proof: Coq theorems over the executable model of truncateObservation / truncateLastCommit / truncateChain for ANY size '
                  'function, ANY limit and ANY choice of the next chain: result fits; error only after every measured observation was too big; '
                  'termination without panic; the result is exactly the original projected on the commit reports left (messages, token data, '
                  'costly ids, nonces), reports left are prefixes; refutation theorems for the code before the F20 repair. '
                  'Correspondence: the three functions against the model with real encoded sizes every run',
    'level_note': 'Trusted: Coq kernel, hand-written model, differential harness (incl. its size projection and witness-path search). No axioms. '
                  'Not covered: the GetCommitReports and Filter phases do not truncate (C17_other_phases_partial, stated only); '
                  'Plugin.Observation is driven end to end in the GetMessages phase only (sink C17_observation, limit = the package constant maxObservationLength).',
    'modelled': 'truncateObservation, truncateLastCommit, truncateChain, removeCostlyMessages; Encode is an input (size table). In the '
                'Plugin.Observation part `size` is the encoded size of the WHOLE emitted observation (discovery data included): C17_fits is read with that size',
}

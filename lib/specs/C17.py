"""C17 check specification (see lib/specs/__init__.py for the field reference)."""

SPEC = {
    'id': 'C17',
    'title': 'Execute observations fit the size limit and stay consistent when truncated',
    'coq_check': 'C17_check',
    'parts': [
        {'pkg': 'execute', 'src': 'harness/execute/c17_test.go', 'test': 'TestVerif_C17_trunc', 'fakes': True,
         'sinks': {'C17_trunc': 'trunc_judge'}, 'n': {'quick': 400, 'thorough': 12000}},
        {'pkg': 'execute', 'src': 'harness/execute/c17_test.go', 'test': 'TestVerif_C17_step', 'fakes': True,
         'sinks': {'C17_step': 'step_judge'}, 'n': {'quick': 800, 'thorough': 24000}},
        {'pkg': 'execute', 'src': 'harness/execute/c17_test.go', 'test': 'TestVerif_C17_observation', 'fakes': True,
         'sinks': {'C17_observation': 'trunc_judge'}, 'n': {'quick': 40, 'thorough': 600}},
    ],
    'rule': 'observations with 1..4 chains (class deep: 1..2 chains with 3..5 reports), 0..5 commit reports per chain '
            '(adjacent or with holes), 0..3 messages per report of 20..1500 data bytes, token data with and without a message, '
            'messages outside every report, a chain with messages / nonces but no reports, costly ids spread over the chains '
            '(shuffled; classes: repeated id, foreign id, nil slice). trunc: truncateObservation with the real Encode at 6 limits '
            'per observation (4 taken from the encoded sizes met on the cut path +-1, one extreme, one at the full size); the '
            'harness finds a cut sequence (Go map order is free after the first cut) that explains the answer and the model replays it '
            'with the real encoded sizes. step: truncateLastCommit / truncateChain on a present, empty, absent or report-less chain. '
            'observation: execute.Plugin.Observation in the GetMessages phase (real plugin, scripted reader, pending reports of 1..3 chains, '
            'costly flags on a third of the messages; contract discovery processor disabled / enabled with 0, 3 or ~300 discovered source '
            'chains and contracts initialised). Classes: far below, far above, one report too big, and three calibrated by padding one message: '
            'the observation WITHOUT the discovery data ends less than the discovery data\'s size below the limit (the whole one is above), '
            'just above it, or the whole observation ends 0..2 bytes below it. The limit is the package constant maxObservationLength = 1 MiB '
            '(what ReportingPluginInfo advertises; it cannot be lowered through the constructor, so every case encodes ~1 MiB several times: '
            '40 cases in the quick tier). Executable property: len(bytes returned) <= the limit and the decoded observation is consistent. '
            'non-trivial = at least one cut (trunc), chain with reports (step); distinct by full input',
    'trusted': ['encoded size: the real exectypes.Observation.Encode length, measured by the harness on its own projection of the '
                'original observation for every observation on the witness path (the theorems hold for any size function)',
                'Go map iteration yields an existing key (hypothesis of C17_terminates); which key is free'],
    'assumptions': ['message ids are compared as byte strings (interned); an empty inner map and an absent key are identified'],
    'level_text': 'Proof: 19 closed Coq theorems. 9 property theorems over the executable model of truncateObservation / truncateLastCommit / truncateChain for ANY size '
                  'function, ANY limit and ANY choice of the next chain (Go map order): the result fits (C17_fits); an error only after every measured observation, down '
                  'to the last one, was too big (C17_error_only_if_nothing_fits); termination without panic (C17_terminates); the result is exactly the original '
                  'projected on the commit reports left - messages, token data, costly ids, nonces - and the reports left are prefixes (C17_consistent, _messages, '
                  '_token_data, _costly). Unrepaired code refuted (F20, repaired in /repo): truncateChain deleted the costly flags of all chains '
                  '(C17_unfixed_wrong_chain_refuted) and panicked when two costly ids matched (C17_unfixed_panics_refuted). Judge soundness (10 C17_judge_*): the '
                  "executable property accepts the model's output and implies fits / consistent on the implementation's own answer and REAL encoded size; an Err answer "
                  'must satisfy the full nothing-fits conclusion along a complete witness path (strengthened: C17_judge_trunc_before_weak). Correspondence, every run: '
                  'the three real functions with the real Observation.Encode sizes at limits taken from the sizes met on the cut path +-1 (the harness finds the cut '
                  'sequence that explains the answer, the model replays it); truncateLastCommit / truncateChain on present, empty, absent and report-less chains; '
                  'execute.Plugin.Observation in the GetMessages phase end to end at the package limit maxObservationLength = 1 MiB, with and without discovery data. No '
                  'translated leaf function. Partial: the token-data component of consistency is proved under the premise that token data sit under message keys (the '
                  'harness also builds orphans; there the weaker clause is judged); the GetCommitReports and Filter phases do not truncate (noted in Props/C17.v, not a '
                  'theorem).',
    'level_note': 'Trusted: Coq kernel, hand-written model and theorem statements, differential harness incl. its size projection and witness-path search. Specific: the '
                  'encoded size is the real exectypes.Observation.Encode length measured by the harness for every observation on the witness path (the theorems hold for '
                  'any size function); Go map iteration yields an existing key (hypothesis of C17_terminates), which one is free; message ids are compared as interned '
                  'byte strings, an empty inner map and an absent key are identified. Plugin.Observation is driven in the GetMessages phase only; the limit cannot be '
                  'lowered through the constructor. No axioms.',
    'technique': 'Coq theorems for any size function, limit and map order (fits, consistent projection, error only if nothing fits, termination) over a hand-written '
                 "Gallina model; differential correspondence with proved judge replaying the implementation's cut path with real encoded sizes, plus Plugin.Observation "
                 'at the 1 MiB limit',
    'modelled': 'truncateObservation, truncateLastCommit, truncateChain, removeCostlyMessages; Encode is an input (size table). In the Plugin.Observation part `size` '
                'is the encoded size of the WHOLE emitted observation (discovery data included): C17_fits is read with that size. Hand model: Model/Truncate.v; nothing '
                'of this property is translated from source. Inputs of the model: the size table of the observations on the witness path and the sequence of chains '
                "Go's map iteration picked (found by the harness)",
}

"""C09 check specification (see lib/specs/__init__.py for the field reference)."""

SPEC = {
    'id': 'C09',
    'title': 'Execute history: pending messages are neither lost nor re-executed',
    'coq_check': 'C09_check',
    'parts': [
        {'pkg': 'execute', 'src': 'harness/execute/c09_test.go', 'test': 'TestVerif_C09_ranges', 'fakes': True,
         'sinks': {'C09_ranges': 'ranges_judge'}, 'n': {'quick': 400, 'thorough': 12000}},
        {'pkg': 'execute', 'src': 'harness/execute/c09_test.go', 'test': 'TestVerif_C09_filter', 'fakes': True,
         'sinks': {'C09_filter': 'filter_judge'}, 'n': {'quick': 1500, 'thorough': 45000}},
        {'pkg': 'execute', 'src': 'harness/execute/c09_test.go', 'test': 'TestVerif_C09_filter_exhaustive', 'fakes': True,
         'sinks': {'C09_filter_all': 'filter_judge'}, 'n': {'quick': 900, 'thorough': 60000}},
        {'pkg': 'execute', 'src': 'harness/execute/c09_test.go', 'test': 'TestVerif_C09_pending', 'fakes': True,
         'sinks': {'C09_pending': 'pend_judge'}, 'n': {'quick': 400, 'thorough': 12000}},
        {'pkg': 'execute', 'src': 'harness/execute/c09_test.go', 'test': 'TestVerif_C09_observe', 'fakes': True,
         'sinks': {'C09_observe': 'pend_judge'}, 'n': {'quick': 6, 'thorough': 60}},
        {'pkg': 'execute', 'src': 'harness/execute/c09_test.go', 'test': 'TestVerif_C09_history_big', 'fakes': True,
         'sinks': {'C09_history_big': 'histmon_judge'}, 'n': {'quick': 1, 'thorough': 6}},
        {'pkg': 'execute', 'src': 'harness/execute/c09_test.go', 'test': 'TestVerif_C09_history', 'fakes': True,
         'sinks': {'C09_history': 'hist_judge'}, 'n': {'quick': 40, 'thorough': 1200}},
    ],
    'rule': 'layouts of 1..6 commit reports of one chain, lengths 1..8, adjacent / holes / mixed / near 2^64 / overlapping / '
            'next-starts-on-previous-end, given in order or shuffled; executed sets none / all / random 30% / 70% / prefix / suffix / '
            'one report / all but one / report edges / runs from inside one report into the next or the one after / strict inside; '
            'reader shapes one range per message (unordered and ordered), merged runs, chunks, repeated messages, runs split on a '
            'shared number, and (filter part only) overlapping, start>end and beyond-the-query ranges. '
            'filter_all: enumeration of all layouts of <= 3 reports of length <= 3 with holes 0..1 x all executed subsets x 3 shapes '
            '(a prefix of the enumeration in the quick tier). pending: getPendingExecutedReports over 1..3 chains with commit '
            'reports carrying one or several roots, reader failures. observe: execute.Plugin.Observation in the GetCommitReports phase on backlogs of 13..22 partially executed reports of 3000..6000 messages '
            'numbered near 2^62, calibrated so that the encoded observation ends just below, above and far above maxObservationLength (6 cases of ~1 MiB '
            'in the quick tier), judged like the pending part (executed set recorded = destination\'s executed set inside the interval, whatever the size). '
            'history_big: a history that starts with such an oversized backlog (small report + 11..13 reports of 5001 messages with 5000 executed), '
            'monitors only. history: the transmitted report is taken from execute.Plugin.Reports (decoded with the report codec), compared with the '
            'outcome\'s Report field and applied to the model off-ramp; 40 histories of 6..30 OCR rounds of four real execute.Plugin '
            'instances (F=1, one of them silent or sending garbage in half of the histories) over a world of 1..2 source chains where commit '
            'reports land (with holes), executions land from elsewhere (singly, out of order, across reports) and the DON\'s own reports land '
            'fully / partly / never; the reader answers per-message, merged, chunked, repeated and touching ranges; every round\'s outcome is '
            'compared with the model on the world snapshot of the cycle\'s first observation. non-trivial = >= 2 reports (ranges), non-empty executed set '
            '(filter), no scripted failure (pending), Filter rounds (history); distinct by full input',
    'trusted': ['CCIPReader.CommitReportsGTETimestamp / ExecutedMessageRanges answers are oracles (scripted fake); the legal answers '
                'considered are those whose ranges, sorted by start, each begin at or after the previous end',
                'sort.Slice on distinct start values (equal starts are not generated; Go gives no order for them)'],
    'assumptions': ['sequence-number ranges end below 2^64-1 in the harness (the model returns Spin for the non-terminating corner, F19)'],
    'level_text': 'Proof (function level): Coq theorems over the executable model of computeRanges, groupByChainSelector, '
                  'filterOutExecutedMessages and getPendingExecutedReports, with executed lists in closed form (runs): see Props/C09.v. '
                  'Correspondence: the three functions against the model and against an independent interval-arithmetic specification every run. '
                  'Cycle level: C09_never_reexecuted_cycle composes the pending filter with the C08 report builder (a message executed when the '
                  'cycle started is not eligible for that cycle\'s report). Liveness is PARTIAL and per round: C07_*_complete for the two merge rounds, '
                  'C09_liveness_filter_round_all_ready / _partial for the Filter round (a provable commit report whose all-ready chain report fits the '
                  'budget gets a chain report with every eligible nonce-0 message); not proved: that honest readers yield f+1 identical observations, '
                  'broken nonce chains, the greedy fallback. The history-level reading (never-reexecuted, pending-exact, one-cycle inclusion) is '
                  'monitored on real four-oracle histories under same-view / everything-ready conditions.',
    'level_note': 'Trusted: Coq kernel, hand-written model, differential harness. No axioms.',
    'modelled': 'computeRanges, groupByChainSelector, filterOutExecutedMessages, getPendingExecutedReports, and (for the cycle / liveness theorems) the report builder of Model/ExecReport.v; the reader is an input',
}

"""C09 check specification (see lib/specs/__init__.py for the field reference)."""

SPEC = {
    'id': 'C09',
    'title': 'Execute history: pending messages are neither lost nor re-executed',
    'coq_check': 'C09_check',
    'parts': [
        {'pkg': 'execute', 'src': 'harness/execute/c09_test.go', 'test': 'TestVerif_C09_ranges', 'fakes': True,
         'sinks': {'C09_ranges': 'ranges_judge'}, 'n': {'quick': 400, 'thorough': 12000}},
        {'pkg': 'execute', 'src': 'harness/execute/c09_test.go', 'test': 'TestVerif_C09_filter', 'fakes': True,
         'sinks': {'C09_filter': 'filter_judge'}, 'n': {'quick': 1500, 'thorough': 45000}},
        {'pkg': 'execute', 'src': 'harness/execute/c09_test.go', 'test': 'TestVerif_C09_filter_exhaustive', 'fakes': True,
         'sinks': {'C09_filter_all': 'filter_judge'}, 'n': {'quick': 900, 'thorough': 60000}},
        {'pkg': 'execute', 'src': 'harness/execute/c09_test.go', 'test': 'TestVerif_C09_pending', 'fakes': True,
         'sinks': {'C09_pending': 'pend_judge'}, 'n': {'quick': 400, 'thorough': 12000}},
        {'pkg': 'execute', 'src': 'harness/execute/c09_test.go', 'test': 'TestVerif_C09_observe', 'fakes': True,
         'sinks': {'C09_observe': 'pend_judge'}, 'n': {'quick': 6, 'thorough': 60}},
        {'pkg': 'execute', 'src': 'harness/execute/c09_test.go', 'test': 'TestVerif_C09_history_big', 'fakes': True,
         'sinks': {'C09_history_big': 'histmon_judge'}, 'n': {'quick': 1, 'thorough': 6}},
        {'pkg': 'execute', 'src': 'harness/execute/c09_test.go', 'test': 'TestVerif_C09_history', 'fakes': True,
         'sinks': {'C09_history': 'hist_judge'}, 'n': {'quick': 40, 'thorough': 1200}},
        {'pkg': 'execute', 'src': ['harness/execute/c09_test.go', 'harness/execute/c09h_test.go'], 'test': 'TestVerif_C09_cycles',
         'fakes': True, 'sinks': {'C09_cycles': 'cyc_judge'}, 'n': {'quick': 60, 'thorough': 900}},
        # the system-level part of C07 (harness/execute/execsys_test.go; described in lib/specs/C07.py 'rule'): cycles of real plugins with
        # deviating oracles and, in a tenth of the cycles, a destination reader failing for all but the last executed-range query of a chain;
        # judged by the end-to-end clauses incl. the ground truth 'nothing executed on the destination is reported' (known class 2 = F13e of C07
        # masks the liveness ground truth only and is not a C09 finding: it is listed as such below)
        {'pkg': 'execute', 'src': 'harness/execute/execsys_test.go', 'test': 'TestVerif_ExecSys', 'fakes': True,
         'coq_import': 'ExecSys_check',
         'sinks': {'ExecSys_cycle_0': 'sys_judge', 'ExecSys_cycle_1': 'sys_judge', 'ExecSys_cycle_2': 'sys_judge',
                   'ExecSys_cycle_3': 'sys_judge'},
         'n': {'quick': 160, 'thorough': 4000}},
    ],
    'known': {'1': 'F55'},
    'rule': 'cases with a sort-key tie (two different executed ranges, or two different reports of a chain, with the same start: garbage readers only) are compared with the model for no-crash only, because the sort.Slice of Go leaves the order of equal keys open; layouts of 1..6 commit reports of one chain, lengths 1..8, adjacent / holes / mixed / near 2^64 / overlapping / '
            'next-starts-on-previous-end, given in order or shuffled; executed sets none / all / random 30% / 70% / prefix / suffix / '
            'one report / all but one / report edges / runs from inside one report into the next or the one after / strict inside; '
            'reader shapes one range per message (unordered and ordered), merged runs, chunks, repeated messages, runs split on a '
            'shared number, and (filter part only) overlapping, start>end and beyond-the-query ranges. '
            'filter_all: enumeration of all layouts of <= 3 reports of length <= 3 with holes 0..1 x all executed subsets x 3 shapes '
            '(a prefix of the enumeration in the quick tier). pending: getPendingExecutedReports over 1..3 chains with commit '
            'reports carrying one or several roots, reader failures. observe: execute.Plugin.Observation in the GetCommitReports phase on backlogs of 13..22 partially executed reports of 3000..6000 messages '
            'numbered near 2^62, calibrated so that the encoded observation ends just below, above and far above maxObservationLength (6 cases of ~1 MiB '
            'in the quick tier), judged like the pending part (executed set recorded = destination\'s executed set inside the interval, whatever the size). '
            'history_big: a history that starts with such an oversized backlog (small report + 11..13 reports of 5001 messages with 5000 executed), '
            'monitors only. history: the transmitted report is taken from execute.Plugin.Reports (decoded with the report codec), compared with the '
            'outcome\'s Report field and applied to the model off-ramp; 40 histories of 6..30 OCR rounds of four real execute.Plugin '
            'instances (F=1, one of them silent or sending garbage in half of the histories) over a world of 1..2 source chains where commit '
            'reports land (with holes), executions land from elsewhere (singly, out of order, across reports) and the DON\'s own reports land '
            'fully / partly / never; the reader answers per-message, merged, chunked, repeated and touching ranges; every round\'s outcome is '
            'compared with the model on the world snapshot of the cycle\'s first observation. '
            'cycles (one case = one whole history): four LONG-LIVED execute.Plugin instances built once per history with NewPlugin (production '
            'constructor, contract discovery on; F=1; the fourth oracle honest / silent / garbage / lagging one cycle behind) run 5..12 complete cycles '
            'over ONE simulated destination of 1..3 source chains that changes between cycles - commit reports land at different times (several '
            'roots in one report = equal timestamps), the cycle\'s own report lands at once / partly / 2..4 cycles late / never, executions from '
            'elsewhere become visible, the clock moves (small steps, a quarter of the interval, exactly onto / one unit past the edge of the '
            'window of the oldest report still inside, past the whole window), sequenced messages become ready or stop being ready (nonce '
            'answers), global / destination / source curses come and go, source chains leave and re-enter the home-chain configuration - '
            'all of these at once, or one aspect only per history, or "pinned" (some message of the newest report stays not-ready and no report '
            'ever lands: the same messages are offered again every cycle). The reader honours and records the (timestamp lower bound, limit) '
            'arguments of CommitReportsGTETimestamp. Two clocks: two thirds of the histories age the destination (unit 1 minute, interval '
            '30..480 min: every report is presented with a timestamp relative to the real now); one third run on the REAL clock (unit 100 ms times the scheduling latency factor measured when the part starts, '
            'interval 0.5..1.2 s, absolute report timestamps, the harness sleeps to the scripted instants; a cycle that misses its slot because '
            'the machine is overloaded is run again with the unit doubled, twice at most, and only then discarded - class discarded-timing - rather than judged). Per cycle, judged in Coq against '
            'the model evaluated on the destination\'s CURRENT content: reader arguments, pending after GetCommitReports, messages of the '
            'transmitted report (Plugin.Reports decoded), pending after Filter; and by the executable history property cyc_ok (interval '
            'arithmetic, independent of the model): lower bound = current clock - interval and limit = 1000 for every observing oracle, none when '
            'globally / destination cursed; pending exact; NO LOSS: every unexecuted, ready message of a report inside the window of a live chain '
            'is in the cycle\'s report whatever happened to the earlier reports; nothing executed / not ready / outside the window / of a cursed '
            'or unknown chain is in it, nothing twice; pending after Filter exact. '
            'non-trivial = >= 2 reports (ranges), non-empty executed set '
            '(filter), no scripted failure (pending), Filter rounds (history), some cycle with a non-empty report (cycles); distinct by full input',
    'trusted': ['CCIPReader.CommitReportsGTETimestamp / ExecutedMessageRanges answers are oracles (scripted fake); the legal answers '
                'considered are those whose ranges, sorted by start, each begin at or after the previous end',
                'sort.Slice on distinct start values (equal starts are not generated; Go gives no order for them)',
                'cycles: time.Now is not injectable - the aged-clock histories shift the destination\'s timestamps instead of the clock (an '
                'implementation that remembers its OWN clock readings is only exposed by the real-clock histories); the off-ramp accepts a root '
                'only for a non-empty interval above everything committed for that source chain, executes only committed messages, and an '
                'execution report executes only messages it contains (model step function); Nonces / GetRmnCurseInfo / home-chain answers are '
                'scripted'],
    'assumptions': ['sequence-number ranges end below 2^64-1 in the harness (the model returns Spin for the non-terminating corner, F19)',
                    'cycles: honest oracles read the same destination within a cycle (it moves between cycles only), every committed message is '
                    'readable, no token data, nothing costly, everything fits the report limits, fewer than 1000 commit reports inside the window'],
    'level_text': 'Proof: 51 closed Coq theorems. 29 property theorems. Function level, executed lists in closed form: which reports stay pending and what they record '
                  'for every layout and legal executed-range answer (C09_filter_spec_*, C09_pending_exact), error iff overlapping ranges, C09_compute_ranges; '
                  'C09_never_reexecuted_cycle (with the C08 builder). History level (ExecCycles: state = destination content, events incl. commits, executions, curses, '
                  'roles, cycles), by induction over EVERY event list: C09_hist_pending_exact, C09_hist_candidates, C09_hist_never_reexecuted, C09_hist_no_loss (an '
                  'unexecuted, in-window, live, ready committed message is a candidate of EVERY later cycle whatever landed or failed to land), '
                  'C09_hist_cycle_memoryless. System level (ExecSys): C09_cycle_no_reexecution; C09_cycle_liveness - quorums f_dest+1 for the commit report, f_k+1 for '
                  'message and token slots, nonce 0, not executed, report fits => all three rounds succeed and the message is in the execute report whatever deviating '
                  'oracles send; the recorded findings F13e, F14, F55 and well-formedness of agreed reports are explicit hypotheses; C09_history_cycle extends it over '
                  'failed rounds. Unrepaired code refuted: F15, F75 (a poisoned key stalled every later round), F76 (two agreed versions of one report stalled '
                  'GetMessages); known: F55 (C09_liveness_oversized_report_refuted). Judge soundness (22 C09_judge_*): for every sink the executable property accepts the '
                  "model's output and implies the Prop-level clause. Correspondence, every run: computeRanges, filterOutExecutedMessages (incl. an exhaustive small "
                  'enumeration), getPendingExecutedReports, Plugin.Observation at the 1 MiB limit, four-oracle histories incl. oversized backlogs (C09_history, _big), '
                  'four long-lived execute.Plugin instances per history over 5..12 full cycles on one simulated destination (C09_cycles), the ExecSys cycle sinks. '
                  'Translation tie (7 theorems, C09_gen.v + C13_gen.v): computeRanges, Contains, PluginState.Next / IsValid. Partial: liveness is proved from '
                  'observation-level quorums; that honest readers of one destination produce f+1 identical observations is not a theorem (Plugin.Observation is an input '
                  'of ExecSys) - it is monitored on the real plugins against the harness ground truth.',
    'level_note': 'Trusted: Coq kernel, hand-written model and theorem statements, differential harness, leaf translator. Specific: CommitReportsGTETimestamp / '
                  'ExecutedMessageRanges answers are scripted oracles, the legal answers considered are those whose ranges sorted by start each begin at or after the '
                  "previous end; sort.Slice on distinct start values; time.Now is not injectable (aged-clock histories shift the destination's timestamps, real-clock "
                  'histories run as well); the destination is a MODEL (a root accepted only for a non-empty interval above everything committed for that source, only '
                  'committed messages execute); Nonces / curse / home-chain answers are scripted. Assumed: sequence-number ranges end below 2^64-1 (the model returns '
                  'Spin for the non-terminating corner, F19b / F71); cycle histories: honest oracles read the same destination within a cycle, everything fits the report '
                  'limits, fewer than 1000 commit reports in the window. Known finding F55 stays reported as KNOWN-FINDING (class 1). No axioms.',
    'technique': 'Coq theorems on three levels (closed-form pending filter; induction over destination histories in ExecCycles; three-round cycle composition ExecSys '
                 'with the C07 / C08 models) over a hand-written Gallina model; differential correspondence with proved judge incl. four long-lived execute plugins over '
                 'full cycles; computeRanges / PluginState.Next re-translated from Go',
    'modelled': 'computeRanges, groupByChainSelector, filterOutExecutedMessages, getPendingExecutedReports, and (for the cycle / liveness theorems) the report builder '
                'of Model/ExecReport.v; the reader is an input. History level: getCommitReportsObservation (fetchFrom from the current clock, curse gate, known '
                "non-cursed sources), the pending filter, the candidate set of the Filter round under everything-fits conditions, selectReport's still-pending rule; "
                'the destination (off-ramp commit / execute semantics) is a step function. System level (Model/ExecSys.v): Plugin.Outcome composed from the C07 merges, '
                'the pending filter and the C08 report builder; Plugin.Observation is an input there. Translated from source per run: execute.computeRanges '
                '(C09_gen.v), SeqNumRange.Contains, PluginState.Next / IsValid (C13_gen.v); filterOutExecutedMessages is refused by the translator (nested index-moving '
                'loops, in-place slice updates, a counting loop over wire-supplied uint64 bounds) and stays hand-modelled',
}

"""C09 check specification (see lib/specs/__init__.py for the field reference)."""

SPEC = {
    'id': 'C09',
    'title': 'Execute history: pending messages are neither lost nor re-executed',
    'coq_check': 'C09_check',
    'parts': [
        {'pkg': 'execute', 'src': 'harness/execute/c09_test.go', 'test': 'TestVerif_C09_ranges', 'fakes': True,
         'sinks': {'C09_ranges': 'ranges_judge'}, 'n': {'quick': 400, 'thorough': 12000}},
        {'pkg': 'execute', 'src': 'harness/execute/c09_test.go', 'test': 'TestVerif_C09_filter', 'fakes': True,
         'sinks': {'C09_filter': 'filter_judge'}, 'n': {'quick': 1500, 'thorough': 45000}},
        {'pkg': 'execute', 'src': 'harness/execute/c09_test.go', 'test': 'TestVerif_C09_filter_exhaustive', 'fakes': True,
         'sinks': {'C09_filter_all': 'filter_judge'}, 'n': {'quick': 900, 'thorough': 60000}},
        {'pkg': 'execute', 'src': 'harness/execute/c09_test.go', 'test': 'TestVerif_C09_pending', 'fakes': True,
         'sinks': {'C09_pending': 'pend_judge'}, 'n': {'quick': 400, 'thorough': 12000}},
        {'pkg': 'execute', 'src': 'harness/execute/c09_test.go', 'test': 'TestVerif_C09_observe', 'fakes': True,
         'sinks': {'C09_observe': 'pend_judge'}, 'n': {'quick': 6, 'thorough': 60}},
        {'pkg': 'execute', 'src': 'harness/execute/c09_test.go', 'test': 'TestVerif_C09_history_big', 'fakes': True,
         'sinks': {'C09_history_big': 'histmon_judge'}, 'n': {'quick': 1, 'thorough': 6}},
        {'pkg': 'execute', 'src': 'harness/execute/c09_test.go', 'test': 'TestVerif_C09_history', 'fakes': True,
         'sinks': {'C09_history': 'hist_judge'}, 'n': {'quick': 40, 'thorough': 1200}},
        {'pkg': 'execute', 'src': ['harness/execute/c09_test.go', 'harness/execute/c09h_test.go'], 'test': 'TestVerif_C09_cycles',
         'fakes': True, 'sinks': {'C09_cycles': 'cyc_judge'}, 'n': {'quick': 60, 'thorough': 900}},
        # the system-level part of C07 (harness/execute/execsys_test.go; described in lib/specs/C07.py 'rule'): cycles of real plugins with
        # deviating oracles and, in a tenth of the cycles, a destination reader failing for all but the last executed-range query of a chain;
        # judged by the end-to-end clauses incl. the ground truth 'nothing executed on the destination is reported' (known class 2 = F13e of C07
        # masks the liveness ground truth only and is not a C09 finding: it is listed as such below)
        {'pkg': 'execute', 'src': 'harness/execute/execsys_test.go', 'test': 'TestVerif_ExecSys', 'fakes': True,
         'coq_import': 'ExecSys_check',
         'sinks': {'ExecSys_cycle_0': 'sys_judge', 'ExecSys_cycle_1': 'sys_judge', 'ExecSys_cycle_2': 'sys_judge',
                   'ExecSys_cycle_3': 'sys_judge'},
         'n': {'quick': 160, 'thorough': 4000}},
    ],
    'known': {'1': 'F55'},
    'rule': 'layouts of 1..6 commit reports of one chain, lengths 1..8, adjacent / holes / mixed / near 2^64 / overlapping / '
            'next-starts-on-previous-end, given in order or shuffled; executed sets none / all / random 30% / 70% / prefix / suffix / '
            'one report / all but one / report edges / runs from inside one report into the next or the one after / strict inside; '
            'reader shapes one range per message (unordered and ordered), merged runs, chunks, repeated messages, runs split on a '
            'shared number, and (filter part only) overlapping, start>end and beyond-the-query ranges. '
            'filter_all: enumeration of all layouts of <= 3 reports of length <= 3 with holes 0..1 x all executed subsets x 3 shapes '
            '(a prefix of the enumeration in the quick tier). pending: getPendingExecutedReports over 1..3 chains with commit '
            'reports carrying one or several roots, reader failures. observe: execute.Plugin.Observation in the GetCommitReports phase on backlogs of 13..22 partially executed reports of 3000..6000 messages '
            'numbered near 2^62, calibrated so that the encoded observation ends just below, above and far above maxObservationLength (6 cases of ~1 MiB '
            'in the quick tier), judged like the pending part (executed set recorded = destination\'s executed set inside the interval, whatever the size). '
            'history_big: a history that starts with such an oversized backlog (small report + 11..13 reports of 5001 messages with 5000 executed), '
            'monitors only. history: the transmitted report is taken from execute.Plugin.Reports (decoded with the report codec), compared with the '
            'outcome\'s Report field and applied to the model off-ramp; 40 histories of 6..30 OCR rounds of four real execute.Plugin '
            'instances (F=1, one of them silent or sending garbage in half of the histories) over a world of 1..2 source chains where commit '
            'reports land (with holes), executions land from elsewhere (singly, out of order, across reports) and the DON\'s own reports land '
            'fully / partly / never; the reader answers per-message, merged, chunked, repeated and touching ranges; every round\'s outcome is '
            'compared with the model on the world snapshot of the cycle\'s first observation. '
            'cycles (one case = one whole history): four LONG-LIVED execute.Plugin instances built once per history with NewPlugin (production '
            'constructor, contract discovery on; F=1; the fourth oracle honest / silent / garbage / lagging one cycle behind) run 5..12 complete cycles '
            'over ONE simulated destination of 1..3 source chains that changes between cycles - commit reports land at different times (several '
            'roots in one report = equal timestamps), the cycle\'s own report lands at once / partly / 2..4 cycles late / never, executions from '
            'elsewhere become visible, the clock moves (small steps, a quarter of the interval, exactly onto / one unit past the edge of the '
            'window of the oldest report still inside, past the whole window), sequenced messages become ready or stop being ready (nonce '
            'answers), global / destination / source curses come and go, source chains leave and re-enter the home-chain configuration - '
            'all of these at once, or one aspect only per history, or "pinned" (some message of the newest report stays not-ready and no report '
            'ever lands: the same messages are offered again every cycle). The reader honours and records the (timestamp lower bound, limit) '
            'arguments of CommitReportsGTETimestamp. Two clocks: two thirds of the histories age the destination (unit 1 minute, interval '
            '30..480 min: every report is presented with a timestamp relative to the real now); one third run on the REAL clock (unit 100 ms times the scheduling latency factor measured when the part starts, '
            'interval 0.5..1.2 s, absolute report timestamps, the harness sleeps to the scripted instants; a cycle that misses its slot because '
            'the machine is overloaded is run again with the unit doubled, twice at most, and only then discarded - class discarded-timing - rather than judged). Per cycle, judged in Coq against '
            'the model evaluated on the destination\'s CURRENT content: reader arguments, pending after GetCommitReports, messages of the '
            'transmitted report (Plugin.Reports decoded), pending after Filter; and by the executable history property cyc_ok (interval '
            'arithmetic, independent of the model): lower bound = current clock - interval and limit = 1000 for every observing oracle, none when '
            'globally / destination cursed; pending exact; NO LOSS: every unexecuted, ready message of a report inside the window of a live chain '
            'is in the cycle\'s report whatever happened to the earlier reports; nothing executed / not ready / outside the window / of a cursed '
            'or unknown chain is in it, nothing twice; pending after Filter exact. '
            'non-trivial = >= 2 reports (ranges), non-empty executed set '
            '(filter), no scripted failure (pending), Filter rounds (history), some cycle with a non-empty report (cycles); distinct by full input',
    'trusted': ['CCIPReader.CommitReportsGTETimestamp / ExecutedMessageRanges answers are oracles (scripted fake); the legal answers '
                'considered are those whose ranges, sorted by start, each begin at or after the previous end',
                'sort.Slice on distinct start values (equal starts are not generated; Go gives no order for them)',
                'cycles: time.Now is not injectable - the aged-clock histories shift the destination\'s timestamps instead of the clock (an '
                'implementation that remembers its OWN clock readings is only exposed by the real-clock histories); the off-ramp accepts a root '
                'only for a non-empty interval above everything committed for that source chain, executes only committed messages, and an '
                'execution report executes only messages it contains (model step function); Nonces / GetRmnCurseInfo / home-chain answers are '
                'scripted'],
    'assumptions': ['sequence-number ranges end below 2^64-1 in the harness (the model returns Spin for the non-terminating corner, F19)',
                    'cycles: honest oracles read the same destination within a cycle (it moves between cycles only), every committed message is '
                    'readable, no token data, nothing costly, everything fits the report limits, fewer than 1000 commit reports inside the window'],
    'level_text': 'Proof (function level): Coq theorems over the executable model of computeRanges, groupByChainSelector, '
                  'filterOutExecutedMessages and getPendingExecutedReports, with executed lists in closed form (runs): see Props/C09.v. '
                  'Correspondence: the three functions against the model and against an independent interval-arithmetic specification every run. '
                  'Cycle level: C09_never_reexecuted_cycle composes the pending filter with the C08 report builder (a message executed when the '
                  'cycle started is not eligible for that cycle\'s report). Liveness is PARTIAL and per round: C07_*_complete for the two merge rounds, '
                  'C09_liveness_filter_round_all_ready / _partial for the Filter round (a provable commit report whose all-ready chain report fits the '
                  'budget gets a chain report with every eligible nonce-0 message); not proved: that honest readers yield f+1 identical observations, '
                  'broken nonce chains, the greedy fallback. The history-level reading (never-reexecuted, pending-exact, one-cycle inclusion) is '
                  'monitored on real four-oracle histories under same-view / everything-ready conditions. '
                  'History level (Model/ExecCycles.v, Proofs/ExecCyclesP.v; state = destination content, events = tick | commit | executions '
                  'visible | readiness | curses | roles | cycle with what lands at once), proved by induction over event lists for EVERY history: '
                  'C09_hist_cycle_memoryless (the observation of a cycle is a function of the destination\'s content when it starts), '
                  'C09_hist_filter_total + C09_hist_pending_exact (for every legal shape of the reader\'s executed-range answer the pending filter '
                  'succeeds and yields exactly the committed reports inside the window with an unexecuted message, each recording executed set '
                  '/\\ interval), C09_hist_candidates (closed form of the report\'s candidate set), C09_hist_never_reexecuted (a message executed at '
                  'some point is a candidate of no later cycle), C09_hist_no_loss (a message of a committed report is a candidate of EVERY later '
                  'cycle in which it is unexecuted, inside the window, of a live chain and ready - non-landing cannot lose it), '
                  'C09_hist_executed_committed, C09_hist_reader_answer_legal / C09_hist_nonvacuous (non-vacuity). Correspondence of that model with '
                  'long-lived plugins: sink C09_cycles (any memo / leftover state in the Plugin shows up as a model mismatch; cyc_ok turns it into '
                  'a concrete violating history). '
                  'System level (Model/ExecSys.v = Plugin.Outcome composed from the C07 / C08 models, Proofs/ExecSysP.v): C09_cycle_no_reexecution (a sequence number that every commit '
                  'report agreed in the GetCommitReports round lists as executed is in no chain report of the cycle); C09_cycle_liveness - the liveness clause proved over one cycle from '
                  'observation-level hypotheses: quorum f_dest+1 for the commit report and no conflicting report of its chain with one (<= f_dest deviating destination readers; F76 otherwise), quorum '
                  'f_k+1 for each of its messages, no rival message with a quorum (<= f_k deviating observers), token '
                  'data of the message ready with a quorum per slot and no observation filing more slots (F13e), fewer than f_dest+1 costly flags, not executed, nonce 0, root '
                  'reproduced, every pending report well formed (a fact about the destination, not about observation lists), the report fits (F14) => all three rounds succeed and the '
                  'message is in the execute report, whatever else the deviating oracles send; C09_cycle_liveness_nonvacuous (all hypotheses hold on a concrete cycle with a deviating '
                  'oracle); C09_cycle_liveness_poisoned_unfixed_refuted (F75, repaired: before, two faulty oracles of seven, F = 2, filed a forged report of chain 1 under the key of a '
                  'chain with f = 1 - no role check, threshold by filing key - and every later round failed; the repaired code refuses / does not agree it); '
                  'C09_conflicting_versions_unfixed_refuted (F76, repaired: two versions of one report, each with f+1 reporters - one lagging honest reader plus one faulty oracle of four - '
                  'were both pending and no round succeeded any more; the repaired getCommitReportsOutcome drops both for the cycle); replay on real plugins: VERIF_XS_PROBE=poison / split; '
                  'C09_history_cycle (failed rounds in between commit nothing: '
                  'the cycle theorems apply to every Filter round of every history). F55 stays outside (observations are inputs)',
    'level_note': 'Trusted: Coq kernel, hand-written model, differential harness. No axioms.',
    'modelled': 'computeRanges, groupByChainSelector, filterOutExecutedMessages, getPendingExecutedReports, and (for the cycle / liveness theorems) the report builder of Model/ExecReport.v; the reader is an input. '
                'History level: getCommitReportsObservation (fetchFrom from the current clock, curse gate, known non-cursed sources), the pending filter, the candidate set of the Filter round under everything-fits conditions, selectReport\'s still-pending rule; the destination (off-ramp commit / execute semantics) is a step function',
}

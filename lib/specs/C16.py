"""C16 check specification (see lib/specs/__init__.py for the field reference)."""

SPEC = {
    'id': 'C16',
    'title': 'Only the active instance and destination writers transmit, on an agreed schedule',
    'coq_check': 'C16_check',
    'parts': [
        {'pkg': 'internal/plugincommon', 'pkgname': 'plugincommon',
         'src': 'harness/internal/plugincommon/c16_test.go', 'test': 'TestVerif_C16_sched',
         'sinks': {'C16_sched': 'sched_judge'}, 'n': {'quick': 400, 'thorough': 20000}},
        {'pkg': 'commit', 'src': 'harness/commit/c16_test.go', 'test': 'TestVerif_C16_commit', 'fakes': True,
         'sinks': {'C16_rep_commit': 'rep_judge'}, 'n': {'quick': 60, 'thorough': 3000}},
        {'pkg': 'commit', 'src': 'harness/commit/c16_test.go', 'test': 'TestVerif_C16_commit_gates', 'fakes': True,
         'sinks': {'C16_gate_commit': 'gate_judge'}, 'n': {'quick': 300, 'thorough': 10000}},
        {'pkg': 'execute', 'src': 'harness/execute/c16_test.go', 'test': 'TestVerif_C16_exec', 'fakes': True,
         'sinks': {'C16_rep_exec': 'rep_judge'}, 'n': {'quick': 60, 'thorough': 3000}},
        {'pkg': 'execute', 'src': 'harness/execute/c16_test.go', 'test': 'TestVerif_C16_exec_gates', 'fakes': True,
         'sinks': {'C16_gate_exec': 'gate_judge'}, 'n': {'quick': 300, 'thorough': 10000}},
        {'pkg': 'execute', 'src': ['harness/execute/c16_test.go', 'harness/execute/c16r_test.go'], 'test': 'TestVerif_C16_exec_roles', 'fakes': True,
         'sinks': {'C16_gate_exec_roles': 'gate_judge', 'C16_rep_exec_roles': 'rep_judge'}, 'n': {'quick': 40, 'thorough': 600}},
    ],
    'rule': 'sched: oracle-id sets of size 0..31 (uint8 ids) with writer pattern classes none/one/some/all/err/big, '
            'each evaluated in two random orders; rep_*: Plugin.Reports of commit/execute on 24 fresh instances per DON '
            '(sizes 2..10, 4, 31; writer subsets; failing home chain; empty outcomes), distinct answers collected; '
            'gate_exec_roles: four long-lived execute plugins on the REAL home-chain poller (3 ms polling) over a scripted CCIPHome whose role map (readers of the destination and of two sources) '
            'and candidate digest are re-drawn between rounds; ShouldTransmitAcceptedReport of every oracle after every change, and Plugin.Reports of all four long-lived oracles for one outcome (one schedule, that of the role map fetched last); '
            'gate_*: accept/transmit callbacks over digest combinations (equal, zero, different), reader/codec failures, '
            'empty and non-empty reports, curse answers. non-trivial = >=2 oracles and >=1 destination writer (sched/rep), '
            'every gate case; distinct by full input',
    'trusted': ['ChainSupport.SupportsDestChain answers are an oracle (scripted fake)',
                'time.Duration multiplication assumed not to overflow int64 (mult <= 5s, <= 256 oracles)'],
    'assumptions': ['libocr hands every oracle the same outcome bytes; oracleIDToP2PID has the same key set on every oracle'],
    'level_text': 'Proof: 10 Coq theorems (schedule order-independence over all permutations, exact membership/ordering/delays, '
                  'error iff no writer, candidate and non-writer never transmit, empty reports never accepted) over the executable model; '
                  'correspondence: GetTransmissionSchedule, Plugin.Reports and the accept/transmit callbacks of both plugins run against the model on generated configurations every run',
    'level_note': 'Trusted: Coq kernel, hand-written model, differential harness. Codec decode results, curse reads and home-chain answers are model inputs (oracles). No axioms.',
    'modelled': 'GetTransmissionSchedule, commit/execute ShouldTransmitAcceptedReport gates, empty-report gates; '
                'codec decode results and curse reads are inputs of the model',
}

"""C16 check specification (see lib/specs/__init__.py for the field reference)."""

SPEC = {
    'id': 'C16',
    'title': 'Only the active instance and destination writers transmit, on an agreed schedule',
    'coq_check': 'C16_check',
    'parts': [
        {'pkg': 'internal/plugincommon', 'pkgname': 'plugincommon',
         'src': 'harness/internal/plugincommon/c16_test.go', 'test': 'TestVerif_C16_sched',
         'sinks': {'C16_sched': 'sched_judge'}, 'n': {'quick': 400, 'thorough': 20000}},
        {'pkg': 'commit', 'src': 'harness/commit/c16_test.go', 'test': 'TestVerif_C16_commit', 'fakes': True,
         'sinks': {'C16_rep_commit': 'rep_judge'}, 'n': {'quick': 60, 'thorough': 3000}},
        {'pkg': 'commit', 'src': 'harness/commit/c16_test.go', 'test': 'TestVerif_C16_commit_gates', 'fakes': True,
         'sinks': {'C16_gate_commit': 'gate_judge'}, 'n': {'quick': 300, 'thorough': 10000}},
        {'pkg': 'execute', 'src': 'harness/execute/c16_test.go', 'test': 'TestVerif_C16_exec', 'fakes': True,
         'sinks': {'C16_rep_exec': 'rep_judge'}, 'n': {'quick': 60, 'thorough': 3000}},
        {'pkg': 'execute', 'src': 'harness/execute/c16_test.go', 'test': 'TestVerif_C16_exec_gates', 'fakes': True,
         'sinks': {'C16_gate_exec': 'gate_judge'}, 'n': {'quick': 300, 'thorough': 10000}},
        {'pkg': 'execute', 'src': ['harness/execute/c16_test.go', 'harness/execute/c16r_test.go'], 'test': 'TestVerif_C16_exec_roles', 'fakes': True,
         'sinks': {'C16_gate_exec_roles': 'gate_judge', 'C16_rep_exec_roles': 'rep_judge'}, 'n': {'quick': 40, 'thorough': 600}},
    ],
    'rule': 'sched: oracle-id sets of size 0..31 (uint8 ids) with writer pattern classes none/one/some/all/err/big, '
            'each evaluated in two random orders; rep_*: Plugin.Reports of commit/execute on 24 fresh instances per DON '
            '(sizes 2..10, 4, 31; writer subsets; failing home chain; empty outcomes), distinct answers collected; '
            'gate_exec_roles: four long-lived execute plugins on the REAL home-chain poller (3 ms polling) over a scripted CCIPHome whose role map (readers of the destination and of two sources) '
            'and candidate digest are re-drawn between rounds; ShouldTransmitAcceptedReport of every oracle after every change, and Plugin.Reports of all four long-lived oracles for one outcome (one schedule, that of the role map fetched last); '
            'gate_*: accept/transmit callbacks over digest combinations (equal, zero, different), reader/codec failures, '
            'empty and non-empty reports, curse answers. non-trivial = >=2 oracles and >=1 destination writer (sched/rep), '
            'every gate case; distinct by full input',
    'trusted': ['ChainSupport.SupportsDestChain answers are an oracle (scripted fake)',
                'time.Duration multiplication assumed not to overflow int64 (mult <= 5s, <= 256 oracles)'],
    'assumptions': ['libocr hands every oracle the same outcome bytes; oracleIDToP2PID has the same key set on every oracle'],
    'level_text': 'Proof: 18 closed Coq theorems. 10 property theorems over the executable model: the transmission schedule is the same for every enumeration order of '
                  'the oracle-id map (C16_schedule_order, all permutations; C16_schedule_unsorted_refuted = F16, repaired in /repo: ids were iterated in Go map order), '
                  'its members are exactly the oracles that can write to the destination, ascending, with strictly increasing delays (C16_schedule_members, '
                  'C16_delays_increasing), an error iff there is no writer (C16_schedule_error_iff); a report is transmitted only by an oracle of the ACTIVE '
                  'configuration - never under the candidate digest, for execute never by a non-writer, for commit never after a failed roots-state check '
                  '(C16_candidate_commit, C16_commit_transmit_only_active, C16_exec_transmit_only_active_writer); empty reports are never accepted '
                  "(C16_empty_commit_report_not_accepted, C16_empty_exec_report_not_accepted). Judge soundness (8 C16_judge_*): sched_ok is an iff with the model's "
                  "schedule on unique ids; rep_ok and gate_ok accept the model's output and imply the clauses. Correspondence, every run: the real "
                  'GetTransmissionSchedule on id sets in two random orders; Plugin.Reports of both plugins on 24 fresh instances per DON (exactly one distinct answer); '
                  'the accept / transmit callbacks over digest combinations on long-lived instances with the candidate digest changing between calls; four LONG-LIVED '
                  'execute plugins on the REAL home-chain poller over a scripted CCIPHome whose role map and candidate digest are re-drawn between rounds (incl. a '
                  'successful empty poll): gate and schedule must follow the configuration fetched last (C16_gate_exec_roles, C16_rep_exec_roles). Translation tie (4 '
                  'theorems, C16_gen.v): GetTransmissionSchedule is re-translated from source and membership, order and the error clause restated over it. Partial: '
                  'answers "do not transmit" / error of the gates are compared with the model only; the curse and RMN-signature conjuncts of acceptance are judged by C15 '
                  'and C05.',
    'level_note': 'Trusted: Coq kernel, hand-written model and theorem statements, differential harness, leaf translator. Specific: ChainSupport.SupportsDestChain '
                  'answers, codec decode results, curse reads and home-chain answers are model inputs (scripted oracles); in the roles part the home chain is the real '
                  "poller over a scripted CCIPHome; time.Duration multiplication does not overflow int64 (mult <= 5 s, <= 256 oracles); Go's sort of equal keys does not "
                  'arise (ids unique). libocr hands every oracle the same outcome bytes and oracleIDToP2PID has the same key set on every oracle. No axioms.',
    'technique': 'Coq theorems (permutation invariance and exact characterisation of the schedule, transmit / accept gates) over a hand-written Gallina model; '
                 'differential correspondence with proved judge incl. long-lived execute plugins on the real home-chain poller; GetTransmissionSchedule re-translated '
                 'from Go (C16_gen.v)',
    'modelled': 'Hand model (Model/Transmit.v): plugincommon.GetTransmissionSchedule, the commit / execute ShouldTransmitAcceptedReport gates (digest comparison, '
                'writer test, commit roots-state check as an input flag), the empty-report gates of both ShouldAcceptAttestedReport; Plugin.Reports as (report, '
                'schedule). Translated from source per run: GetTransmissionSchedule (ChainSupport.SupportsDestChain = oracle). Inputs of the model: codec decode '
                'results, curse reads, the home-chain configuration (active / candidate digest, role map) as fetched last',
}

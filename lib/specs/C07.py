"""C07 check specification (see lib/specs/__init__.py for the field reference)."""

SPEC = {
    'id': 'C07',
    'title': 'Execute consensus needs f+1 distinct observers per item',
    'coq_check': 'C07_check',
    'parts': [
        {'pkg': 'execute', 'src': 'harness/execute/c07_test.go', 'test': 'TestVerif_C07', 'fakes': True,
         'sinks': {'C07_merge': 'c07_judge'}, 'n': {'quick': 850, 'thorough': 28000}},
        {'pkg': 'execute', 'src': 'harness/execute/c07_test.go', 'test': 'TestVerif_C07_outcome', 'fakes': True,
         'sinks': {'C07_outcome': 'c07o_judge'}, 'n': {'quick': 300, 'thorough': 10000}},
        {'pkg': 'execute', 'src': 'harness/execute/c07_test.go', 'test': 'TestVerif_C07_quorum', 'fakes': True,
         'sinks': {'C07_quorum': 'quorum_judge'}, 'n': {'quick': 100, 'thorough': 2000}},
    ],
    'known': {'2': 'F13e'},
    'rule': 'DONs of 4..10 oracles (ids from 0..15), 1..3 source chains + destination, per-chain f in 1..3 (class weird-f: '
            '0, -1, -2, destination missing), F in 1..3 (class below-F: above the number of observations); an agreed world '
            '(1..3 commit reports per chain, 1..3 messages each, 0..2 token slots, costly ids, sender nonces) where every '
            'item is reported by thr-1, thr, thr+1, all or a random number of oracles; then 1, 2, thr-1 or thr colluding '
            'Byzantine oracles apply one of 25 shapes (repeated - adjacent and interleaved - / split / overlapping / re-executed commit reports, one commit report filed '
            'under several chain keys or under a key other than its own SourceChain (alone and on top of thr-1 honest reporters), a message '
            'under extra sequence-number keys or under another chain key, variant messages, messages of a chain the oracle '
            'may not read, costly ids repeated adjacently and with other ids in between ([A,A], [A,B,A], [A,B,B,A], spread over several ids), '
            'foreign costly ids, variant and re-chained nonces, variant / missing / extra / re-keyed token slots, token data / nonces / costly '
            'flags from oracles without the role for them, unknown chain keys). Every observation goes through JSON, Plugin.ValidateObservation and, if '
            'accepted, getConsensusObservation. outcome: the same generator with N in {4,7}, F in {1,2}, f(source) != f(dest), through execute.Plugin.ValidateObservation + '
            'execute.Plugin.Outcome (F from the reporting config, fChain from the plugin\'s home chain) in the GetCommitReports phase (decoded '
            'PendingCommitReports) and the GetMessages phase (messages attached to one wide pending report per chain), judged by the same clauses. '
            'quorum: execute.Plugin.ObservationQuorum at F-1..2F+1 observations. non-trivial = merge succeeded on >= 2 accepted observations; distinct by full input',
    'trusted': ['item identity = the implementation\'s id function (sha3 of "%v"; TokenDataHash): the harness interns the same '
                'rendering, the other item fields are functions of it',
                'HomeChain.GetSupportedChainsForPeer answers are an oracle (scripted fake); fChain is an input (the plugin reads it from its local home-chain view)',
                'libocr delivers at most one observation per oracle and only observations that passed ValidateObservation'],
    'assumptions': ['observations are decodable JSON (decode errors are C13)'],
    'level_text': 'Proof: Coq theorems over the executable model of ValidateObservation and the five merges: every merged commit '
                  'report / message / ready token slot / nonce / costly id has at least f+1 distinct reporting oracles of the identical '
                  'item and no validated observation votes twice for one item, for all fChain maps and all validated observation lists '
                  'with distinct oracles; items with that support are always present and the merge never fails on validated observations '
                  '(C07_non_blocking at full strength after the F13d repair), except that a token slot index without support makes a '
                  'message\'s token data not ready (recorded F13e); refutation theorems for the code before the F13a/F13c/F13d repairs. Correspondence: ValidateObservation + getConsensusObservation against the model on generated DONs every run',
    'level_note': 'Trusted: Coq kernel, hand-written model, differential harness, interning of the %v identity. No axioms. '
                  'Two valid items with one map key (same sequence number / same sender) are stored by Go map order (F17, property C10): '
                  'the check accepts any possible assignment.',
    'modelled': 'validateObserverReadingEligibility, validateObserverDataEligibility, validateObservedSequenceNumbers, validateMessageKeys, validateObservedChains, merge{Commit,Message,Token,Nonce}Observations, '
                'mergeCostlyMessages, getConsensusObservation; JSON codec and home-chain lookups are inputs',
}

"""C07 check specification (see lib/specs/__init__.py for the field reference)."""

SPEC = {
    'id': 'C07',
    'title': 'Execute consensus needs f+1 distinct observers per item',
    'coq_check': 'C07_check',
    'parts': [
        {'pkg': 'execute', 'src': 'harness/execute/c07_test.go', 'test': 'TestVerif_C07', 'fakes': True,
         'sinks': {'C07_merge': 'c07_judge'}, 'n': {'quick': 850, 'thorough': 28000}},
        {'pkg': 'execute', 'src': 'harness/execute/c07_test.go', 'test': 'TestVerif_C07_outcome', 'fakes': True,
         'sinks': {'C07_outcome': 'c07o_judge'}, 'n': {'quick': 300, 'thorough': 10000}},
        {'pkg': 'execute', 'src': 'harness/execute/c07_test.go', 'test': 'TestVerif_C07_quorum', 'fakes': True,
         'sinks': {'C07_quorum': 'quorum_judge'}, 'n': {'quick': 100, 'thorough': 2000}},
        {'pkg': 'execute', 'src': 'harness/execute/execsys_test.go', 'test': 'TestVerif_ExecSys', 'fakes': True,
         'coq_import': 'ExecSys_check',
         'sinks': {'ExecSys_cycle_0': 'sys_judge', 'ExecSys_cycle_1': 'sys_judge', 'ExecSys_cycle_2': 'sys_judge',
                   'ExecSys_cycle_3': 'sys_judge'},
         'n': {'quick': 160, 'thorough': 4000}},
    ],
    'known': {'2': 'F13e'},
    'rule': 'half of the groups use production-sized chain selectors (mainnet, BSC, Base, .., 2^63, 2^64-1: pairwise more than 2^63 apart or cyclic modulo 2^64); Byzantine class token-long-list: more than 256 token-data slots for one message with slot k = slot k+256 (an 8-bit slot index would double-count one observer); DONs of 4..10 oracles (ids from 0..15), 1..3 source chains + destination, per-chain f in 1..3 (class weird-f: '
            '0, -1, -2, destination missing), F in 1..3 (class below-F: above the number of observations); an agreed world '
            '(1..3 commit reports per chain, 1..3 messages each, 0..2 token slots, costly ids, sender nonces) where every '
            'item is reported by thr-1, thr, thr+1, all or a random number of oracles; then 1, 2, thr-1 or thr colluding '
            'Byzantine oracles apply one of 25 shapes (repeated - adjacent and interleaved - / split / overlapping / re-executed commit reports, one commit report filed '
            'under several chain keys or under a key other than its own SourceChain (alone and on top of thr-1 honest reporters: refused by validateCommitReportKeys since the repair of F75), a message '
            'under extra sequence-number keys or under another chain key, variant messages, messages of a chain the oracle '
            'may not read, costly ids repeated adjacently and with other ids in between ([A,A], [A,B,A], [A,B,B,A], spread over several ids), '
            'foreign costly ids, variant and re-chained nonces, variant / missing / extra / re-keyed token slots, token data / nonces / costly '
            'flags from oracles without the role for them, unknown chain keys). Every observation goes through JSON, Plugin.ValidateObservation and, if '
            'accepted, getConsensusObservation. outcome: the same generator with N in {4,7}, F in {1,2}, f(source) != f(dest), through execute.Plugin.ValidateObservation + '
            'execute.Plugin.Outcome (F from the reporting config, fChain from the plugin\'s home chain) in the GetCommitReports phase (decoded '
            'PendingCommitReports) and the GetMessages phase (messages attached to one wide pending report per chain), judged by the same clauses. '
            'quorum: execute.Plugin.ObservationQuorum at F-1..2F+1 observations. non-trivial = merge succeeded on >= 2 accepted observations; distinct by full input. '
            'execsys (sinks ExecSys_cycle_0..3, one case = one whole cycle): 4 (F=1) or 7 (F=2) real execute.Plugin instances built once per history with NewPlugin '
            '(contract discovery on) run 2..4 cycles GetCommitReports -> GetMessages -> Filter over one scripted world (1..2 source chains; commit reports of 1..4 '
            'messages with holes between them; out-of-order and sequenced messages of three senders with gaps; token data of 0..2 slots, some not ready; costly flags; '
            'executed messages; the cycle\'s report lands fully / partly / never; an oracle that does not read chain 2 in a fifth of the histories). Honest oracles observe through '
            'Plugin.Observation; classes honest / byz1 (one deviating oracle, any position) / collude (F+1 oracles deviating identically) / lag (an honest oracle reading the '
            'destination one cycle late) / lag+byz1; per round the deviating observation is the honest one rewritten by one of 9 / 12 / 7 shapes (dropped, other executed list, '
            'reports filed or copied under another chain key, forged report, repeated report, other timestamp, commit data already carrying messages / token data / costly ids, a '
            'committed report the honest readers do not see - with and without its messages -, variant / re-keyed / dropped messages, extra / variant / shifted token slots, '
            'every id flagged costly twice, nonces + 1 / under another chain / for an unknown sender); class lag+echo: the faulty oracle seconds the lagging reader in the GetCommitReports '
            'round, so that both versions of a report reach f+1 (F76: ambiguous reports are dropped, the others must not be blocked); with 7 oracles f(source) and f(dest) are drawn '
            'independently from {1,2} and 2 or 3 oracles collude (F75: commit reports go by the destination\'s f). Every observation goes through JSON and Plugin.ValidateObservation, '
            'Plugin.Outcome runs on every oracle (all must agree); a failed round is repeated on the same previous outcome. Judged: model = implementation for every '
            'round (verdicts and decoded outcome, ids of items = first 8 bytes of the implementation\'s sha3 id so that GetValid order is reproduced), the end-to-end '
            'clauses (a)-(c) on the implementation\'s outputs, and - when at most f oracles deviate - the liveness ground truth (every eligible pending message of the '
            'world is in the cycle\'s report; class 2 = F13e masks this clause only) and nothing the destination shows as executed is in any report of the cycle. In a tenth of the '
            'cycles (class readerr) the destination reader fails, on every oracle, for all but the last executed-range query of a chain: no report may then hold an executed message '
            '(catches seeded C09-6 through the copy of this part in C09). The harness seed is hashed (neighbouring splitmix seeds give shifted copies of one stream). '
            'The home chain configuration moves while the plugins live (a third of the cycles, before the cycle or between two of its rounds): f of a source chain or of the '
            'destination raised / lowered by one, a source chain added with its f and a committed report, a source chain removed (between cycles only); every round is judged against '
            'exec_round with THAT round\'s fChain. Boundary classes: fraise (f(dest) raised before the cycle, exactly OLD f+1 oracles collude on a report the honest readers do not see: it '
            'must not be used) and flower (every f of 2 lowered by one, exactly NEW f+1 = 2 oracles take part: the eligible messages must be reported); an added chain must not make later '
            'Outcomes fail (liveness ground truth). Catches seeded C07-8 (fChain memoised in the Plugin) with concrete cycles of all three kinds. '
            'Probes, not part of the check: VERIF_XS_PROBE=poison / poison1 (F75) and split (F76) replay C09_cycle_liveness_poisoned_unfixed_refuted / C09_conflicting_versions_unfixed_refuted on the real plugins (stall on the unpatched tree, normal cycles on the repaired one). non-trivial = the Filter round\'s report holds a message',
    'trusted': ['item identity = the implementation\'s id function (sha3 of "%v"; TokenDataHash): the harness interns the same '
                'rendering, the other item fields are functions of it',
                'HomeChain.GetSupportedChainsForPeer answers are an oracle (scripted fake); fChain is an input (the plugin reads it from its local home-chain view)',
                'libocr delivers at most one observation per oracle and only observations that passed ValidateObservation'],
    'assumptions': ['observations are decodable JSON (decode errors are C13)'],
    'level_text': 'Proof: 43 closed Coq theorems. 20 property theorems over the executable model of ValidateObservation and the five merges, for all fChain maps and '
                  'validated observation lists with distinct oracles: every merged commit report (f of the DESTINATION, key = its own source chain), message, ready token '
                  'slot, nonce and costly id has at least f+1 distinct reporters of the identical item and no observation votes twice for one item (C07_commit, _message, '
                  '_token, _nonce, _costly); an item with that support is always present and the merge never fails on validated observations (C07_*_complete, '
                  'C07_non_blocking). System level (ExecSys: Plugin.Outcome composed from the merge, pending and report-builder models): C07_used_needs_quorum_cycle - a '
                  'message in the execute report of a Filter round has its commit report agreed by f_dest+1 oracles under its own source chain in round 1, its content by '
                  'f_k+1 in round 2, every token-data slot by f_k+1, its nonce by f_dest+1 in round 3, and fewer than f_dest+1 costly flags (C07_token_data_cycle, '
                  'C07_not_costly_cycle). Unrepaired code refuted: F13 (one oracle reaching f+1 alone), F13d, F75 (reports counted at the f of the filing key); F13e (an '
                  "extra token slot from one oracle makes a message's token data not ready) is a known finding, not repairable at validation. Judge soundness (23 "
                  "C07_judge_*): for the 3 function sinks and the cycle sinks the executable property accepts the model's output (in general for whole histories) and "
                  'implies the Prop-level clauses. Correspondence, every run: the real ValidateObservation + getConsensusObservation and Plugin.Outcome on generated '
                  'DONs; four real long-lived execute plugins driven through whole cycles with a Byzantine oracle, f+1 colluders, lagging readers and the home-chain f '
                  "map moving between rounds, every round judged against exec_round with that round's f map (ExecSys_cycle_*). Translation tie (4 theorems, C07_gen.v): "
                  'FPlus1, GteFPlusOne, SeqNumRange.Overlaps. Partial: two valid items under one map key are stored by Go map order (F17 / C10), so completeness is '
                  'judged on the key only.',
    'level_note': "Trusted: Coq kernel, hand-written model and theorem statements, differential harness, leaf translator. Specific: item identity is the implementation's "
                  'own id function (sha3 of the %v rendering, TokenDataHash) - the harness interns the same rendering, other item fields are functions of it; '
                  'HomeChain.GetSupportedChainsForPeer answers are a scripted fake and fChain is an input (the plugin reads it from its local home-chain view); '
                  'observations are decodable JSON (decode errors are C13); Plugin.Observation is not part of this model (observations are inputs), nor is contract '
                  'discovery. libocr modelled, not verified: at most one observation per oracle, only validated observations reach Outcome, ObservationQuorum = F+1 is '
                  'checked (sink C07_quorum). Known finding F13e is reported as KNOWN-FINDING (class 2). No axioms.',
    'technique': 'Coq theorems (soundness + completeness of five f+1 merges; three-round cycle composition ExecSys) over a hand-written Gallina model; differential '
                 'correspondence with proved judge on function level and on four long-lived execute plugins per cycle history; FPlus1 / GteFPlusOne / Overlaps '
                 're-translated from Go (C07_gen.v)',
    'modelled': 'validateObserverReadingEligibility, validateObserverDataEligibility, validateObservedSequenceNumbers, validateMessageKeys, validateObservedChains, '
                'validateCommitReportKeys, merge{Commit,Message,Token,Nonce}Observations (commit reports at the destination threshold), mergeCostlyMessages, '
                'getConsensusObservation; JSON codec and home-chain lookups are inputs. System level (Model/ExecSys.v): Plugin.Outcome (state decoding, '
                'getConsensusObservation, PluginState.Next, getCommitReportsOutcome + dropConflictingReports (repair of F76), getMessagesOutcome + '
                "observedSeqNumsInRange, getFilterOutcome -> selectReport + report builder, NewOutcome sorting, the empty-outcome rule), GetValid's ascending-id order, "
                'a history of rounds as a fold (a failed round commits nothing); not modelled: contract discovery, Plugin.Observation (observations are inputs), the '
                'nil outcome of a plugin whose contracts are not initialised. Translated from source per run: consensus.FPlus1, GteFPlusOne, SeqNumRange.Overlaps '
                '(C07_gen.v)',
}

"""C11 check specification (see lib/specs/__init__.py for the field reference)."""

SPEC = {
    'id': 'C11',
    'title': 'Honest observations always pass validation, for any role assignment',
    'coq_check': 'C11_check',
    'parts': [
        {'pkg': 'commit', 'src': 'harness/commit/c11_test.go', 'test': 'TestVerif_C11_commit', 'fakes': True,
         'sinks': {'C11_commit': 'cc_judge'}, 'n': {'quick': 150, 'thorough': 6000}},
        {'pkg': 'execute', 'src': 'harness/execute/c11_test.go', 'test': 'TestVerif_C11_exec', 'fakes': True,
         'sinks': {'C11_exec': 'ce_judge'}, 'n': {'quick': 150, 'thorough': 6000}},
    ],
    'known': {'1': 'F18c', '2': 'F18d'},
}

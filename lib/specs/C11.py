"""C11 check specification (see lib/specs/__init__.py for the field reference)."""

SPEC = {
    'id': 'C11',
    'title': 'Honest observations always pass validation, for any role assignment',
    'coq_check': 'C11_check',
    'parts': [
        {'pkg': 'commit', 'src': 'harness/commit/c11_test.go', 'test': 'TestVerif_C11_commit', 'fakes': True,
         'sinks': {'C11_commit': 'cc_judge'}, 'n': {'quick': 150, 'thorough': 6000}},
        {'pkg': 'execute', 'src': 'harness/execute/c11_test.go', 'test': 'TestVerif_C11_exec', 'fakes': True,
         'sinks': {'C11_exec': 'ce_judge'}, 'n': {'quick': 150, 'thorough': 6000}},
        {'pkg': 'commit', 'src': ['harness/commit/c11_test.go', 'harness/commit/c11c12_hist_test.go', 'harness/commit/c11h_test.go'],
         'test': 'TestVerif_C11_commit_hist', 'fakes': True,
         'sinks': {'C11_commit_hist': 'cch_judge', 'C11_commit_api': 'api_judge'}, 'n': {'quick': 10, 'thorough': 120}},
        {'pkg': 'execute', 'src': ['harness/execute/c11_test.go', 'harness/execute/c11c12_hist_test.go', 'harness/execute/c11h_test.go'],
         'test': 'TestVerif_C11_exec_hist', 'fakes': True,
         'sinks': {'C11_exec_hist': 'ceh_judge', 'C11_exec_api': 'api_judge'}, 'n': {'quick': 10, 'thorough': 120}},
    ],
    'known': {},
    'rule': 'VERIF_N worlds per plugin; a world = role assignment (4..7 oracles, destination, 2..3 sources, feed chain own / a source '
            '/ the destination; shapes: full access, random subsets, group without destination, group without feed, an oracle with a '
            'single source chain, an oracle with no chain) x scripted chain state (curses, enabled sources, RMN remote config set or unset, '
            'selected ranges, tokens, fee components / native prices / fee updates partly missing, on-chain and pending commit reports, '
            'value classes (half of the worlds regular, the others drawn from the boundaries): USD feed answers regular / 0 / negative / 2^200 / 1, fee-quoter token update values '
            '9 / 1 / 2^200, fee components execution fee 1 / 2^200 and data-availability fee 0 / 2^200, native prices up to 2^60, fee updates with a timestamp but value 0 (dropped by '
            'the reader: as absent) or value 1 / 2^200, message fee 1e30 / 0 / nil / 2^200, message data nil / zero-length / bytes, inbound nonces 3 / 0 / 2^64-1 - validation accepts all of '
            'these from anybody and the model does not even take them as input; 1 chain in 14 of those worlds holds a value validation rejects from anybody (execution fee 0 / negative / '
            'absent, data-availability fee negative / absent, native price 0): outside values_ok, judged for model/implementation agreement only; the execute harness keeps the '
            'destination chain\'s fee components and native price small (the model\'s "no message is flagged as costly" rests on the execution cost rounding to 0). '
            'readable messages 0..all, senders 0..2) x failing reader calls (none / 1..3 random (call kind, chain) pairs / every call on one '
            'chain) x phase (3 commit states + retry query, 3 execute states, contracts not yet initialised). For every oracle i of the world '
            'one real plugin (NewPlugin) over a real ccipChainReader whose contract readers and chain writers exist only for the chains of '
            'i\'s role; Observation of i (panic / error / canonicalised observation) and ValidateObservation of every oracle j on it. '
            'Execute: 1 world in 12 puts a report of an unconfigured chain (13) into the previous outcome (class pending-unknown-chain): outside the '
            'stable-home-configuration hypothesis, judged for model/implementation agreement only, never as a violation. '
            'One case per (world, i). non-trivial = i does not read every chain and the observation carries data (or fails); distinct by full input. '
            'commit_hist / exec_hist (long-lived instances): VERIF_N histories; per history one DON of 4 or 7 oracles, per oracle ONE real home-chain poller '
            '(internal/reader homeChainPoller, 2 ms polling) over a scripted CCIPHome contract reader and ONE plugin (NewPlugin) on it, kept for the whole '
            'history; 5..8 steps, each changes the chain configs on the contract (a chain given to / taken from an oracle keeping its others, the '
            'destination taken / given, an oracle dropped from / added to every chain, F changed, readers rotated, a chain removed / added, two oracles '
            'swapped, a reader of another DON, several at once, a change whose poll fails, or empty-config: every chain config removed so that a SUCCESSFUL poll answers with an empty first page - the role map is then the empty one; the step after it either brings the old configuration back (the contract answered one empty page) or builds a new role map from nothing) and waits until every poller has completed a fetch that started '
            'after the change; then one round in a freshly drawn world: every oracle observes through a real ccipChainReader limited to the chains of its '
            'current role, every oracle validates every observation. A case carries the poll results the pollers went through; the role map is computed in '
            'Coq (model: through the poller state machine; property: latest successful poll only). Rounds whose latest configuration is outside cfg_ok (destination not configured: the empty-config steps) are judged for model/implementation agreement only - nobody can be accepted there -, their API answers are judged in full. exec_hist: a chain removed in the step may still be named by '
            'the pending reports (class pending-unknown-chain, agreement only). commit_api / exec_api: after every step one instance is asked '
            'GetSupportedChainsForPeer (every oracle, two foreign peers, an unknown one), GetKnownCCIPChains, GetChainConfig (every chain ever configured, an '
            'unknown one), GetFChain, GetAllChainConfigs, ChainSupport.SupportedChains / SupportsDestChain (every oracle, one without peer id), '
            'KnownSourceChainsSlice; instance 0 is asked at every even step (it has looked everything up before every change)',
    'trusted': ['contract readers, chain writers and the price reader are scripted fakes below the real ccipChainReader (JSON-filled '
                'return values); they answer only for chains of the oracle\'s role and fail exactly the scripted calls',
                'the price reader fake mirrors the reader-existence guards of pkg/reader/price_reader.go',
                'home chain answers are scripted (fake mirrors internal/reader/home_chain.go) in the per-world parts; in the *_hist / *_api parts the '
                'home chain is the real poller and only the CCIPHome contract reader below it is scripted (getAllChainConfigs answers / failures)',
                'the *_hist parts wait for two fetch attempts per poller after every change (the second one can only start after setState of the first)',
                'message hasher, report codec: repository mocks; token data observer: tokendata.NoopTokenDataObserver'],
    'assumptions': ['an oracle has a contract reader and a chain writer exactly for the chains of its home-chain role',
                    'all honest oracles hold the same home-chain view, so the verdict on (i, observation) does not depend on the validator j '
                    '(the harness still runs every j)',
                    'RMN disabled in the off-chain config; discovery processor enabled; observations below the size limit (no truncation)',
                    'values stored on the chains are of the kind validation accepts from anybody (values_ok: positive fees and prices, '
                    'RMN remote config absent or well-formed with at least F+1 signers, non-overlapping commit reports, fChain >= 1); '
                    'an honest oracle reading e.g. a zero native-token price or an RMN remote config with fewer than F+1 signers has its '
                    'whole observation rejected - outside the role question, not examined further',
                    'a retry query (RetryRMNSignatures) is only sent in the BuildingReport phase (honest leader)',
                    'stable home configuration (pending_known): the previous execute outcome names only chains with a configured F - '
                    'the merges that produced it need an F for every chain they keep, so this holds as long as the home-chain config '
                    'did not lose a chain between two rounds; since F13d validation rejects observations mentioning a chain without F and '
                    'the GetMessages observation repeats the pending reports, so without it every honest GetMessages observation is rejected'],
    'level_text': 'Proof: 28 closed Coq theorems. 12 property theorems over executable models of commit / execute Plugin.Observation (role behaviour of every processor '
                  'incl. the reader-existence guards of pkg/reader/ccip.go, in the result monad) and both ValidateObservation functions (one model Roles.v, shared with '
                  'C12): C11_commit - for all role assignments, oracles, reader states, failing-call patterns and phases the commit observation is produced without panic '
                  'and accepted by every oracle; C11_exec_valid / C11_exec_no_panic - whatever the execute plugin produces is accepted, never a panic; C11_exec - '
                  'produced and accepted whenever all calls succeed, for every role (full strength since the repairs F18, F18c, F18d). Histories: for EVERY list of '
                  'poller events interleaved with rounds, a round is answered from the latest successfully fetched configuration alone, so the honest observation of '
                  'round k is accepted by every validation that sees the same latest configuration whatever the role map was before (C11_history_round, _commit, _exec, '
                  '_role_map; induction through the C18 snapshot theorem). Unrepaired code refuted: F05 (role check rejected honest partial readers), F18 family (panic / '
                  'whole observation failing without destination access). Judge soundness (16 C11_judge_*): for each of the 6 sinks the executable property accepts the '
                  "model's output and implies the Prop-level clause. Correspondence, every run: one real plugin per oracle (NewPlugin) over a real ccipChainReader "
                  "limited to the oracle's chains, every observation fed to every validator; 4 or 7 LONG-LIVED plugins each on its own REAL home-chain poller over a "
                  'scripted CCIPHome through 5..8 role-map changes of 15 kinds (incl. a change whose poll fails), every round and every poller / ChainSupport getter '
                  'judged on the latest successfully fetched configuration. No translated leaf function (the validators range over Go maps and are refused by the '
                  'translator). Partial: outside values_ok (e.g. a zero native price on chain) the observation is rejected for reasons other than roles and the clause is '
                  'vacuous.',
    'level_note': 'Trusted: Coq kernel, hand-written model and theorem statements, differential harness. Specific: contract readers, chain writers and the price reader '
                  "are scripted fakes BELOW the real ccipChainReader (they answer only for chains of the oracle's role and fail exactly the scripted calls; the "
                  'price-reader fake mirrors the guards of price_reader.go); in the history parts the home chain is the real poller and only the CCIPHome contract reader '
                  'below it is scripted (the harness waits for two fetch attempts per poller after every change); message hasher and report codec are repository mocks, '
                  'token data observer is the Noop one. Assumed: an oracle has readers / writers exactly for the chains of its role; all honest oracles hold the same '
                  'home-chain view; RMN disabled, discovery enabled, no truncation; on-chain values are of the kind validation accepts from anybody (values_ok); retry '
                  'queries only in the building phase; the previous execute outcome names only chains with a configured F (pending_known). No axioms.',
    'technique': 'Coq theorems (produced-and-accepted for all roles; induction over poller event histories through the C18 snapshot theorem) over one hand-written '
                 "Gallina model of both plugins' observation and validation paths; differential correspondence with proved judge on per-oracle real plugins over "
                 'role-limited real chain readers and on long-lived plugins over the real home-chain poller',
    'modelled': 'commit.Plugin.Observation (discovery, merkleroot observer, tokenprice, chainfee processors), execute.Plugin.Observation (getCommitReportsObservation, '
                'getMessagesObservation incl. readAllMessages and the costly-message observer, getFilterObservation), ccipChainReader guards (DiscoverContracts, '
                'GetRmnCurseInfo, NextSeqNum, GetExpectedNextSequenceNumber, GetRMNRemoteConfig, MsgsBetweenSeqNums, GetChainsFeeComponents, '
                'GetWrappedNativeTokenPriceUSD, GetChainFeePriceUpdate, CommitReportsGTETimestamp, ExecutedMessageRanges, Nonces, LinkPriceUSD), both '
                'ValidateObservation functions; homeChainPoller (setState, getters) and plugincommon.ChainSupport through the C18 model (Pollers.v) composed with '
                'Roles.v in RolesHist.v. Nothing of this property is translated from source (validateObservedSequenceNumbers, validateMessageKeys, validateFChain loop '
                'over Go maps: refused by the translator). Inputs of the model: the role map / chain configs (scripted CCIPHome answers), reader call results and '
                'failures, the observation under validation',
}

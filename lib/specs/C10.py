"""C10 check specification."""


def _borrow(pid, sink, judge):
    """A harness part of another property, judged by that property's judge (coq_import)."""
    from importlib import import_module
    sp = import_module('specs.' + pid).SPEC
    for p in sp['parts']:
        if sink in p['sinks']:
            q = dict(p)
            q['sinks'] = {sink: judge}
            q['coq_import'] = sp['coq_check']
            return q
    raise KeyError((pid, sink))


SPEC = {
    'id': 'C10',
    'title': 'All honest oracles compute byte-identical outcomes and reports',
    'coq_check': 'C10_check',
    'parts': [
        {'pkg': 'commit', 'src': 'harness/commit/c10_test.go', 'test': 'TestVerif_C10_commit', 'fakes': True,
         'sinks': {'C10_commit': 'det_judge'}, 'n': {'quick': 80, 'thorough': 3000}},
        {'pkg': 'execute', 'src': 'harness/execute/c10_test.go', 'test': 'TestVerif_C10_exec', 'fakes': True,
         'sinks': {'C10_exec': 'det_judge'}, 'n': {'quick': 80, 'thorough': 3000}},
        # long-lived execute oracles on the real home-chain poller, role map changing between rounds: all oracles attach
        # one and the same transmission schedule to one outcome (borrowed from C16, judged by C16_check.rep_judge)
        _borrow('C16', 'C16_rep_exec_roles', 'rep_roles_judge'),
    ],
    'rule': 'half of the worlds / cases use production-sized chain selectors (more than 2^63 apart or cyclic modulo 2^64, so that a subtracting or truncating comparator is not a total order); each case = one (previous outcome, query, ordered attributed observation list, configuration); commit: DON sizes 4/7/10, '
            '2-5 source chains, every merkle-root state (select / build / build-retry / wait), per-chain vote patterns '
            'agree / exact 2f+1 / 2f / two values both at threshold / missing, equal timestamps, 1-4 tokens, fee data; execute: '
            'the three plugin states, honest agreement, honest disagreement on executed sets (two commit data for one report both at f+1), '
            'two messages for one sequence number, two nonces for one sender, equal timestamps, the same instant spelled Z and +00:00. '
            'Outcome and Reports are evaluated 16 times per case: 15 times on fresh plugin instances (fresh Go maps) and once on VETERAN instances that live across cases '
            '(execute: one pair per DON size for the whole run; commit: one pair per world of three cases) whose home-chain view is re-pointed to the case (restart equivalence: a restarted oracle and a long-running one agree), with a different own oracle id '
            'and a different process time zone (time.Local: UTC, +02:00, +14:00, -05:00) each time; the observable is the number of distinct '
            '(outcome bytes, report bytes, transmission schedule) results; plus (C16_rep_exec_roles) four LONG-LIVED execute oracles over the real home-chain poller whose role map is re-drawn between rounds: '
            'the distinct schedules they attach to one outcome (exactly one, that of the role map fetched last). non-trivial = the outcome is non-empty (> 100 bytes); distinct by a digest of the full input',
    'trusted': ['libocr delivers the same previous outcome, query and ordered observation list to every oracle',
                'Go sort.SliceStable / sort.Slice are deterministic functions of their input slice',
                'the effect of randomized map iteration is sampled by repetition on fresh instances (16 per case), not controlled'],
    'assumptions': ['the repetition harness can only witness order dependence that shows within 16 fresh evaluations; the theorems carry the unbounded claim'],
    'modelled': 'WHOLE OUTCOME of both plugins (Model/DeterminismSys.v) as a function of (previous outcome, query, ordered attributed observations, configuration) and '
                'of a runtime = the order in which the Go runtime ranges over every internally built map: commit = aggregate -> getConsensusObservation -> merkle-root '
                'state machine (select / build / wait) -> Outcome.Sort (both variants of the off-ramp threshold, before / after the repair of F26; which one the code '
                'has is found by computation), token-price and chain-fee Outcome, discovery Outcome (composition of the C01/C03/C04/C14 models); execute = the five '
                'merges over minObservation (cache, GetValid in ascending id order, last-writer-wins maps) -> getCommitReportsOutcome / getMessagesOutcome / '
                'getFilterOutcome (C08 report builder) -> newSortedOutcome; Reports = (outcome, GetTransmissionSchedule of the role map). Plus the seams: '
                'GetConsensusMap / GetValid iteration order, sort-before-encode, the %v identity of time.Time. The canon functions have no own-oracle-id argument. Not '
                "modelled: JSON text layer (C20), decoding, the discovery step inside the execute plugin (same function as commit's), goroutines (none are started in "
                'Outcome/Reports). Translated from source per run: plugincommon.GetTransmissionSchedule (C16_gen.v; ChainSupport.SupportsDestChain is an oracle)',
    'level_text': 'Proof: 32 closed Coq theorems. 24 property theorems. Whole outcome, for all inputs and all runtimes (DeterminismSys): C10_commit_outcome_deterministic '
                  '- merkle-root outcome, token prices, gas prices and discovery address maps are equal for every iteration order of every Go map in the observations, in '
                  'the configuration and of every internally built map, with no hypothesis on the observations; C10_exec_outcome_deterministic - the three execute states '
                  'incl. the five merges, report builder and outcome sort, under re-ordering at both map levels, of every minObservation cache and of the merged '
                  'observation; hypothesis: ids faithful (sha3 collision free), shown necessary (C10_exec_*_id_collision_refuted); no unique-sort-key hypothesis '
                  '(C10_exec_dupkey_refuted for the pre-F17 GetValid). C10_*_reports_deterministic, C10_schedule_role_map_only: reports and schedule depend on the '
                  'outcome and the role map only. C10_commit_parts_are_the_judged_models: the composed parts are the models the C01 / C04 / C14 / C07 / C08 sinks judge '
                  'against the code. Seams: GetValid order (F17 refuted), time-zone independent identity of time.Time (F25 refuted). Judge soundness (8 C10_judge_*): the '
                  'constant "exactly one distinct result" the judge demands is the count the theorems give for every family of runs. Correspondence, every run: commit '
                  'and execute Plugin.Outcome + Reports evaluated 16 times per input - 15 on fresh instances, once on VETERAN instances that live across cases (restart '
                  'equivalence) - with different own oracle ids and process time zones: exactly one (outcome bytes, report bytes, schedule) result allowed; four '
                  'long-lived execute oracles over the REAL home-chain poller with the role map re-drawn between rounds must attach one schedule (C16_rep_exec_roles). '
                  'Translation tie (4 theorems, C16_gen.v): GetTransmissionSchedule. Partial: on the implementation map-order effects are SAMPLED by repetition (the '
                  'theorems carry the unbounded claim on the model); the distinct count is computed by the harness.',
    'level_note': 'Trusted: Coq kernel, hand-written model and theorem statements, differential (repetition) harness, leaf translator. Specific: libocr delivers the same '
                  'previous outcome, query and ordered observation list to every oracle; Go sort.SliceStable / sort.Slice are deterministic functions of their input; '
                  'randomised map iteration is sampled by 16 evaluations per case, not controlled; sha3 ids taken as collision free (hypothesis of the execute theorem); '
                  'goroutine timing does not enter Outcome / Reports (none are started there); JSON text layer and decoding are C20. No axioms.',
    'technique': 'Coq permutation-invariance theorems for the whole commit and execute outcome (composition DeterminismSys of the per-property models under every order '
                 'of every Go map); repetition harness on fresh and veteran plugin instances with a proved one-distinct-result judge; GetTransmissionSchedule '
                 're-translated from Go (C16_gen.v)',
}

"""C10 check specification."""


def _borrow(pid, sink, judge):
    """A harness part of another property, judged by that property's judge (coq_import)."""
    from importlib import import_module
    sp = import_module('specs.' + pid).SPEC
    for p in sp['parts']:
        if sink in p['sinks']:
            q = dict(p)
            q['sinks'] = {sink: judge}
            q['coq_import'] = sp['coq_check']
            return q
    raise KeyError((pid, sink))


SPEC = {
    'id': 'C10',
    'title': 'All honest oracles compute byte-identical outcomes and reports',
    'coq_check': 'C10_check',
    'parts': [
        {'pkg': 'commit', 'src': 'harness/commit/c10_test.go', 'test': 'TestVerif_C10_commit', 'fakes': True,
         'sinks': {'C10_commit': 'det_judge'}, 'n': {'quick': 80, 'thorough': 3000}},
        {'pkg': 'execute', 'src': 'harness/execute/c10_test.go', 'test': 'TestVerif_C10_exec', 'fakes': True,
         'sinks': {'C10_exec': 'det_judge'}, 'n': {'quick': 80, 'thorough': 3000}},
        # long-lived execute oracles on the real home-chain poller, role map changing between rounds: all oracles attach
        # one and the same transmission schedule to one outcome (borrowed from C16, judged by C16_check.rep_judge)
        _borrow('C16', 'C16_rep_exec_roles', 'rep_roles_judge'),
    ],
    'rule': 'each case = one (previous outcome, query, ordered attributed observation list, configuration); commit: DON sizes 4/7/10, '
            '2-5 source chains, every merkle-root state (select / build / build-retry / wait), per-chain vote patterns '
            'agree / exact 2f+1 / 2f / two values both at threshold / missing, equal timestamps, 1-4 tokens, fee data; execute: '
            'the three plugin states, honest agreement, honest disagreement on executed sets (two commit data for one report both at f+1), '
            'two messages for one sequence number, two nonces for one sender, equal timestamps, the same instant spelled Z and +00:00. '
            'Outcome and Reports are evaluated 16 times per case: 15 times on fresh plugin instances (fresh Go maps) and once on VETERAN instances that live across cases '
            '(execute: one pair per DON size for the whole run; commit: one pair per world of three cases) whose home-chain view is re-pointed to the case (restart equivalence: a restarted oracle and a long-running one agree), with a different own oracle id '
            'and a different process time zone (time.Local: UTC, +02:00, +14:00, -05:00) each time; the observable is the number of distinct '
            '(outcome bytes, report bytes, transmission schedule) results; plus (C16_rep_exec_roles) four LONG-LIVED execute oracles over the real home-chain poller whose role map is re-drawn between rounds: '
            'the distinct schedules they attach to one outcome (exactly one, that of the role map fetched last). non-trivial = the outcome is non-empty (> 100 bytes); distinct by a digest of the full input',
    'trusted': ['libocr delivers the same previous outcome, query and ordered observation list to every oracle',
                'Go sort.SliceStable / sort.Slice are deterministic functions of their input slice',
                'the effect of randomized map iteration is sampled by repetition on fresh instances (16 per case), not controlled'],
    'assumptions': ['the repetition harness can only witness order dependence that shows within 16 fresh evaluations; the theorems carry the unbounded claim'],
    'modelled': 'GetConsensusMap / minObservation.GetValid iteration order, sort-before-encode, last-writer-wins result maps, GetTransmissionSchedule, '
                'the %v identity of time.Time; the remaining plumbing of Plugin.Outcome is covered by the repetition harness only',
    'level_text': 'Proof: 9 Coq theorems — consensus maps sorted by key are independent of map iteration order and of vote arrival order (all maps, all '
                  'permutations); sorted outputs on unique keys are canonical; repaired GetValid is order independent and exact; schedule is order independent; '
                  'UTC-normalised timestamp identity is zone independent; pre-repair functions refuted by witness (F17, F25). Correspondence: commit and execute '
                  'Plugin.Outcome + Reports evaluated repeatedly on fresh instances / own ids / time zones must yield exactly one result per input.',
    'level_note': 'Trusted: Coq kernel, the model of the order-sensitive seams, libocr input agreement. The tie to the code is a repetition (sampling) harness for '
                  'map-order effects; goroutine timing does not enter Outcome/Reports (no goroutines are started there). No axioms.',
}

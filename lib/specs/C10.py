"""C10 check specification."""


def _borrow(pid, sink, judge):
    """A harness part of another property, judged by that property's judge (coq_import)."""
    from importlib import import_module
    sp = import_module('specs.' + pid).SPEC
    for p in sp['parts']:
        if sink in p['sinks']:
            q = dict(p)
            q['sinks'] = {sink: judge}
            q['coq_import'] = sp['coq_check']
            return q
    raise KeyError((pid, sink))


SPEC = {
    'id': 'C10',
    'title': 'All honest oracles compute byte-identical outcomes and reports',
    'coq_check': 'C10_check',
    'parts': [
        {'pkg': 'commit', 'src': 'harness/commit/c10_test.go', 'test': 'TestVerif_C10_commit', 'fakes': True,
         'sinks': {'C10_commit': 'det_judge'}, 'n': {'quick': 80, 'thorough': 3000}},
        {'pkg': 'execute', 'src': 'harness/execute/c10_test.go', 'test': 'TestVerif_C10_exec', 'fakes': True,
         'sinks': {'C10_exec': 'det_judge'}, 'n': {'quick': 80, 'thorough': 3000}},
        # long-lived execute oracles on the real home-chain poller, role map changing between rounds: all oracles attach
        # one and the same transmission schedule to one outcome (borrowed from C16, judged by C16_check.rep_judge)
        _borrow('C16', 'C16_rep_exec_roles', 'rep_roles_judge'),
    ],
    'rule': 'each case = one (previous outcome, query, ordered attributed observation list, configuration); commit: DON sizes 4/7/10, '
            '2-5 source chains, every merkle-root state (select / build / build-retry / wait), per-chain vote patterns '
            'agree / exact 2f+1 / 2f / two values both at threshold / missing, equal timestamps, 1-4 tokens, fee data; execute: '
            'the three plugin states, honest agreement, honest disagreement on executed sets (two commit data for one report both at f+1), '
            'two messages for one sequence number, two nonces for one sender, equal timestamps, the same instant spelled Z and +00:00. '
            'Outcome and Reports are evaluated 16 times per case: 15 times on fresh plugin instances (fresh Go maps) and once on VETERAN instances that live across cases '
            '(execute: one pair per DON size for the whole run; commit: one pair per world of three cases) whose home-chain view is re-pointed to the case (restart equivalence: a restarted oracle and a long-running one agree), with a different own oracle id '
            'and a different process time zone (time.Local: UTC, +02:00, +14:00, -05:00) each time; the observable is the number of distinct '
            '(outcome bytes, report bytes, transmission schedule) results; plus (C16_rep_exec_roles) four LONG-LIVED execute oracles over the real home-chain poller whose role map is re-drawn between rounds: '
            'the distinct schedules they attach to one outcome (exactly one, that of the role map fetched last). non-trivial = the outcome is non-empty (> 100 bytes); distinct by a digest of the full input',
    'trusted': ['libocr delivers the same previous outcome, query and ordered observation list to every oracle',
                'Go sort.SliceStable / sort.Slice are deterministic functions of their input slice',
                'the effect of randomized map iteration is sampled by repetition on fresh instances (16 per case), not controlled'],
    'assumptions': ['the repetition harness can only witness order dependence that shows within 16 fresh evaluations; the theorems carry the unbounded claim'],
    'modelled': 'WHOLE OUTCOME of both plugins (Model/DeterminismSys.v) as a function of (previous outcome, query, ordered attributed observations, configuration) and of a runtime '
                '= the order in which the Go runtime ranges over every internally built map: commit = aggregate -> getConsensusObservation -> merkle-root state machine (select / build / wait) '
                '-> Outcome.Sort (both variants of the off-ramp threshold, before / after the repair of F26; which one the code has is found by computation), token-price and chain-fee Outcome, discovery Outcome (composition of the C01/C03/C04/C14 models); execute = the five merges over minObservation '
                '(cache, GetValid in ascending id order, last-writer-wins maps) -> getCommitReportsOutcome / getMessagesOutcome / getFilterOutcome (C08 report builder) -> newSortedOutcome; '
                'Reports = (outcome, GetTransmissionSchedule of the role map). Plus the seams: GetConsensusMap / GetValid iteration order, sort-before-encode, the %v identity of time.Time. '
                'The canon functions have no own-oracle-id argument. Not modelled: JSON text layer (C20), decoding, the discovery step inside the execute plugin (same function as commit\'s), goroutines (none are started in Outcome/Reports)',
    'level_text': 'Proof: 27 Coq statements. Whole outcome (for all inputs, all runtimes): C10_commit_outcome_deterministic — merkle-root outcome (type, intervals, roots, off-ramp numbers, attempts, '
                  'signatures, RMN config), token prices, gas prices and discovery address maps are equal for every iteration order of every map in the observations (fChain, fee components, native prices, '
                  'fee / token updates, address maps), in the configuration (TokenInfo, FeeInfo) and of every internally built map; no hypothesis on the observations. C10_exec_outcome_deterministic — '
                  'the three execute states incl. the report builder, under re-ordering of CommitReports / Messages / TokenData / Nonces at both map levels, fChain, every minObservation cache and the '
                  'merged observation; hypothesis: ids faithful (sha3 collision free) — shown necessary by two witnesses; NO unique-sort-key hypothesis: consensus does not give unique keys (witness) '
                  'but stable sorts keep ties in id order (C10_exec_dupkey_refuted: with pre-F17 GetValid the outcome differs). C10_*_reports_deterministic / C10_schedule_role_map_only — schedule '
                  'depends on the role map only. Concrete 4-oracle rounds (all maps reversed + reversed runtime) as non-vacuity examples. Seams as before (9 theorems, F17 / F25 refutations). '
                  'Correspondence: the composed parts are the models judged by C04_round / C01 / C14 / C07 / C08 sinks (C10_commit_parts_are_the_judged_models); commit and execute '
                  'Plugin.Outcome + Reports evaluated repeatedly on fresh instances / own ids / time zones must yield exactly one result per input.',
    'level_note': 'Trusted: Coq kernel, the model of the order-sensitive seams, libocr input agreement. The tie to the code is a repetition (sampling) harness for '
                  'map-order effects; goroutine timing does not enter Outcome/Reports (no goroutines are started there). No axioms.',
}

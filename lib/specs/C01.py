"""C01 check specification (see lib/specs/__init__.py for the field reference)."""

def _borrow(pid, sink, judge):
    """A harness part of another property, judged by that property's judge (coq_import)."""
    from importlib import import_module
    sp = import_module('specs.' + pid).SPEC
    for p in sp['parts']:
        if sink in p['sinks']:
            q = dict(p)
            q['sinks'] = {sink: judge}
            q['coq_import'] = sp['coq_check']
            return q
    raise KeyError((pid, sink))


SPEC = {
    'id': 'C01',
    'title': 'Commit consensus needs 2f+1 distinct designated observers per chain',
    'coq_check': 'C01_check',
    'parts': [
        # whole rounds on long-lived plugins (C04's history part; rollout rounds without an agreed f), judged by C04's round judge
        _borrow('C04', 'C04_round', 'rd04_judge'),
        {'pkg': 'commit/merkleroot', 'pkgname': 'merkleroot',
         'src': 'harness/commit/merkleroot/c01_test.go', 'test': 'TestVerif_C01_mr', 'fakes': True,
         'sinks': {'C01_mr': 'mr_judge'}, 'n': {'quick': 600, 'thorough': 30000}},
        {'pkg': 'internal/plugincommon/discovery', 'pkgname': 'discovery',
         'src': 'harness/internal/plugincommon/discovery/c01_test.go', 'test': 'TestVerif_C01_disc', 'fakes': True,
         'sinks': {'C01_disc': 'disc_judge'}, 'n': {'quick': 500, 'thorough': 20000}},
        {'pkg': 'commit', 'src': 'harness/commit/c01_test.go', 'test': 'TestVerif_C01_plugin', 'fakes': True,
         'sinks': {'C01_plug': 'plug_judge'}, 'n': {'quick': 300, 'thorough': 10000}},
        {'pkg': 'commit', 'src': 'harness/commit/c01_test.go', 'test': 'TestVerif_C01_quorum', 'fakes': True,
         'sinks': {'C01_quorum': 'quorum_judge'}, 'n': {'quick': 100, 'thorough': 2000}},
    ],
    'known': {},   # F26 (off-ramp numbers agreed at the key chain f) is repaired by fixes/F26.patch; F03 (discovery on-ramp threshold without agreed dest f) is repaired by fixes/F03.patch, not recorded
    'rule': 'whole rounds of long-lived commit plugins (the C04 history part, sink C04_round, judged by the round judge of C04): Byzantine colluders, lost observations, role changes, and rollout rounds (1 in 8) in which three camps report three different f for one source chain so that the round has no agreed f for it; mr: DONs of 4..13 oracles (random ids), F = (N-1)/3 (plus F in {0,-1,random}), destination + 1..4 source chains with '
            'f_k in 1..3 and random reader sets; per chain and field (root / on-ramp max / off-ramp next / RMN remote config / fChain) '
            'the number of oracles voting value A is drawn from {0, thr-1, thr, thr+1, all} (off-ramp next: thr = the key chain threshold, the destination threshold, or any value from 2*min(f_k,f_dest)+1 to 2*max(f_k,f_dest)+1; class +fk!=fd) and a competing value B gets its own such count '
            '(B differs from A in exactly one component: root address / start / end / hash; RMN config signer key, node index, F, digest, version, address, report version; discovery address first byte / last byte / extra leading or trailing zero byte), the first holder of B being the reader with the lowest or the highest oracle id, observations handed over in ascending oracle id order (libocr) or shuffled; Byzantine stream: duplicate entries, foreign or unknown chains, off-ramp / RMN data '
            'from non-destination oracles, fChain claims <= 0 or inflated up to 2^63-1, malformed RMN configs, nil-vs-empty addresses, '
            'retry query, missing destination config, unknown oracle id. Every observation goes through Processor.ValidateObservation, the accepted '
            'ones through getConsensusObservation. disc: same DON shapes; five address maps with counts at {0,1,thr-1,thr,thr+1,all}, zero addresses, '
            'noise keys, no agreement on the destination f (F03 class), failing Sync. '
            'plug: JSON-encoded plugin observations (merkle-root + discovery parts + top-level fChain), f agreement counts at 2F+1-1/2F+1, per-field counts at the thresholds, '
            'one oracle repeating an entry 2f+1 times, unsupported chains, off-ramp data from non-destination oracles, fChain <= 0 / inflated; '
            'quorum: (N, F, count) around F+1, 2F+1, N-F. '
            'non-trivial = consensus computed on >= 3 accepted observations (mr, plug) / Sync called once with five maps (disc); distinct by full input',
    'trusted': ['home-chain role lookups (GetSupportedChainsForPeer / GetChainConfig) answered by the scripted fake vHomeChain: '
                'supported(o) = chains whose SupportedNodes contain o',
                'value identity in the case files = hand-written canonical encoding of every exported field (raw bytes in hex, numbers), '
                'independent of any String()/%v of the code under test; nil and empty byte strings are one value; '
                'that the implementation\'s vote identity (sha3 of the %v rendering) separates exactly these values is CHECKED, not assumed; '
                'sha3 collisions ignored',
                'fChain values and F fit Go int (64 bit)'],
    'assumptions': ['libocr delivers at most one observation per oracle per round and calls ValidateObservation before Outcome',
                    'Go maps inside an observation (FChain, Addresses[contract]) have unique keys by construction'],
    'level_text': 'Proof: 28 closed Coq theorems. 16 property theorems over the model of aggregateObservations / ValidateObservation / getConsensusObservation / '
                  'discovery Outcome, for all F, roles and validated observation lists with distinct oracles: the agreed f has 2F+1 distinct supporters and is unique '
                  '(C01_fchain); a per-chain value is in the outcome iff the f of the chain it is READ FROM is agreed and it is the unique value with 2f+1 distinct '
                  'designated reporters (C01_per_chain, C01_designated: key-chain f for roots / on-ramp numbers / RMN config, destination f for off-ramp next numbers of '
                  'every source key - repair F26 in /repo); one oracle has at most one vote per chain and field (C01_one_vote; needs validation: '
                  'C01_one_vote_unvalidated_refuted); at most f oracles can neither account for nor alter an agreed value (C01_byzantine, C01_byzantine_offramp, '
                  'C01_byzantine_cannot_alter); the same for the five discovered address maps, on-ramps at the destination f (C01_discovery, _reported, _byzantine). '
                  'Unrepaired code refuted: C01_offramp_key_f_unfixed_refuted (F26), C01_discovery_onramp_unfixed_refuted (F03). Judge soundness (12 C01_judge_*): for '
                  "each of the 4 sinks the executable property accepts the model's output and a passing implementation output satisfies the iff clauses verbatim. "
                  'Correspondence, every run: the real Processor.ValidateObservation + getConsensusObservation, discovery Outcome with a recording Sync, and '
                  'commit.Plugin built by NewPlugin (JSON observations through ValidateObservation + Outcome, ObservationQuorum) on vote vectors at the thresholds, '
                  'compared with the model; the same consensus model is judged round by round on four long-lived plugins in the C04 history (sink C04_round). Translation '
                  'tie: TwoFPlus1, FPlus1, the threshold predicates and the chain-set loops of the three merkle-root validators are re-translated from the Go source and '
                  "proved equal to the model (9 theorems, C01_gen.v). Not observable at plugin level: agreed roots (not part of that state's outcome).",
    'level_note': 'Trusted: Coq kernel, hand-written model and theorem statements, differential harness (its generators bound the correspondence), leaf translator. '
                  "Specific: home-chain role lookups are answered by the scripted fake vHomeChain; value identity in the case files is the harness's own canonical "
                  "encoding (that the code's sha3-of-%v vote identity separates exactly these values is checked; sha3 collisions ignored); F and fChain values fit a "
                  '64-bit Go int (generated thresholds proved for 0 <= f < 2^63, int overflow not modelled). libocr is modelled, not verified: at most one attributed '
                  'observation per oracle per round, ValidateObservation before Outcome. ObservationQuorum = 2F+1 is checked (sink C01_quorum) but no C01 theorem assumes '
                  'a quorum: they hold for every validated observation list. Plugin part: fresh and initialised instances, N in {4,7}, F in {1,2}, partial roles, '
                  'discovery enabled. No axioms.',
    'technique': 'Coq iff-characterisation of every consensus map over a hand-written Gallina model; differential correspondence (go test -overlay, vm_compute judge, '
                 'judge proved sound) on function, processor and plugin level; threshold functions and validator chain-set loops re-translated from Go (C01_gen.v)',
    'modelled': 'Hand model (Model/Consensus.v, CommitConsensus.v, Discovery.v): merkleroot aggregateObservations, Processor.ValidateObservation (+ ccipChainSupport '
                'lookups), getConsensusObservation, consensus.GetConsensusMap / minObservation / TwoFPlus1, discovery aggregateObservations + Outcome; '
                'commit.Plugin.ValidateObservation / Outcome as the composition plug_validate / mro_of (Check/C01_check.v). Translated from source per run: '
                'consensus.TwoFPlus1, FPlus1, GteFPlusOne, LtFPlusOne, LtTwoFPlusOne, the chain-set loops of validateObservedMerkleRoots / OnRampMaxSeqNums / '
                'OffRampMaxSeqNums. Inputs of the model (not modelled): home-chain role and f lookups, the oracle-id to peer-id map, the vote identity of a value '
                '(interned by the harness), CCIPReader.Sync (recorded)',
}

"""C01 check specification (see lib/specs/__init__.py for the field reference)."""

SPEC = {
    'id': 'C01',
    'title': 'Commit consensus needs 2f+1 distinct designated observers per chain',
    'coq_check': 'C01_check',
    'parts': [
        {'pkg': 'commit/merkleroot', 'pkgname': 'merkleroot',
         'src': 'harness/commit/merkleroot/c01_test.go', 'test': 'TestVerif_C01_mr', 'fakes': True,
         'sinks': {'C01_mr': 'mr_judge'}, 'n': {'quick': 600, 'thorough': 30000}},
        {'pkg': 'internal/plugincommon/discovery', 'pkgname': 'discovery',
         'src': 'harness/internal/plugincommon/discovery/c01_test.go', 'test': 'TestVerif_C01_disc', 'fakes': True,
         'sinks': {'C01_disc': 'disc_judge'}, 'n': {'quick': 500, 'thorough': 20000}},
        {'pkg': 'commit', 'src': 'harness/commit/c01_test.go', 'test': 'TestVerif_C01_plugin', 'fakes': True,
         'sinks': {'C01_plug': 'plug_judge'}, 'n': {'quick': 300, 'thorough': 10000}},
        {'pkg': 'commit', 'src': 'harness/commit/c01_test.go', 'test': 'TestVerif_C01_quorum', 'fakes': True,
         'sinks': {'C01_quorum': 'quorum_judge'}, 'n': {'quick': 100, 'thorough': 2000}},
    ],
    'known': {},   # F26 (off-ramp numbers agreed at the key chain f) is repaired by fixes/F26.patch; F03 (discovery on-ramp threshold without agreed dest f) is repaired by fixes/F03.patch, not recorded
    'rule': 'mr: DONs of 4..13 oracles (random ids), F = (N-1)/3 (plus F in {0,-1,random}), destination + 1..4 source chains with '
            'f_k in 1..3 and random reader sets; per chain and field (root / on-ramp max / off-ramp next / RMN remote config / fChain) '
            'the number of oracles voting value A is drawn from {0, thr-1, thr, thr+1, all} (off-ramp next: thr = the key chain threshold, the destination threshold, or any value from 2*min(f_k,f_dest)+1 to 2*max(f_k,f_dest)+1; class +fk!=fd) and a competing value B gets its own such count '
            '(B differs from A in exactly one component: root address / start / end / hash; RMN config signer key, node index, F, digest, version, address, report version; discovery address first byte / last byte / extra leading or trailing zero byte), the first holder of B being the reader with the lowest or the highest oracle id, observations handed over in ascending oracle id order (libocr) or shuffled; Byzantine stream: duplicate entries, foreign or unknown chains, off-ramp / RMN data '
            'from non-destination oracles, fChain claims <= 0 or inflated up to 2^63-1, malformed RMN configs, nil-vs-empty addresses, '
            'retry query, missing destination config, unknown oracle id. Every observation goes through Processor.ValidateObservation, the accepted '
            'ones through getConsensusObservation. disc: same DON shapes; five address maps with counts at {0,1,thr-1,thr,thr+1,all}, zero addresses, '
            'noise keys, no agreement on the destination f (F03 class), failing Sync. '
            'plug: JSON-encoded plugin observations (merkle-root + discovery parts + top-level fChain), f agreement counts at 2F+1-1/2F+1, per-field counts at the thresholds, '
            'one oracle repeating an entry 2f+1 times, unsupported chains, off-ramp data from non-destination oracles, fChain <= 0 / inflated; '
            'quorum: (N, F, count) around F+1, 2F+1, N-F. '
            'non-trivial = consensus computed on >= 3 accepted observations (mr, plug) / Sync called once with five maps (disc); distinct by full input',
    'trusted': ['home-chain role lookups (GetSupportedChainsForPeer / GetChainConfig) answered by the scripted fake vHomeChain: '
                'supported(o) = chains whose SupportedNodes contain o',
                'value identity in the case files = hand-written canonical encoding of every exported field (raw bytes in hex, numbers), '
                'independent of any String()/%v of the code under test; nil and empty byte strings are one value; '
                'that the implementation\'s vote identity (sha3 of the %v rendering) separates exactly these values is CHECKED, not assumed; '
                'sha3 collisions ignored',
                'fChain values and F fit Go int (64 bit)'],
    'assumptions': ['libocr delivers at most one observation per oracle per round and calls ValidateObservation before Outcome',
                    'Go maps inside an observation (FChain, Addresses[contract]) have unique keys by construction'],
    'level_text': 'Proof: Coq theorems over the executable model of aggregateObservations / ValidateObservation / getConsensusObservation / '
                  'discovery Outcome for all F, role assignments and validated observation lists with distinct oracles: agreed f has 2F+1 distinct '
                  'supporters and is unique; a per-chain value is in the outcome iff the f of the chain it is READ FROM is agreed and it is the unique value with 2f+1 distinct '
                  'designated reporters — f of the key chain for roots / on-ramp numbers / RMN config, f of the destination for off-ramp next numbers of every source key '
                  '(as repaired by fixes/F26.patch; C01_offramp_key_f_unfixed_refuted: at the key chain f three destination readers, |B| = f_dest, alone added a number or blocked the agreement of 2*f_dest+1 others); '
                  'one oracle contributes at most one vote per chain and field; at most f oracles cannot account for an agreed value (C01_byzantine, C01_byzantine_offramp); '
                  'same for the five discovered address maps. Correspondence: the real functions run against the model and an independent '
                  'distinct-oracle counting property on generated vote vectors every run',
    'level_note': 'Trusted: Coq kernel, hand-written model, differential harness. No axioms. Plugin level: commit.Plugin built by NewPlugin '
                  '(discovery enabled, fresh and initialised instances, N in {4,7}, F in {1,2}, partial roles) through ValidateObservation + Outcome, '
                  'verdicts judged against the MODEL\'s validation; ObservationQuorum = 2F+1 (no C01 theorem assumes a quorum: they hold for every '
                  'validated observation list).',
    'modelled': 'aggregateObservations, Processor.ValidateObservation (+ ccipChainSupport lookups), getConsensusObservation, '
                'consensus.GetConsensusMap / minObservation / TwoFPlus1, discovery aggregateObservations + Outcome',
}

"""C12 check specification (see lib/specs/__init__.py for the field reference)."""

SPEC = {
    'id': 'C12',
    'title': 'Observations count only from oracles designated for the chain observed',
    'coq_check': 'C12_check',
    'parts': [
        {'pkg': 'commit', 'src': 'harness/commit/c12_test.go', 'test': 'TestVerif_C12_commit', 'fakes': True,
         'sinks': {'C12_commit': 'cv_judge'}, 'n': {'quick': 1500, 'thorough': 40000}},
        {'pkg': 'execute', 'src': 'harness/execute/c12_test.go', 'test': 'TestVerif_C12_exec', 'fakes': True,
         'sinks': {'C12_exec': 'ev_judge'}, 'n': {'quick': 1200, 'thorough': 30000}},
        {'pkg': 'commit', 'src': ['harness/commit/c12_test.go', 'harness/commit/c11c12_hist_test.go', 'harness/commit/c12h_test.go'],
         'test': 'TestVerif_C12_commit_hist', 'fakes': True,
         'sinks': {'C12_commit_hist': 'cvh_judge', 'C12_commit_api': 'api_judge'}, 'n': {'quick': 8, 'thorough': 100}},
        {'pkg': 'execute', 'src': ['harness/execute/c12_test.go', 'harness/execute/c11c12_hist_test.go', 'harness/execute/c12h_test.go'],
         'test': 'TestVerif_C12_exec_hist', 'fakes': True,
         'sinks': {'C12_exec_hist': 'evh_judge', 'C12_exec_api': 'api_judge'}, 'n': {'quick': 8, 'thorough': 100}},
    ],
    # class number = Roles.fclass_code of the field class whose role check is missing
    'known': {'9': 'F07'},
    'rule': 'RMN remote config shapes: complete with 1..3 signers, non-empty only through F=1, complete except F=0 and no signers (RMN not enforced), address only; round context: every verdict is taken in a randomly drawn round - commit: previous merkle outcome type (none, '
            'ReportIntervalsSelected .. ReportTransmissionFailed, out of range) x query (empty / retry flag / RMN signatures present / both) x '
            'RMN enabled or not x discovery processor present or not x contracts initialised or not; execute: previous outcome state '
            '(none, Unknown, Initialized, GetCommitReports, GetMessages, Filter) x discovery present or not x contracts initialised or not; '
            'in retry rounds the merkle part is kept empty 3 times in 4 so that the other validators decide; the model uses only the retry flag '
            'and the presence of the discovery processor (without it the discovery part is judged as absent), any other dependence on the round '
            'is a mismatch and, for role data, a violated property. '
            'one real plugin (NewPlugin over a scripted home chain) per case; role configurations with 4..7 oracles, '
            'destination, 2..3 sources and a feed chain that is its own chain / a source / the destination, role shapes '
            'all / random subsets / group without destination / group without feed, rarely destination not configured or '
            'observer without peer id; observation = conformant filling (nothing / some / every field the observer may '
            'fill) plus one injected field class the observer is not designated for (every class of both plugins, alone and '
            'together with legitimate fields), plus malformed (duplicates, nil or non-positive values, bad fChain, broken RMN '
            'config, unknown contract name), retry queries, chain KEYS with an empty inner value (Messages / TokenData / Nonces / CommitReports entries with an empty map or list, a discovery '
            'contract name with an empty address map) alone and - class cross - together with non-empty data about the SAME non-designated chain in another map-typed field (every ordered '
            'pair of the four execute fields): the model follows the code, an empty inner value is not an observation about the chain and the verdict is decided by the non-empty fields; '
            'feed prices and fee-quoter update values 0 / negative / 2^200 (validation accepts any non-nil value), chain keys without configured F (execute: rejected by '
            'validateObservedChains whatever the role, so not counted as a rejection on role grounds); verdict of Plugin.ValidateObservation after a '
            'JSON round trip. non-trivial = at least one non-empty field and an observer that does not read every chain; '
            'distinct by full input. '
            'commit_hist / exec_hist (long-lived instances): VERIF_N histories; per history one DON of 4 or 7 oracles, per oracle ONE real home-chain poller '
            '(internal/reader homeChainPoller, 2 ms polling) over a scripted CCIPHome contract reader and ONE plugin (NewPlugin) on it, kept for the whole '
            'history; 5..8 steps, each changes the chain configs on the contract (a chain given to / taken from an oracle keeping its others, the '
            'destination taken / given, an oracle dropped from / added to every chain, F changed, readers rotated, a chain removed / added (rarely the '
            'destination), two oracles swapped, a reader of another DON, several at once, a change whose poll fails, or empty-config: every chain config removed so that a SUCCESSFUL poll answers with an empty first page - the role map is then the empty one; the step after it either brings the old configuration back (the contract answered one empty page) or builds a new role map from nothing) and waits until every poller has '
            'completed a fetch that started after the change; then observations generated against the CURRENT role map are validated on the long-lived '
            'instances (instance 0 always - it has looked every oracle up before every change -, the instance of the step number and a random one; in the first '
            'round every instance validates every oracle): one per oracle (the generator above) plus targeted ones - for every designation just removed an '
            'observation of that oracle with a field class about the removed chain, for every designation just given a fully conformant observation that '
            'includes the added chain. A case carries the poll results the pollers went through; the role map is computed in Coq (model: through the poller '
            'state machine; property: latest successful poll only). commit_api / exec_api: after every step one instance is asked GetSupportedChainsForPeer, '
            'GetKnownCCIPChains, GetChainConfig, GetFChain, GetAllChainConfigs, ChainSupport.SupportedChains / SupportsDestChain / KnownSourceChainsSlice',
    'trusted': ['home-chain reader answers (GetSupportedChainsForPeer, GetChainConfig) are scripted by a fake that mirrors '
                'internal/reader/home_chain.go (no lookup errors other than unknown chain / unknown oracle)',
                'JSON encoding of observations round-trips the fields validation looks at',
                'in the *_hist / *_api parts the home chain is the real poller; only the CCIPHome contract reader below it is scripted (getAllChainConfigs '
                'answers / failures); the harness waits for two fetch attempts per poller after every change (the second can only start after setState of the first)'],
    'assumptions': ['query, observation and previous outcome are decodable (undecodable ones are rejected before any role check)',
                    'a plugin without discovery processor neither validates nor uses the discovery part (Plugin.Outcome guards it the same way)'],
    'level_text': 'Proof: 56 closed Coq theorems. 41 property theorems over the executable model of commit / execute Plugin.ValidateObservation as wired (Roles.v, shared '
                  'with C11): the verdict is EXACTLY observer known, destination configured, role-independent well-formedness, and every field about a chain the observer '
                  'reads (C12_commit_verdict, C12_exec_verdict: iff); 15 reject theorems, one per checked field class (roots, sequence numbers, RMN config, fees and '
                  'prices, messages, nonces, token data, costly flags, discovered addresses); accept theorems for role-conformant observations. Histories: for EVERY list '
                  'of poller events interleaved with validation rounds the verdict of a round is that characterisation on the latest successfully fetched configuration '
                  'alone (C12_history_*_verdict; induction through the C18 snapshot theorem): a removed designation stops counting with the poll that shows it, a new one '
                  'counts at once (C12_history_*_accepted_designated, _accept), C12_history_role_map, C12_history_empty_poll. Unrepaired code refuted: F04 (discovery '
                  'validator never called), F05, F06, F07a (8 _unfixed_refuted theorems). Known finding F07: commit reports inside execute observations are not '
                  'role-checked (C12_reject_commit_reports_refuted, C12_exec_except_known) - not checkable without rejecting honest oracles. Judge soundness (15 '
                  "C12_judge_*): for each of the 6 sinks the executable property accepts the model's output and pins the verdict to the iff. Correspondence, every run: "
                  'plugin-level verdicts of both real plugins on generated observations per field class; 4 or 7 LONG-LIVED plugins each on its own REAL home-chain poller '
                  'over a scripted CCIPHome through 5..8 role-map changes of 15 kinds, every verdict and every poller / ChainSupport getter judged on the latest '
                  'successfully fetched configuration. No translated leaf function (the validators range over Go maps: refused by the translator). Partial: inside class '
                  'F07 the model, like the code, accepts; mutants that only change those fields for non-designated observers are masked.',
    'level_note': 'Trusted: Coq kernel, hand-written model and theorem statements, differential harness. Specific: home-chain answers (GetSupportedChainsForPeer, '
                  'GetChainConfig) come from a fake that mirrors internal/reader/home_chain.go in the per-world parts; in the history parts the home chain is the real '
                  'poller and only the CCIPHome contract reader below it is scripted (the harness waits for two fetch attempts per poller after every change; scripted '
                  'polls are one page); JSON encoding of observations round-trips the fields validation looks at. Assumed: query, observation and previous outcome are '
                  'decodable (undecodable ones are rejected before any role check); a plugin without discovery processor neither validates nor uses the discovery part. '
                  'Known finding F07 stays reported as KNOWN-FINDING (class 9). No axioms.',
    'technique': 'Coq iff-characterisation of both ValidateObservation verdicts plus one reject theorem per field class, and induction over poller event histories '
                 'through the C18 snapshot theorem, over a hand-written Gallina model; differential correspondence with proved judge (verdict pinned) on real plugins '
                 'and on long-lived plugins over the real home-chain poller',
    'modelled': 'commit.Plugin.ValidateObservation with merkleroot / tokenprice / chainfee / discovery validators, execute.Plugin.ValidateObservation with '
                'validateObserverReadingEligibility, validateObservedSequenceNumbers and the discovery validator; ChainSupport lookups over the home-chain '
                'configuration; homeChainPoller (setState, getters) and plugincommon.ChainSupport through the C18 model (Pollers.v) composed with Roles.v in '
                'RolesHist.v. Nothing of this property is translated from source (validateObservedSequenceNumbers, validateMessageKeys, validateFChain loop over Go '
                'maps: refused by the translator). Inputs of the model: the role map / chain configs (scripted CCIPHome answers), reader call results and failures, the '
                'observation under validation',
}

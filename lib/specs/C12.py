"""C12 check specification (see lib/specs/__init__.py for the field reference)."""

SPEC = {
    'id': 'C12',
    'title': 'Observations count only from oracles designated for the chain observed',
    'coq_check': 'C12_check',
    'parts': [
        {'pkg': 'commit', 'src': 'harness/commit/c12_test.go', 'test': 'TestVerif_C12_commit', 'fakes': True,
         'sinks': {'C12_commit': 'cv_judge'}, 'n': {'quick': 1500, 'thorough': 40000}},
        {'pkg': 'execute', 'src': 'harness/execute/c12_test.go', 'test': 'TestVerif_C12_exec', 'fakes': True,
         'sinks': {'C12_exec': 'ev_judge'}, 'n': {'quick': 1200, 'thorough': 30000}},
    ],
    # class number = Roles.fclass_code of the field class whose role check is missing
    'known': {'9': 'F07'},
    'rule': 'round context: every verdict is taken in a randomly drawn round - commit: previous merkle outcome type (none, '
            'ReportIntervalsSelected .. ReportTransmissionFailed, out of range) x query (empty / retry flag / RMN signatures present / both) x '
            'RMN enabled or not x discovery processor present or not x contracts initialised or not; execute: previous outcome state '
            '(none, Unknown, Initialized, GetCommitReports, GetMessages, Filter) x discovery present or not x contracts initialised or not; '
            'in retry rounds the merkle part is kept empty 3 times in 4 so that the other validators decide; the model uses only the retry flag '
            'and the presence of the discovery processor (without it the discovery part is judged as absent), any other dependence on the round '
            'is a mismatch and, for role data, a violated property. '
            'one real plugin (NewPlugin over a scripted home chain) per case; role configurations with 4..7 oracles, '
            'destination, 2..3 sources and a feed chain that is its own chain / a source / the destination, role shapes '
            'all / random subsets / group without destination / group without feed, rarely destination not configured or '
            'observer without peer id; observation = conformant filling (nothing / some / every field the observer may '
            'fill) plus one injected field class the observer is not designated for (every class of both plugins, alone and '
            'together with legitimate fields), plus malformed (duplicates, nil or non-positive values, bad fChain, broken RMN '
            'config, unknown contract name), retry queries, empty inner maps, chain keys without configured F (execute: rejected by '
            'validateObservedChains whatever the role, so not counted as a rejection on role grounds); verdict of Plugin.ValidateObservation after a '
            'JSON round trip. non-trivial = at least one non-empty field and an observer that does not read every chain; '
            'distinct by full input',
    'trusted': ['home-chain reader answers (GetSupportedChainsForPeer, GetChainConfig) are scripted by a fake that mirrors '
                'internal/reader/home_chain.go (no lookup errors other than unknown chain / unknown oracle)',
                'JSON encoding of observations round-trips the fields validation looks at'],
    'assumptions': ['query, observation and previous outcome are decodable (undecodable ones are rejected before any role check)',
                    'a plugin without discovery processor neither validates nor uses the discovery part (Plugin.Outcome guards it the same way)'],
    'level_text': 'Proof: Coq theorems over the executable model of commit/execute Plugin.ValidateObservation as wired: the verdict is '
                  'exactly (observer known, destination configured, role-independent well-formedness, every field outside the recorded '
                  'classes about a chain the observer reads); one reject theorem per checked field class (merkle roots, on-ramp and off-ramp '
                  'numbers, RMN remote config, fee components, native prices, feed prices, fee-quoter updates, chain-fee updates, messages, '
                  'nonces, token data, costly flags, discovered addresses in both plugins), accept theorems for role-conformant observations, '
                  'witness refutation for the one class the code does not role-check (commit reports inside execute observations) and for the '
                  'pre-repair functions (F04, F05, F06, F07); correspondence: plugin-level verdicts of both plugins against the model every run',
    'level_note': 'Trusted: Coq kernel, hand-written model, differential harness, scripted home chain. No axioms. The recorded class '
                  '(F07: commit reports in execute observations) masks mutants that only change the treatment of those fields from non-designated observers.',
    'modelled': 'commit.Plugin.ValidateObservation with merkleroot / tokenprice / chainfee / discovery validators, '
                'execute.Plugin.ValidateObservation with validateObserverReadingEligibility, validateObservedSequenceNumbers and the '
                'discovery validator; ChainSupport lookups over the home-chain configuration',
}

"""C13 check specification."""



def _borrow(pid, sink, judge):
    """A function-level harness part of another property, judged here only for panics / hangs (Check/C13_check.v p_*)."""
    from importlib import import_module
    sp = import_module('specs.' + pid).SPEC
    for p in sp['parts']:
        if sink in p['sinks']:
            q = dict(p)
            q['sinks'] = {sink: judge}
            q['coq_import'] = sp['coq_check']
            return q
    raise KeyError((pid, sink))


SPEC = {
    'id': 'C13',
    'title': 'Malformed or adversarial inputs produce errors, never panics or hangs',
    'coq_check': 'C13_check',
    'parts': [
        _borrow('C17', 'C17_trunc', 'p_c17_trunc'), _borrow('C17', 'C17_step', 'p_c17_step'),
        _borrow('C09', 'C09_ranges', 'p_c09_ranges'), _borrow('C09', 'C09_filter', 'p_c09_filter'), _borrow('C09', 'C09_pending', 'p_c09_pend'),
        _borrow('C08', 'C08_add_0', 'p_c08_add'), _borrow('C08', 'C08_sel', 'p_c08_sel'),
        {'pkg': 'commit/merkleroot/rmn', 'pkgname': 'rmn', 'src': 'harness/commit/merkleroot/rmn/c06_test.go', 'test': 'TestVerif_C06_sweep',
         'sinks': {'C06_sweep': 'c06_judge'}, 'n': {'quick': 1, 'thorough': 6}},
        {'pkg': 'commit', 'src': 'harness/commit/c13_test.go', 'test': 'TestVerif_C13_commit', 'fakes': True, 'extra_libs': ['vmutate'],
         'sinks': {'C13_commit': 'sweep_judge'}, 'n': {'quick': 400, 'thorough': 40000}},
        {'pkg': 'execute', 'src': 'harness/execute/c13_test.go', 'test': 'TestVerif_C13_exec', 'fakes': True, 'extra_libs': ['vmutate'],
         'sinks': {'C13_exec': 'sweep_judge'}, 'n': {'quick': 400, 'thorough': 40000}},
        {'pkg': 'commit', 'src': ['harness/commit/c11_test.go', 'harness/commit/c13_test.go', 'harness/commit/c13r_test.go'], 'test': 'TestVerif_C13_commit_reader',
         'fakes': True, 'extra_libs': ['vmutate'], 'sinks': {'C13_reader_commit': 'sweep_judge'}, 'n': {'quick': 2, 'thorough': 12}},
        {'pkg': 'execute', 'src': ['harness/execute/c11_test.go', 'harness/execute/c13_test.go', 'harness/execute/c13r_test.go'], 'test': 'TestVerif_C13_exec_reader',
         'fakes': True, 'extra_libs': ['vmutate'], 'sinks': {'C13_reader_exec': 'sweep_judge'}, 'n': {'quick': 2, 'thorough': 12}},
    ],
    'rule': 'exhaustive single-site mutation sweep: honest traffic of both plugins (commit: 4 scenarios select / build / build with a leader-supplied RMN bundle '
            'while RMN is disabled / wait; execute: the three phases; N=4 oracles; each scenario under three discovery configurations: no discovery processor, discovery enabled with '
            'contracts initialised, discovery enabled on a fresh instance) is serialised, every node of every JSON document (observation of one oracle, query, '
            'previous outcome, outcome fed to Reports, report, report info) is enumerated and mutated in 9 ways (null, empty, zero, 2^64-1, negative, duplicate element, '
            'delete, type confusion, big / odd string), and every callback that consumes the document is driven under recover() and a 3 s watchdog: ValidateObservation, '
            'then Outcome and Reports only with observations that individually passed validation, Observation / Query on mutated previous outcomes and queries, '
            'ShouldAccept / ShouldTransmit on mutated reports; plus random double-site mutations of the observation (quick 400, thorough 40 000) and a raw byte stream (truncated, random, single-byte corrupted, tiny literals) at every entry point. '
            'One case per (document, site, mutation, callback); the observable is the termination code (returned / panicked / watchdog). C13_reader_*: every answer a scripted contract reader gives while either plugin observes through the real ccipChainReader (all phases) is mutated at every JSON node in turn (reader results: nil-valued, empty, inconsistent). The RMN controller\'s response '
            'handling is swept by the C06 harness (sink C06_sweep, judged here too): every single anomaly and every PAIR of anomalies out of 38 observation-response and 14 signature-response anomalies '
            '(extra / duplicate / missing lanes, root lengths 0/5/31/33, nil sub-messages, wrong ids and senders, wrong interval / on-ramp / digest, bad signatures, garbage bodies) applied to one response of an honest run; outcome kinds panic and watchdog are violations. Borrowed parts: the function-level harnesses of C17 (truncateObservation / truncateLastCommit / truncateChain), C09 (computeRanges, '
            'filterOutExecutedMessages, getPendingExecutedReports) and C08 (report builder Add, selectReport) are run again here and judged ONLY for the termination kind they recorded (recovered panic / watchdog = violation; '
            'judges p_* in Check/C13_check.v). non-trivial: every case; distinct by digest',
    'trusted': ['encoding/json, protobuf, math/big, hex.DecodeString, big.Int.SetString never panic on any input (library oracles)',
                'logging calls with %v of arbitrary values do not panic',
                'contract-reader results are those of the real ccipChainReader guards (nil big integers are turned into errors there) — the fakes answer within that contract'],
    'assumptions': ['absence of panics is PROVED only for the modelled dereference / index / loop sites; the sweep validates that the modelled set is complete for single-site '
                    'mutations of the swept traffic, it is a test, not a proof',
                    'hangs are modelled as loops whose trip count is not bounded by the input size and missing context checks, not as scheduler behaviour'],
    'modelled': 'custom JSON unmarshalers with explicit slice bounds, execute state decoding + PluginState.Next, getMessagesOutcome range loop, Median / aggregators over nil big '
                'integers with the validation that guards them, RMN controller response handling (C06 model), observation truncation (C17 model)',
    'level_text': 'PARTIAL. Proof: 14 Coq theorems over res-monad (Ok / Err / Panic / Spin) models of the panic and spin sites — unmarshalers never panic for any byte string; any '
                  'previous-outcome state string is rejected or advanced; the repaired message loop is total and refines the original; validated aggregates never dereference nil; '
                  'the RMN controller never panics and returns by the deadline for every event list; truncation is total — with witness theorems for the pre-repair code '
                  '(F09, F10, F12a, F19a, F19b, F20). Correspondence: the exhaustive single-site mutation sweep (about 30 000 cases) must find no panic and no hang.',
    'level_note': 'Partial by nature: a theorem excludes panics only at modelled sites; code the model abstracts (logging, third-party libraries, goroutine scheduling) is covered '
                  'by the sweep only. Trusted: Coq kernel, models, library oracles. No axioms.',
}

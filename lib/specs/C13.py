"""C13 check specification (work in progress)."""

SPEC = {
    'id': 'C13',
    'title': 'Malformed or adversarial inputs produce errors, never panics or hangs',
    'coq_check': 'C13_check',
    'parts': [
        {'pkg': 'commit', 'src': 'harness/commit/c13_test.go', 'test': 'TestVerif_C13_commit', 'fakes': True, 'extra_libs': ['vmutate'],
         'sinks': {'C13_commit': 'sweep_judge'}, 'n': {'quick': 1000000, 'thorough': 1000000}},
        {'pkg': 'execute', 'src': 'harness/execute/c13_test.go', 'test': 'TestVerif_C13_exec', 'fakes': True, 'extra_libs': ['vmutate'],
         'sinks': {'C13_exec': 'sweep_judge'}, 'n': {'quick': 1000000, 'thorough': 1000000}},
    ],
    'rule': 'WIP', 'trusted': [], 'assumptions': [], 'modelled': '', 'level_text': 'WIP', 'level_note': 'WIP',
}

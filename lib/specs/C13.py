"""C13 check specification."""



def _borrow(pid, sink, judge):
    """A function-level harness part of another property, judged here only for panics / hangs (Check/C13_check.v p_*)."""
    from importlib import import_module
    sp = import_module('specs.' + pid).SPEC
    for p in sp['parts']:
        if sink in p['sinks']:
            q = dict(p)
            q['sinks'] = {sink: judge}
            q['coq_import'] = sp['coq_check']
            return q
    raise KeyError((pid, sink))


SPEC = {
    'id': 'C13',
    'title': 'Malformed or adversarial inputs produce errors, never panics or hangs',
    'coq_check': 'C13_check',
    'parts': [
        _borrow('C17', 'C17_trunc', 'p_c17_trunc'), _borrow('C17', 'C17_step', 'p_c17_step'),
        _borrow('C09', 'C09_ranges', 'p_c09_ranges'), _borrow('C09', 'C09_filter', 'p_c09_filter'), _borrow('C09', 'C09_pending', 'p_c09_pend'),
        _borrow('C08', 'C08_add_0', 'p_c08_add'), _borrow('C08', 'C08_sel', 'p_c08_sel'),
        _borrow('C11', 'C11_commit_hist', 'p_c11_cch'), _borrow('C11', 'C11_exec_hist', 'p_c11_ceh'),
        # the context handed to the RMN controller by commit Query inherits the caller's deadline / cancellation and is bounded
        # by RMNSignaturesTimeout (judged by inspecting the context, no wall-clock measurement)
        {'pkg': 'commit/merkleroot', 'pkgname': 'merkleroot', 'src': 'harness/commit/merkleroot/c13q_test.go', 'test': 'TestVerif_C13_query_ctx',
         'fakes': True, 'sinks': {'C13_query_ctx': 'sweep_judge'}, 'n': {'quick': 1, 'thorough': 1}},
        {'pkg': 'commit/merkleroot/rmn', 'pkgname': 'rmn', 'src': 'harness/commit/merkleroot/rmn/c06_test.go', 'test': 'TestVerif_C06_sweep',
         'sinks': {'C06_sweep': 'c06_judge'}, 'n': {'quick': 1, 'thorough': 6}},
        {'pkg': 'commit', 'src': 'harness/commit/c13_test.go', 'test': 'TestVerif_C13_commit', 'fakes': True, 'extra_libs': ['vmutate'],
         'sinks': {'C13_commit': 'sweep_judge'}, 'shard': 6000, 'n': {'quick': 400, 'thorough': 40000}},
        {'pkg': 'execute', 'src': 'harness/execute/c13_test.go', 'test': 'TestVerif_C13_exec', 'fakes': True, 'extra_libs': ['vmutate'],
         'sinks': {'C13_exec': 'sweep_judge'}, 'shard': 6000, 'n': {'quick': 400, 'thorough': 40000}},
        {'pkg': 'commit', 'src': ['harness/commit/c11_test.go', 'harness/commit/c13_test.go', 'harness/commit/c13r_test.go'], 'test': 'TestVerif_C13_commit_reader',
         'fakes': True, 'extra_libs': ['vmutate'], 'sinks': {'C13_reader_commit': 'sweep_judge'}, 'n': {'quick': 2, 'thorough': 12}},
        {'pkg': 'execute', 'src': ['harness/execute/c11_test.go', 'harness/execute/c13_test.go', 'harness/execute/c13r_test.go'], 'test': 'TestVerif_C13_exec_reader',
         'fakes': True, 'extra_libs': ['vmutate'], 'sinks': {'C13_reader_exec': 'sweep_judge'}, 'n': {'quick': 2, 'thorough': 12}},
        # directed (guard, use) site classes of Model/PanicSites2.v, one part per package that owns the functions
        {'pkg': 'commit', 'src': 'harness/commit/c13s_test.go', 'test': 'TestVerif_C13_sites_commit', 'fakes': True, 'extra_libs': ['vmutate'],
         'sinks': {'C13_sites_commit': 'site_judge'}, 'n': {'quick': 1, 'thorough': 1}},
        {'pkg': 'commit/merkleroot', 'pkgname': 'merkleroot', 'src': 'harness/commit/merkleroot/c13s_test.go', 'test': 'TestVerif_C13_sites_merkleroot',
         'fakes': True, 'extra_libs': ['vmutate'], 'sinks': {'C13_sites_merkleroot': 'site_judge'}, 'n': {'quick': 1, 'thorough': 1}},
        {'pkg': 'commit/merkleroot/rmn', 'pkgname': 'rmn', 'src': 'harness/commit/merkleroot/rmn/c13s_test.go', 'test': 'TestVerif_C13_sites_rmn',
         'extra_libs': ['vmutate'], 'sinks': {'C13_sites_rmn': 'site_judge'}, 'n': {'quick': 1, 'thorough': 1}},
        {'pkg': 'execute', 'src': 'harness/execute/c13s_test.go', 'test': 'TestVerif_C13_sites_exec', 'fakes': True, 'extra_libs': ['vmutate'],
         'sinks': {'C13_sites_exec': 'site_judge'}, 'n': {'quick': 1, 'thorough': 1}},
        {'pkg': 'execute/report', 'pkgname': 'report', 'src': 'harness/execute/report/c13s_test.go', 'test': 'TestVerif_C13_sites_report',
         'extra_libs': ['vmutate'], 'sinks': {'C13_sites_report': 'site_judge'}, 'n': {'quick': 1, 'thorough': 1}},
        {'pkg': 'pkg/reader', 'pkgname': 'reader', 'src': 'harness/pkg/reader/c13s_test.go', 'test': 'TestVerif_C13_sites_reader',
         'extra_libs': ['vmutate'], 'sinks': {'C13_sites_reader': 'site_judge'}, 'n': {'quick': 1, 'thorough': 1}},
    ],
    'rule': 'exhaustive single-site mutation sweep: honest traffic of both plugins (commit: 4 scenarios select / build / build with a leader-supplied RMN bundle '
            'while RMN is disabled / wait; execute: the three phases; N=4 oracles; each scenario under three discovery configurations: no discovery processor, '
            'discovery enabled with contracts initialised, discovery enabled on a fresh instance) is serialised, every node of every JSON document (observation of '
            'one oracle, query, previous outcome, outcome fed to Reports, report, report info) is enumerated and mutated in 9 ways (null, empty, zero, 2^64-1, '
            'negative, duplicate element, delete, type confusion, big / odd string), and every callback that consumes the document is driven under recover() and a '
            '3 s watchdog (a watch that stretches when the test process itself is starved, with a second chance of 6 s before a hang is recorded; it never depends '
            'on the wall clock alone): ValidateObservation, then Outcome and Reports only with observations that individually passed validation, Observation / '
            'Query on mutated previous outcomes and queries, ShouldAccept / ShouldTransmit on mutated reports; plus random double-site mutations of the observation '
            '(quick 400, thorough 40 000) and a raw byte stream (truncated, random, single-byte corrupted, tiny literals) at every entry point. One case per '
            '(document, site, mutation, callback); the observable is the termination code (returned / panicked / watchdog). C13_reader_*: every answer a scripted '
            'contract reader gives while either plugin observes through the real ccipChainReader (all phases) is mutated at every JSON node in turn (reader '
            "results: nil-valued, empty, inconsistent). The RMN controller's response handling is swept by the C06 harness (sink C06_sweep, judged here too): every "
            'single anomaly and every PAIR of anomalies out of 38 observation-response and 14 signature-response anomalies (extra / duplicate / missing lanes, root '
            'lengths 0/5/31/33, nil sub-messages, wrong ids and senders, wrong interval / on-ramp / digest, bad signatures, garbage bodies) applied to one response '
            'of an honest run; outcome kinds panic and watchdog are violations. Borrowed parts: the function-level harnesses of C17 (truncateObservation / '
            'truncateLastCommit / truncateChain), C09 (computeRanges, filterOutExecutedMessages, getPendingExecutedReports) and C08 (report builder Add, '
            'selectReport) are run again here and judged ONLY for the termination kind they recorded (recovered panic / watchdog = violation; judges p_* in '
            'Check/C13_check.v). C13_sites_*: directed classes, one per (guard, use) pair of Model/PanicSites2.v, run in the package that owns the functions '
            '(commit, commit/merkleroot, commit/merkleroot/rmn, execute, execute/report, pkg/reader): the REAL function pair is called with inputs around the guard '
            'boundary — lengths n-2..n+2 of the two lists of every zip site (reader answers vs. things asked about, token data vs. messages, token data of two '
            'observers), index idx in {0, 1, len-1, len, len+1} against both lengths of checkMessage, nil / empty / 31 / 32 / 33 / 64-byte fields of every entry of '
            "the query's RMN bundle behind a good entry, all 16 combinations of (BuildingReport, retry, bundle present, remote config empty) of verifyQuery, "
            'Deviates on {0, +-1, 2, +-1000, 1e18}^2, Append at len-1 / len / len+1 / len+7, KeepNRightBytes with n in {0, 1, 19, 20, 21, 32, 33, MaxUint}, USDC '
            'payloads of 0 / 31 / 32 / 59 / 63 / 64 / 65 bytes, fee components and prices present / nil, packed fee updates nil / 0 / 1 / negative / 2^200 with and '
            'without timestamp, price feed answers nil x decimals {0, 6, 17, 18, 19, 36, 255}, a chain writer answering (nil, nil), and the executed-range loop of '
            'filterOutExecutedMessages on reports [hi-w, hi], w in {0, 1, 3}, hi in {20, 2^64-2, 2^64-1}, with executed ranges around both ends (watchdog 150 ms + '
            '300 ms second chance, same kind of watch; the part stops at the first hang because the loop also allocates without bound). A case is (abstract site '
            "input, 0 returned / 1 returned an error / 2 panicked / 3 did not return); Coq evaluates the site's model on the same input and compares the code "
            'exactly (a guard that became weaker or stricter is a mismatch), the executable property is "never 2 or 3". C13_query_ctx: merkleroot.Processor.Query '
            'with a scripted controller that inspects the context it is handed, for RMNSignaturesTimeout in {50 ms, 5 s, 24 h} x caller context in {background, '
            'deadline in one hour, already cancelled} (9 cases): the context must carry a deadline no later than both bounds and be cancelled with the caller (no '
            'wall-clock measurement). The C11 history parts (long-lived plugins over the real home-chain poller through role-map changes) are borrowed as well and '
            'judged for panics only. non-trivial: every case; distinct by digest',
    'trusted': ['encoding/json, protobuf, math/big, hex.DecodeString, big.Int.SetString never panic on any input (library oracles)',
                'logging calls with %v of arbitrary values do not panic',
                'contract-reader results are those of the real ccipChainReader guards (nil big integers are turned into errors there) — the fakes answer within that contract'],
    'assumptions': ['absence of panics is PROVED only for the modelled dereference / index / loop sites (docs/c13_sites.md lists every site found by the analyser '
                    'with its status); the sweeps validate that the modelled set is complete for single-site mutations of the swept traffic, they are tests, not proofs',
                    'hangs are modelled as loops whose trip count is not bounded by the input size and missing context checks, not as scheduler behaviour',
                    'the (guard, use) models abstract payloads to their lengths / nil-ness; what the guarded code computes with the values is other properties\' business'],
    'modelled': 'PanicSites.v: custom JSON unmarshalers with explicit slice bounds, execute state decoding + PluginState.Next, getMessagesOutcome range loop, Median / '
                'aggregators over nil big integers with the validation that guards them; Rmn.v (C06): RMN controller response handling; Truncate.v (C17): observation '
                'truncation; PanicSites2.v: 26 (guard, use) pairs — the seven "length check before zip loop" sites (ValidateMerkleRootsState, '
                'ObserveOffRampNextSeqNums, ObserveFeedTokenPrices, getAllOffRampSourceChainsConfig, buildSingleChainReportHelper, tokendata.merge, '
                'GetFeeQuoterTokenUpdates), checkMessage and the builder loop, NewECDSASigFromPB, NewLaneUpdatesFromPB, verifyQuery / buildReport on the query bundle, '
                'Deviates (and on medians of validated values), MessageTokenData.Append, the nested map writes of mergeTokenObservations, validateRootLengths + '
                'Bytes32(root), values[len-1] of gotSufficientObservationResponses, KeepNRightBytes, unpackID, NewSourceTokenDataPayloadFromBytes, '
                'MessageExecCostUSD18, GetChainFeePriceUpdate + FromPackedFee, MessageFeeUSD18 (F70), the executed-range loop of filterOutExecutedMessages (F71), '
                'getRawTokenPriceE18Normalized (F73), GetChainsFeeComponents (F74). Translated from source per run: exectypes.PluginState.Next, IsValid with the state '
                'constant block, SeqNumRange.Contains (C13_gen.v); filterOutExecutedMessages is refused by the translator and stays hand-modelled. Not modelled (swept '
                'only): the 291 rows marked so in docs/c13_sites.md',
    'level_text': 'PARTIAL. Proof: 79 closed Coq theorems. 69 property theorems over res-monad (Ok / Err / Panic / Spin) models of panic and non-termination sites. First '
                  'batch (14): the custom unmarshalers never panic for any byte string; any previous-outcome state string is rejected or advanced; the repaired '
                  'message-range loop is total and refines the original; validated aggregates never dereference nil; the RMN controller never panics and returns by the '
                  'deadline for every event list (C06); truncation is total (C17). Second batch (55, PanicSites2): for each of 26 (guard, use) pairs "the function as it '
                  'stands never panics / spins for ALL inputs" (C13_<site>_never_panics) plus a _guard_needed_refuted witness that the bare use panics; for the five '
                  'sites that had NO guard (F70..F74, repaired in /repo) the repaired function is total and equal to the original wherever that one returned, with '
                  '_unfixed_refuted witnesses. Judge soundness (10 C13_judge_*): sweep sinks accept exactly "returned"; site sinks accept the model\'s code and imply '
                  'no_crash; borrowed sinks are judged for the termination kind only. Correspondence, every run: exhaustive single-site JSON mutation sweep of honest '
                  'traffic through every callback of both real plugins under recover() and a watchdog, plus raw byte streams (about 100 000 cases); every answer of the '
                  'scripted contract readers below the real ccipChainReader mutated at every node (C13_reader_*); directed boundary classes drive the REAL (guard, use) '
                  'pairs and must agree with the models code for code (C13_sites_*); the context Query hands to the RMN controller is inspected (C13_query_ctx); the C06 '
                  'anomaly-pair sweep, the function harnesses of C08, C09, C17 and the C11 history parts are re-run and judged for panics / hangs. Translation tie (5 '
                  'theorems, C13_gen.v): PluginState.Next, IsValid, Contains. Partial because a theorem excludes panics only at MODELLED sites: of 788 analyser-listed '
                  'sites (docs/c13_sites.md) 356 are modelled and proved, 291 are swept only, 141 unreachable; hangs are modelled as unbounded loops and missing context '
                  'checks, not as scheduling.',
    'level_note': 'Partial by nature: code the models abstract (logging, third-party libraries, goroutine scheduling) is covered by the sweeps only, which are tests, not '
                  'proofs. Trusted: Coq kernel, hand-written models and theorem statements, differential harness (watchdogs never depend on the wall clock alone, '
                  'docs/timing_audit.md), leaf translator, the go/types + call-graph analyser that lists the sites. Specific: encoding/json, protobuf, math/big, '
                  'hex.DecodeString, big.Int.SetString and logging with %v never panic (library oracles); contract-reader fakes answer within the contract of the real '
                  'ccipChainReader guards; the (guard, use) models abstract payloads to lengths / nil-ness; division by zero of big.Int is not modelled by the '
                  'translator. No axioms.',
    'technique': 'Coq totality theorems (never Panic / Spin for all inputs, guard-needed witnesses) over res-monad Gallina models of 356 audited sites; exhaustive JSON '
                 '/ reader-answer mutation sweeps and directed guard-boundary classes on the real code with a proved judge; PluginState.Next / IsValid / Contains '
                 're-translated from Go. Partial: unmodelled sites are swept only',
}

"""C04 check specification."""

SPEC = {
    'id': 'C04',
    'title': 'Commit history: destination sequence numbers stay contiguous; no stale sends',
    'coq_check': 'C04_check',
    'parts': [
        {'pkg': 'commit', 'src': 'harness/commit/c04_test.go', 'test': 'TestVerif_C04_history', 'fakes': True,
         'sinks': {'C04_transmit': 'tr_judge', 'C04_final': 'fin_judge', 'C04_round': 'rd_judge'}, 'n': {'quick': 40, 'thorough': 1500}},
        {'pkg': 'commit/merkleroot', 'pkgname': 'merkleroot', 'src': 'harness/commit/merkleroot/c04_test.go', 'test': 'TestVerif_C04_state', 'fakes': True,
         'sinks': {'C04_state': 'st_judge'}, 'n': {'quick': 800, 'thorough': 30000}},
    ],
    'rule': 'rollout rounds (1 round in 8 of every history): three camps of oracles report three different f for one source chain, none 2F+1 strong - the chain must be left out of that round whatever earlier rounds agreed; C04_transmit / C04_final: simulated DON histories with real commit.Plugin instances over one shared world; the DON shape is drawn per history: '
            'n4 (3 histories of 5; 36 rounds): 4 oracles, F = 1, f = 1 on every chain, destination read by all, a source chain possibly not by one oracle, destination f = 2 in class fdest2 (f_dest != f_k, F26), optional Byzantine oracle 3; '
            'n7 / n10 (1 of 5 each; 24 / 18 rounds): 7 / 10 oracles, F = 2 / 3, a role DON with a small destination committee (f_dest = 1, read by oracles 0..3 only) and larger source committees (f_src in {1,2} / {2,3}, at least one '
            'f_src > f_dest, read by 3*f_src+1 .. N oracles, so some oracles lack the destination and some honest transmitters lack a source), 0 .. F Byzantine oracles (at most f_dest among the destination readers, at most f_src among '
            'the readers of each source) that COLLUDE: per round all of them forge the same thing — the same root for the selected interval(s), an advanced on-ramp or off-ramp number, silence — or lie on their own (altered roots / numbers / intervals, '
            'multi-vote shapes repeating a forged entry 2f+1 times non-adjacently); reader storms in building rounds cut the honest source reads of one selected chain down to 0, 2*f_dest, 2*f_dest+1, 2*f_src or 2*f_src+1 readers, and in attack rounds '
            '(a selected chain with >= 2*f_dest+1 colluding readers) below 2*f_dest+1 while all colluders report the same forged root. '
            'World: two source chains growing 0-3 messages per round, finality lagging behind the unconfirmed on-ramp latest, per-oracle reader lag 0-2, '
            'per-round NextSeqNum / MsgsBetweenSeqNums failures (scripted error kinds rotate), lost observations, random leader, tree size 2 / 4 / 256, attested reports lost, delayed 0-5 rounds, sent by two '
            'transmitters, mined one step late; outcomes computed by the honest destination readers 0,1,2 who also take the transmission turns; one case per ShouldTransmitAcceptedReport evaluation (roots with ground-truth root bit, cursor, '
            'reader failure) and one per history (all landed reports, final off-ramp content, outcome divergences between the 3 honest oracles). '
            'C04_round: every round of those histories as (F of that history, previous outcome, query, decoded attributed observations with their fChain maps) -> outcome, judged against the composition of the C01 and C03 models (whole-plugin wiring of commit.Plugin.Outcome). C04_state: ValidateMerkleRootsState on generated roots x cursors (start = / ahead of / behind the cursor, duplicate chains, '
            'reader error, short and long answers). non-trivial = report has roots / history landed >= 2 reports; distinct by full input',
    'trusted': ['the off-ramp contract model (OffRamp.commit: root accepted iff minSeqNr == stored next and min <= max; cursor := max+1; any failing root reverts the report)',
                'libocr: every honest oracle gets the same validated observation list; attested reports are only handed to ShouldAccept/ShouldTransmit',
                'honest readers return only true finalized messages of the queried chain (reader_honest); message hasher is a function of the message'],
    'assumptions': ['at most f_k oracles outside the honest set per chain (f_k = agreed fChain value)',
                    'liveness (C04_liveness): same-view honest quorum in every non-retry selecting / building round, messages pending, selected intervals readable; RMN-retry rounds are not counted'],
    'modelled': 'Hand model (Model/Transmit.v, CommitSys.v, CommitLive.v with CommitSM.v, CommitConsensus.v, CommitMerkle.v): ValidateMerkleRootsState / '
                "ShouldTransmitAcceptedReport's roots check, the off-ramp commit entry point (apply_roots / land), true_root over an append-only log, "
                "commit.Plugin.Outcome's merkle-root wiring as the composition consensus (C01) + root observation (C02) + state machine and report building (C03). "
                'Translated from source per run: the leaf functions of C01, C02, C03 (thresholds, validator chain-set loops, Limit, msgsCoverRange, computeMerkleRoot '
                'prefix, NextState). Inputs of the model: reader answers, decoded attributed observations, query, landing schedule. libocr itself (leader election, '
                'attestation, transmission protocol) and the real off-ramp contract are not modelled',
    'level_text': 'Proof: 35 closed Coq theorems. 15 property theorems. Safety: the transmit-time re-check forces start = then-current cursor for every report and '
                  'destination state and blocks on a reader failure (C04_transmit_starts_at_cursor, C04_no_stale_send); the off-ramp keeps every chain contiguous under '
                  'ANY sequence of landing reports (C04_committed_contiguous); with <= f_k Byzantine oracles per chain every agreed root is the true root '
                  '(C04_honest_root_true, C04_agreed_root_true: composition with C01 and C02); report roots are agreed roots. Liveness is proved IN FULL over histories '
                  '(CommitLive): C04_honest_quorum_consensus (2f+1 same-view reporters, f of the chain the value is read from, make the C01 consensus succeed with that '
                  'value); C04_liveness (from EVERY previous outcome, over every history whose selecting / building rounds contain such a quorum with messages pending '
                  'and readable, some outcome within (max+2)+2 non-retry rounds is a generated report with a root of chain k over [off, min(on, off+n-1)]), '
                  '_fixed_cursor, _true_root, _nonvacuous (one Byzantine oracle, bound reached). Unrepaired code refuted: C04_liveness_unfixed_refuted (F26, repaired in '
                  '/repo: an all-honest legal configuration never selected an interval). Judge soundness (20 C04_judge_*): for each of the 4 sinks the executable '
                  "property accepts the model's output and implies the Prop-level clause; the liveness theorems are restated over any chain of judged implementation "
                  'outcomes. Correspondence, every run: 4, 7 or 10 real long-lived commit.Plugin instances over one world run 18..36-round histories (colluding Byzantine '
                  'oracles, f_dest != f_k, reader storms, lost / delayed / duplicated transmissions); every transmit verdict, the final off-ramp content and every '
                  "round's outcome (plugin wiring, sink C04_round) are judged; ValidateMerkleRootsState at function level. Translation tie: the 23 theorems of C01_gen.v, "
                  'C02_gen.v, C03_gen.v are re-checked. Outside: RMN-retry rounds are unbounded (a silent RMN stalls building); attestation, transmission and landing are '
                  'libocr / chain.',
    'level_note': 'Trusted: Coq kernel, hand-written model and theorem statements, differential harness, leaf translator. Specific: the off-ramp contract is a MODEL '
                  '(root accepted iff min = stored next and min <= max, cursor := max+1, a failing root reverts the report); libocr gives every honest oracle the same '
                  'validated observation list and hands only attested reports to ShouldAccept / ShouldTransmit; honest readers return only true finalised messages of the '
                  'queried chain; the ground-truth root bit of a case is computed by the harness. Safety assumes at most f_k oracles outside the honest set per chain. '
                  'Liveness hypotheses are all in the statement (what "2f+1 honest readers of the chain share the view" grants): every non-retry selecting / building '
                  'round contains a same-view honest quorum, chain k has pending messages, selected intervals are readable; not proved: a bound on RMN-retry rounds, '
                  'anything after ReportGenerated. The bound is reached only at max = 0. Verdicts 0 / error of the transmit gate are compared with the model only. No '
                  'axioms.',
    'technique': 'Coq theorems (induction over report lists and round histories; system composition CommitSys / CommitLive of the C01, C02, C03 models plus an off-ramp '
                 'model); DON simulation of real long-lived commit plugins judged per verdict, per round and per history by a proved judge; leaf functions of C01-C03 '
                 're-translated from Go',
}

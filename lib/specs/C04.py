"""C04 check specification."""

SPEC = {
    'id': 'C04',
    'title': 'Commit history: destination sequence numbers stay contiguous; no stale sends',
    'coq_check': 'C04_check',
    'parts': [
        {'pkg': 'commit', 'src': 'harness/commit/c04_test.go', 'test': 'TestVerif_C04_history', 'fakes': True,
         'sinks': {'C04_transmit': 'tr_judge', 'C04_final': 'fin_judge', 'C04_round': 'rd_judge'}, 'n': {'quick': 40, 'thorough': 1500}},
        {'pkg': 'commit/merkleroot', 'pkgname': 'merkleroot', 'src': 'harness/commit/merkleroot/c04_test.go', 'test': 'TestVerif_C04_state', 'fakes': True,
         'sinks': {'C04_state': 'st_judge'}, 'n': {'quick': 800, 'thorough': 30000}},
    ],
    'rule': 'C04_transmit / C04_final: simulated DON histories with real commit.Plugin instances over one shared world; the DON shape is drawn per history: '
            'n4 (3 histories of 5; 36 rounds): 4 oracles, F = 1, f = 1 on every chain, destination read by all, a source chain possibly not by one oracle, destination f = 2 in class fdest2 (f_dest != f_k, F26), optional Byzantine oracle 3; '
            'n7 / n10 (1 of 5 each; 24 / 18 rounds): 7 / 10 oracles, F = 2 / 3, a role DON with a small destination committee (f_dest = 1, read by oracles 0..3 only) and larger source committees (f_src in {1,2} / {2,3}, at least one '
            'f_src > f_dest, read by 3*f_src+1 .. N oracles, so some oracles lack the destination and some honest transmitters lack a source), 0 .. F Byzantine oracles (at most f_dest among the destination readers, at most f_src among '
            'the readers of each source) that COLLUDE: per round all of them forge the same thing — the same root for the selected interval(s), an advanced on-ramp or off-ramp number, silence — or lie on their own (altered roots / numbers / intervals, '
            'multi-vote shapes repeating a forged entry 2f+1 times non-adjacently); reader storms in building rounds cut the honest source reads of one selected chain down to 0, 2*f_dest, 2*f_dest+1, 2*f_src or 2*f_src+1 readers, and in attack rounds '
            '(a selected chain with >= 2*f_dest+1 colluding readers) below 2*f_dest+1 while all colluders report the same forged root. '
            'World: two source chains growing 0-3 messages per round, finality lagging behind the unconfirmed on-ramp latest, per-oracle reader lag 0-2, '
            'per-round NextSeqNum / MsgsBetweenSeqNums failures (scripted error kinds rotate), lost observations, random leader, tree size 2 / 4 / 256, attested reports lost, delayed 0-5 rounds, sent by two '
            'transmitters, mined one step late; outcomes computed by the honest destination readers 0,1,2 who also take the transmission turns; one case per ShouldTransmitAcceptedReport evaluation (roots with ground-truth root bit, cursor, '
            'reader failure) and one per history (all landed reports, final off-ramp content, outcome divergences between the 3 honest oracles). '
            'C04_round: every round of those histories as (F of that history, previous outcome, query, decoded attributed observations with their fChain maps) -> outcome, judged against the composition of the C01 and C03 models (whole-plugin wiring of commit.Plugin.Outcome). C04_state: ValidateMerkleRootsState on generated roots x cursors (start = / ahead of / behind the cursor, duplicate chains, '
            'reader error, short and long answers). non-trivial = report has roots / history landed >= 2 reports; distinct by full input',
    'trusted': ['the off-ramp contract model (OffRamp.commit: root accepted iff minSeqNr == stored next and min <= max; cursor := max+1; any failing root reverts the report)',
                'libocr: every honest oracle gets the same validated observation list; attested reports are only handed to ShouldAccept/ShouldTransmit',
                'honest readers return only true finalized messages of the queried chain (reader_honest); message hasher is a function of the message'],
    'assumptions': ['at most f_k oracles outside the honest set per chain (f_k = agreed fChain value)',
                    'liveness (C04_liveness): same-view honest quorum in every non-retry selecting / building round, messages pending, selected intervals readable; RMN-retry rounds are not counted'],
    'modelled': 'ValidateMerkleRootsState, the off-ramp, the composition consensus (C01) + root observation (C02) + report building (C03); '
                'libocr itself (leader election, attestation, transmission protocol) is not modelled',
    'level_text': 'Proof: 15 Coq theorems — transmit-time re-check forces start = then-current cursor for every report and destination state; no stale sends; '
                  'the off-ramp keeps every chain contiguous under ANY sequence of landing reports (induction over the report list); honest observations carry the '
                  'true root (composition with C02); with <= f_k Byzantine per chain every agreed root is the true root (composition with C01); report roots are '
                  'agreed roots (C03 model). Liveness (full, Proofs/CommitLiveP.v): C04_honest_quorum_consensus (a same-view quorum — 2f+1 distinct reporters of v, at most f '
                  'reporting anything else, f = f of the chain the data is read from: f_k for merkle root / on-ramp latest, f_dest for off-ramp next; the f values agreed at 2F+1 — '
                  'makes the C01 consensus succeed with v as the agreed value); C04_liveness (from EVERY previous outcome, over every history whose selecting / building rounds '
                  'contain such a quorum with messages pending and the selected interval readable: within (max+2)+2 non-retry rounds a ReportGenerated outcome contains a root of '
                  'chain k over [off, min(on, off+n-1)] — C03_recovery composed with the select / build rounds, RMN bundle covered, cursor allowed to move; C04_liveness_fixed_cursor '
                  'for the unchanged-cursor reading); C04_liveness_true_root (that root is the true merkle root, composition with C04_agreed_root_true); C04_liveness_nonvacuous '
                  '(4 oracles, one Byzantine: hypotheses met, bound (max+2)+2 reached at max = 0); C04_liveness_unfixed_refuted (F26, repaired by fixes/F26.patch: with the off-ramp '
                  'numbers agreed at the source chain f — all 7 oracles honest, identical views, 4 destination readers, f_dest = 1, f_k = 2 — no interval of chain k was ever selected; '
                  'the repaired processor selects it). Correspondence: 4, 7 or 10 real plugin instances (per-history DON shape: N, F, per-chain f and reader sets, colluding Byzantine oracles) run whole histories (observation -> validation -> outcome -> reports -> accept -> '
                  'transmit -> land; f_dest < f_src in the 7- and 10-oracle histories, f_dest > f_k in class fdest2) and every transmit verdict and final off-ramp state is judged against the model and the '
                  'executable property; the round function the liveness theorems are stated over is the one judged by sink C04_round.',
    'level_note': 'Liveness hypotheses (all in the statement, each granted by "2f+1 honest readers of the chain concerned share the view"): every non-retry selecting / building round contains a '
                  'same-view honest quorum (a round whose leader withholds or sets the retry flag outside the building state has none), chain k has pending messages, selected intervals are readable '
                  'by the quorum, waiting rounds need nothing. Not proved: a bound on RMN-retry rounds (they reproduce the previous outcome; an RMN that never answers stalls the building state), and '
                  'anything after ReportGenerated (attestation, transmission, landing are libocr / chain). The bound is reached only at max = 0 (max+3 otherwise). '
                  'Trusted: Coq kernel, model, off-ramp contract semantics, libocr contract. No axioms.',
}

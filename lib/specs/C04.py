"""C04 check specification."""

SPEC = {
    'id': 'C04',
    'title': 'Commit history: destination sequence numbers stay contiguous; no stale sends',
    'coq_check': 'C04_check',
    'parts': [
        {'pkg': 'commit', 'src': 'harness/commit/c04_test.go', 'test': 'TestVerif_C04_history', 'fakes': True,
         'sinks': {'C04_transmit': 'tr_judge', 'C04_final': 'fin_judge', 'C04_round': 'rd_judge'}, 'n': {'quick': 40, 'thorough': 1500}},
        {'pkg': 'commit/merkleroot', 'pkgname': 'merkleroot', 'src': 'harness/commit/merkleroot/c04_test.go', 'test': 'TestVerif_C04_state', 'fakes': True,
         'sinks': {'C04_state': 'st_judge'}, 'n': {'quick': 800, 'thorough': 30000}},
    ],
    'rule': 'C04_transmit / C04_final: simulated DON histories of 36 rounds with 4 real commit.Plugin instances over one shared world '
            '(two source chains growing 0-3 messages per round, finality lagging behind the unconfirmed on-ramp latest, per-oracle reader lag 0-2, '
            'per-round NextSeqNum / MsgsBetweenSeqNums failures, lost observations, random leader, optional Byzantine oracle 3 that alters roots / '
            'off-ramp numbers / on-ramp numbers / intervals, tree size 2 / 4 / 256, attested reports lost, delayed 0-5 rounds, sent by two '
            'transmitters, mined one step late); one case per ShouldTransmitAcceptedReport evaluation (roots with ground-truth root bit, cursor, '
            'reader failure) and one per history (all landed reports, final off-ramp content, outcome divergences between the 3 honest oracles). '
            'C04_round: every round of those histories as (previous outcome, query, decoded attributed observations) -> outcome, judged against the composition of the C01 and C03 models (whole-plugin wiring of commit.Plugin.Outcome). C04_state: ValidateMerkleRootsState on generated roots x cursors (start = / ahead of / behind the cursor, duplicate chains, '
            'reader error, short and long answers). non-trivial = report has roots / history landed >= 2 reports; distinct by full input',
    'trusted': ['the off-ramp contract model (OffRamp.commit: root accepted iff minSeqNr == stored next and min <= max; cursor := max+1; any failing root reverts the report)',
                'libocr: every honest oracle gets the same validated observation list; attested reports are only handed to ShouldAccept/ShouldTransmit',
                'honest readers return only true finalized messages of the queried chain (reader_honest); message hasher is a function of the message'],
    'assumptions': ['at most f_k oracles outside the honest set per chain (f_k = agreed fChain value)',
                    'liveness is exercised by the histories (reports do get produced and land) but proved only at round level in C03 (recovery bound) — see DESIGN'],
    'modelled': 'ValidateMerkleRootsState, the off-ramp, the composition consensus (C01) + root observation (C02) + report building (C03); '
                'libocr itself (leader election, attestation, transmission protocol) is not modelled',
    'level_text': 'Proof: 8 Coq theorems — transmit-time re-check forces start = then-current cursor for every report and destination state; no stale sends; '
                  'the off-ramp keeps every chain contiguous under ANY sequence of landing reports (induction over the report list); honest observations carry the '
                  'true root (composition with C02); with <= f_k Byzantine per chain every agreed root is the true root (composition with C01); report roots are '
                  'agreed roots (C03 model). Correspondence: 4 real plugin instances run whole histories (observation -> validation -> outcome -> reports -> accept -> '
                  'transmit -> land) and every transmit verdict and final off-ramp state is judged against the model and the executable property.',
    'level_note': 'PARTIAL for liveness: "a report covering pending messages is produced within a bounded number of rounds" is proved only as the C03 recovery bound '
                  '(max-checks+2 rounds back to interval selection) plus the two-round select/build path; the same-view hypothesis it needs is named in DESIGN. '
                  'Trusted: Coq kernel, model, off-ramp contract semantics, libocr contract. No axioms.',
}

"""C02 check specification (see lib/specs/__init__.py for the field reference)."""

SPEC = {
    'id': 'C02',
    'title': 'Commit intervals start at off-ramp next, are bounded; roots cover them exactly',
    'coq_check': 'C02_check',
    'parts': [
        {'pkg': 'pkg/types/ccipocr3', 'pkgname': 'ccipocr3',
         'src': 'harness/pkg/types/ccipocr3/c02_test.go', 'test': 'TestVerif_C02_limit',
         'sinks': {'C02_lim': 'lim_judge'}, 'n': {'quick': 500, 'thorough': 40000}},
        {'pkg': 'commit/merkleroot', 'pkgname': 'merkleroot', 'fakes': True,
         'src': 'harness/commit/merkleroot/c02_test.go', 'test': 'TestVerif_C02_ranges',
         'sinks': {'C02_rng': 'rng_judge'}, 'n': {'quick': 600, 'thorough': 30000}},
        {'pkg': 'commit/merkleroot', 'pkgname': 'merkleroot', 'fakes': True,
         'src': 'harness/commit/merkleroot/c02_test.go', 'test': 'TestVerif_C02_roots',
         'sinks': {'C02_roots': 'roots_judge'}, 'n': {'quick': 600, 'thorough': 30000}},
    ],
    'known': {'2': 'F01b'},
}

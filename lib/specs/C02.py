"""C02 check specification (see lib/specs/__init__.py for the field reference)."""

SPEC = {
    'id': 'C02',
    'title': 'Commit intervals start at off-ramp next, are bounded; roots cover them exactly',
    'coq_check': 'C02_check',
    'parts': [
        {'pkg': 'pkg/types/ccipocr3', 'pkgname': 'ccipocr3',
         'src': 'harness/pkg/types/ccipocr3/c02_test.go', 'test': 'TestVerif_C02_limit',
         'sinks': {'C02_lim': 'lim_judge'}, 'n': {'quick': 500, 'thorough': 40000}},
        {'pkg': 'commit/merkleroot', 'pkgname': 'merkleroot', 'fakes': True,
         'src': 'harness/commit/merkleroot/c02_test.go', 'test': 'TestVerif_C02_ranges',
         'sinks': {'C02_rng': 'rng_judge'}, 'n': {'quick': 500, 'thorough': 30000}},
        {'pkg': 'commit/merkleroot', 'pkgname': 'merkleroot', 'fakes': True,
         'src': 'harness/commit/merkleroot/c02_test.go', 'test': 'TestVerif_C02_roots',
         'sinks': {'C02_roots': 'roots_judge'}, 'n': {'quick': 500, 'thorough': 30000}},
    ],
    'known': {'2': 'F01b'},
    'rule': 'lim: fixed 19x19x10 boundary grid {0..3,254..258,2^63-1..2^63+1,2^64-258..2^64-255,2^64-3..2^64-1}^2 x '
            '{0,1,2,3,255,256,257,2^63,2^64-2,2^64-1} plus a random stream (size n-1/n/n+1, near 2^64, inverted, full range); '
            'rng: 0..12 chains, each (off,on) pair drawn from equal / on=off-1 / size n-1,n,n+1 / much larger / inverted / 0 / '
            'near 2^64 / full range / on missing / off missing, tree size in {1,2,3,16,255,256,257,300,1000,2^63,2^64-1,0}; half through '
            'reportRangesOutcome with a constructed consensus observation, half through Processor.Outcome with 4 oracles (F=1) '
            'voting identically and every previous outcome type that leads to the selecting state; '
            'roots: the first 10 cases of every run are single intervals of 255, 256, 257, 300, 513 and 1000 sequence numbers (around and above '
            'the 256 leaves of one merkle tree) read completely, then 0..5 requested intervals (sizes 1..17, 1 in 60 of 255..300; at 0, mid, '
            'ending at 2^64-1, inverted, full), scripted reader answer per '
            'chain from complete / honest database reader that holds the interval and its neighbours and answers exactly the range it is asked for / unordered / prefix / suffix / gap / duplicate (extra, replacing) / window shifted up or down / '
            'extra below or above / wrong source chain (one, all) / empty / nil / error / hasher error / one short, '
            'supported-chain set and on-ramp address lookup with failures. '
            'non-trivial = lim: valid range, n>=1, size within one of n or end within 257 of 2^64; rng: >= 1 chain with something '
            'pending and n >= 1; roots: >= 1 supported interval with a non-error reader answer; distinct by full input',
    'trusted': ['CCIPReader.MsgsBetweenSeqNums, GetContractAddress, ChainSupport.SupportedChains and the message hasher are oracles '
                '(scripted fakes); the theorems hold for every answer',
                'keccak HashInternal / ZeroHash (chainlink-common hashutil) enter the model as an abstract hash h and constant zero; in '
                'the correspondence the model tree is evaluated through a table of real HashInternal results logged by the harness',
                'merklemulti.NewTree is modelled from its source (pad odd layer with zero hash, hash neighbours pairwise)',
                'sort.Slice is modelled as a stable sort; on inputs with equal keys the modelled code rejects the input anyway',
                'len(msgs) < 2^64'],
    'assumptions': ['agreed on-ramp / off-ramp maps (the consensus result) are inputs; that they need 2f+1 observers is C01',
                    'MaxMerkleTreeSize >= 1 (plugin constructor replaces 0 by 256)'],
    'level_text': 'Proof: 16 Coq theorems. Limit = [s, min(e, s+n-1)] for all uint64 ranges and n >= 1 with no wrap-around; selected '
                  'intervals characterised exactly (iff) for all agreed maps, sorted, no chain twice, size <= n, omitted when nothing '
                  'pending, independent of Go map order; a root is reported iff the reader answer holds every sequence number of the '
                  'interval exactly once, the hasher and address lookup succeed, and the root is the tree over the hashes in sequence '
                  'order (independent of the order of the answer). Refutations of the unrepaired Limit (F02) and unrepaired observation '
                  '(F01); F01b (header source chain unchecked) recorded with _refuted/_except_known. Correspondence: Limit, '
                  'reportRangesOutcome / Processor.Outcome and ObserveMerkleRoots run against the model every run',
    'level_note': 'Trusted: Coq kernel, hand-written model, differential harness. Reader, hasher, address and chain-support answers are '
                  'oracles; keccak is abstract (no collision-freeness is claimed or needed). No axioms.',
    'modelled': 'SeqNumRange.Limit, reportRangesOutcome (ranges and carried off-ramp cursor; the RMN remote config field is part of C03/C05), '
                'ObserveMerkleRoots, msgsCoverRange, computeMerkleRoot, merklemulti.NewTree/Root; goroutine completion order is '
                'abstracted (roots compared as a multiset)',
}

"""C02 check specification (see lib/specs/__init__.py for the field reference)."""

SPEC = {
    'id': 'C02',
    'title': 'Commit intervals start at off-ramp next, are bounded; roots cover them exactly',
    'coq_check': 'C02_check',
    'parts': [
        {'pkg': 'pkg/types/ccipocr3', 'pkgname': 'ccipocr3',
         'src': 'harness/pkg/types/ccipocr3/c02_test.go', 'test': 'TestVerif_C02_limit',
         'sinks': {'C02_lim': 'lim_judge'}, 'n': {'quick': 500, 'thorough': 40000}},
        {'pkg': 'commit/merkleroot', 'pkgname': 'merkleroot', 'fakes': True,
         'src': ['harness/commit/merkleroot/c02_test.go', 'harness/commit/merkleroot/c02h_test.go'], 'test': 'TestVerif_C02_ranges',
         'sinks': {'C02_rng': 'rng_judge'}, 'n': {'quick': 500, 'thorough': 30000}},
        {'pkg': 'commit/merkleroot', 'pkgname': 'merkleroot', 'fakes': True,
         'src': ['harness/commit/merkleroot/c02_test.go', 'harness/commit/merkleroot/c02h_test.go'], 'test': 'TestVerif_C02_roots',
         'sinks': {'C02_roots': 'roots_judge'}, 'n': {'quick': 500, 'thorough': 30000}},
        # one long-lived Processor per history (n = histories of 8..16 rounds; one case per round in each sink)
        {'pkg': 'commit/merkleroot', 'pkgname': 'merkleroot', 'fakes': True,
         'src': ['harness/commit/merkleroot/c02_test.go', 'harness/commit/merkleroot/c02h_test.go'], 'test': 'TestVerif_C02_hist',
         'sinks': {'C02_hist': 'hr_judge', 'C02_hobs': 'ho_judge'}, 'n': {'quick': 90, 'thorough': 1500}},
    ],
    'known': {'2': 'F01b'},
    'rule': 'lim: fixed 19x19x10 boundary grid {0..3,254..258,2^63-1..2^63+1,2^64-258..2^64-255,2^64-3..2^64-1}^2 x '
            '{0,1,2,3,255,256,257,2^63,2^64-2,2^64-1} plus a random stream (size n-1/n/n+1, near 2^64, inverted, full range); '
            'rng: 0..12 chains, each (off,on) pair drawn from equal / on=off-1 / size n-1,n,n+1 / much larger / inverted / 0 / '
            'near 2^64 / full range / on missing / off missing, tree size in {1,2,3,16,255,256,257,300,1000,2^63,2^64-1,0}; half through '
            'reportRangesOutcome with a constructed consensus observation, half through Processor.Outcome with 4 oracles (F=1) '
            'voting identically and every previous outcome type that leads to the selecting state; '
            'roots: the first 10 cases of every run are single intervals of 255, 256, 257, 300, 513 and 1000 sequence numbers (around and above '
            'the 256 leaves of one merkle tree) read completely, then 0..5 requested intervals (sizes 1..17, 1 in 60 of 255..300; at 0, mid, '
            'ending at 2^64-1, inverted, full), scripted reader answer per '
            'chain from complete / honest database reader that holds the interval and its neighbours and answers exactly the range it is asked for / unordered / prefix / suffix / gap / duplicate (extra, replacing) / window shifted up or down / '
            'extra below or above / wrong source chain (one, all) / empty / nil / error / hasher error / one short / '
            'window of the right size shifted by 1 or 2 and listed with in-range messages first and last and the out-of-range ones between them '
            '(4,6,5 or 3,2,4 for [3->5]) / right count with exactly one out-of-range number in a middle position (ends also swapped) / inner message '
            'repeating another number / inner message of a foreign source chain, '
            'supported-chain set and on-ramp address lookup with failures. '
            'hist: per history ONE Processor built by NewProcessor (real observerImpl; 4 or 7 oracles, F = 1 or 2; tree size 1,2,3,4,256; '
            'attempt limit 1,2,3,5; 1 history in 8 with sequence numbers just below 2^64) is driven for 8..16 rounds through Observation and '
            'Outcome. Previous outcome of a round = JSON round trip of the outcome of the round before, or (1 round in 3 of the histories that vary '
            'it) an arbitrary decodable outcome: the last one under another type / with a stale, advanced or unrelated carried cursor / fully random '
            '(every OutcomeType incl. 0, 7, -1; carried cursor, recorded intervals incl. inverted and 300 long, roots, signatures, RMN config, '
            'attempts 0,1,max-2..max,2^64-1) / type only; 1 round in 7 is lost and the next round starts from the same previous outcome. Votes per '
            'round: for every chain and independently for on-ramp latest, off-ramp next, fChain, each recorded interval\'s root and the RMN config: '
            '>= threshold equal votes / threshold-1 / none / two values at threshold; deviating voters each their own value; cursed chains normally '
            'without off-ramp votes; 1 round in 5 one observation missing, 1 in 25 only two arrive; 1 round in 8 every field voted whatever the state; '
            'slice order of the observations shuffled. Environment between rounds (histories cycle through: everything at once (6 of 16), or exactly one of '
            'previous outcome / on-ramp growth and finality lag / off-ramp cursor / source-chain curses, global and destination curse, curse read error / '
            'supported chains, SupportsDestChain, their errors / known chains and their listing order / home-chain fChain of every chain and its error / '
            'on-ramp address rebinding, nil address, address error / message reorganisation (same numbers, new ids) / reader modes (unordered, error, gap, '
            'duplicate, hasher error, one short, shifted unordered window with in-range ends, one middle message out of range, inner duplicate, inner '
            'foreign-chain message; half of the histories that vary the reader use only that adversarial family; NextSeqNum error, one short, one long; expected-next error or 0)). '
            'non-trivial = lim: valid range, n>=1, size within one of n or end within 257 of 2^64; rng: >= 1 chain with something '
            'pending and n >= 1; roots: >= 1 supported interval with a non-error reader answer; C02_hist: selecting round with consensus and >= 1 chain '
            'with both numbers agreed, building round with >= 1 agreed root or a retry, waiting round with consensus; C02_hobs: building round with a '
            'supported interval and a non-error answer, other rounds with a non-empty sequence-number observation; distinct by full input',
    'trusted': ['CCIPReader.MsgsBetweenSeqNums, GetContractAddress, ChainSupport.SupportedChains and the message hasher are oracles '
                '(scripted fakes); the theorems hold for every answer',
                'keccak HashInternal / ZeroHash (chainlink-common hashutil) enter the model as an abstract hash h and constant zero; in '
                'the correspondence the model tree is evaluated through a table of real HashInternal results logged by the harness',
                'merklemulti.NewTree is modelled from its source (pad odd layer with zero hash, hash neighbours pairwise)',
                'sort.Slice is modelled as a stable sort; on inputs with equal keys the modelled code rejects the input anyway',
                'len(msgs) < 2^64',
                'history parts: ChainSupport, HomeChain.GetFChain, GetRmnCurseInfo, NextSeqNum, GetExpectedNextSequenceNumber are oracles whose '
                'answers change between rounds; the agreed maps of a round are computed by the C01 model (CommitConsensus.get_consensus) from the '
                'round\'s attributed observations (one observation per oracle id, no chain twice per field, as libocr and ValidateObservation '
                'guarantee); encoding/json round trip of merkleroot.Outcome between rounds'],
    'assumptions': ['agreed on-ramp / off-ramp maps (the consensus result) are inputs; that they need 2f+1 observers is C01',
                    'MaxMerkleTreeSize >= 1 (plugin constructor replaces 0 by 256)'],
    'level_text': 'Proof: 38 closed Coq theorems. 22 property theorems: Limit = [s, min(e, s+n-1)] for all uint64 ranges and n >= 1, no wrap-around (C02_limit); the '
                  'selected intervals characterised exactly (iff) for all agreed maps: start at the off-ramp cursor, sorted, no chain twice, size <= n, omitted when '
                  'nothing is pending, independent of both Go map orders (C02_ranges, _omitted, _order); a root is reported iff the reader answer holds every sequence '
                  'number of the interval exactly once, hasher and address lookup succeed, and the root is the tree over the hashes in sequence order (C02_root_exact, '
                  'C02_roots_sound, C02_root_order). Unrepaired code refuted: Limit (F02), roots over a partial read (F01), selection; F01b (header source chain '
                  'unchecked) is a known finding: C02_root_wrong_chain_refuted + _except_known. History level, by induction over the round list of the C03 machine: a '
                  'selecting round writes exactly report_ranges of ITS OWN agreed maps whatever any earlier outcome carried (C02_hist_selection_exact / _indep / '
                  "_characterised); a building round reads only intervals selected in the same history and observes roots only for them, from that round's reader answer "
                  '(C02_hist_ranges_provenance, _observation_roots, _roots_for_selected). Judge soundness (16 C02_judge_*): for each of the 5 sinks the executable '
                  "property accepts the model's output and implies the Prop-level clause. Correspondence, every run: real Limit (boundary grid), reportRangesOutcome / "
                  'Processor.Outcome, ObserveMerkleRoots under adversarial reader answers (tree evaluated through real keccak pairs), and ONE long-lived Processor from '
                  'NewProcessor per history of 8..16 rounds with arbitrary previous outcomes and a changing environment, judged round by round. Translation tie (11 '
                  'theorems, C02_gen.v): Limit, Contains, Overlaps, msgsCoverRange and computeMerkleRoot up to the NewTree call are re-translated from source. Partial: '
                  'the judges check the only-if directions (that a complete read MUST yield a root is left to the model comparison); for an inverted range or n = 0 only '
                  'the start clause.',
    'level_note': 'Trusted: Coq kernel, hand-written model and theorem statements, differential harness, leaf translator. Specific: MsgsBetweenSeqNums, '
                  'GetContractAddress, ChainSupport, curse / NextSeqNum / expected-next readers and the message hasher are scripted oracles (theorems hold for every '
                  'answer); keccak HashInternal is an abstract hash (no collision-freeness claimed or needed), merklemulti.NewTree is modelled from its source (the part '
                  "of computeMerkleRoot after the translator's cut), sort.Slice as a stable sort, encoding/json round trip of merkleroot.Outcome exercised not modelled; "
                  'the agreed maps of a round are computed by the C01 model from the attributed observations (libocr: one observation per oracle; MaxMerkleTreeSize >= '
                  '1). Known finding F01b stays reported as KNOWN-FINDING. No axioms.',
    'technique': 'Coq theorems (exact iff characterisations, induction over round histories) over a hand-written Gallina model; differential correspondence with proved '
                 'judge incl. one long-lived Processor per history; Limit / msgsCoverRange / computeMerkleRoot prefix re-translated from Go (C02_gen.v)',
    'modelled': 'Hand model (Model/SeqRange.v, CommitMerkle.v, C02Hist.v): SeqNumRange.Limit, reportRangesOutcome (ranges and carried off-ramp cursor; the RMN remote '
                'config field is part of C03/C05), ObserveMerkleRoots, msgsCoverRange, computeMerkleRoot, merklemulti.NewTree/Root; goroutine completion order is '
                'abstracted (roots compared as a multiset); Processor.getObservation, ObserveOffRampNextSeqNums, ObserveLatestOnRampSeqNums, ObserveFChain; '
                'Processor.getOutcome through Model/CommitSM.v composed with Model/CommitConsensus.v. Translated from source per run: SeqNumRange.Limit (+ '
                'NewSeqNumRange, Start, End, SetEnd), Contains, Overlaps, msgsCoverRange, computeMerkleRoot before merklemulti.NewTree (msgHasher.Hash = oracle). '
                'Inputs of the model: reader / hasher / address / support / curse answers, the keccak pair table logged by the harness, the attributed observations of '
                'each round',
}

"""Per-property check specifications. One module per property (Cxx.py) defining SPEC.

SPEC fields
  id, title
  coq_check     module name under coq/Check (defines case types, model runners, judges)
  parts         list of harness parts; each:
                  pkg       package directory relative to the repository root
                  pkgname   Go package clause (default: basename of pkg)
                  src       harness source file(s) under /verif (string or list)
                  test      Go test function to run
                  fakes     True to also inject harness/lib/vfakes.go.tmpl
                  extra_libs  more templates from harness/lib (without .go.tmpl)
                  sinks     {sink file stem: judge function in coq_check}
                  n         {'quick': cases, 'thorough': cases} passed as VERIF_N
                  env       extra environment for the harness
                  race      True to run the harness with -race
  known         {class number (as string): finding id in known_findings.json}
  rule, trusted, assumptions, modelled, level_text, level_note, technique
  allowed_axioms  names of standard-library axioms the theorems may depend on (default none)
"""
import importlib, pkgutil, os

SPECS = {}
NOT_APPLICABLE = {}
BROKEN = {}   # spec modules that do not import (a property's own broken spec must not take the other checks down)
for m in sorted(pkgutil.iter_modules([os.path.dirname(__file__)]), key=lambda m: m.name):
    try:
        mod = importlib.import_module('specs.' + m.name)
    except Exception as e:  # noqa: BLE001
        BROKEN[m.name] = repr(e)
        continue
    if hasattr(mod, 'SPEC'):
        SPECS[mod.SPEC['id']] = mod.SPEC
    if hasattr(mod, 'NOT_APPLICABLE'):
        NOT_APPLICABLE.update(mod.NOT_APPLICABLE)

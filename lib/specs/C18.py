"""C18 check specification (see lib/specs/__init__.py for the field reference)."""

SPEC = {
    'id': 'C18',
    'title': 'Configuration pollers expose consistent snapshots under concurrent refresh',
    'coq_check': 'C18_check',
    'parts': [
        {'pkg': 'internal/reader', 'pkgname': 'reader',
         'src': 'harness/internal/reader/c18_test.go', 'test': 'TestVerif_C18_home_seq',
         'sinks': {'C18_home_seq': 'hseq_judge'}, 'n': {'quick': 150, 'thorough': 6000}},
        {'pkg': 'internal/reader', 'pkgname': 'reader',
         'src': 'harness/internal/reader/c18_test.go', 'test': 'TestVerif_C18_home_conc', 'race': True,
         'sinks': {'C18_home_conc': 'hconc_judge'}, 'n': {'quick': 12, 'thorough': 300}},
        {'pkg': 'pkg/reader', 'pkgname': 'reader',
         'src': 'harness/pkg/reader/c18_test.go', 'test': 'TestVerif_C18_rmn_seq',
         'sinks': {'C18_rmn_seq': 'rseq_judge'}, 'n': {'quick': 110, 'thorough': 6000}},
        {'pkg': 'pkg/reader', 'pkgname': 'reader',
         'src': 'harness/pkg/reader/c18_test.go', 'test': 'TestVerif_C18_rmn_conc', 'race': True,
         'sinks': {'C18_rmn_conc': 'rconc_judge'}, 'n': {'quick': 12, 'thorough': 300}},
        {'pkg': 'pkg/reader', 'pkgname': 'reader',
         'src': 'harness/pkg/reader/c18_test.go', 'test': 'TestVerif_C18_bitmap',
         'sinks': {'C18_bitmap': 'bm_judge'}, 'n': {'quick': 600, 'thorough': 40000}},
        {'pkg': 'pkg/reader', 'pkgname': 'reader',
         'src': ['harness/pkg/reader/c18_test.go', 'harness/pkg/reader/c18conv_test.go'], 'test': 'TestVerif_C18_conv',
         'sinks': {'C18_conv': 'conv_judge'}, 'n': {'quick': 250, 'thorough': 10000}},
    ],
    'rule': 'hseq/rseq: event histories (start, poll, read, close) of classes mixed (success with changed config / failure / '
            'empty config / undecodable and duplicate entries), health (9..12 failures around MaxFailedPolls, optionally split '
            'by one success, failing or succeeding initial fetch), delta (successive SUCCESSFUL polls differing in exactly one aspect: only the readers of one '
            'chain / only f of one chain / only the chain set / only the entry order / only the opaque config / identical; RMN: only one '
            'observer bit / F / chain set / chain order / one node / offchain config / candidate digest / identical; all views read after '
            'every poll), paging (99/100/101/199/200/201 entries in pages of 100, failing '
            'second page, over-long page, script after the short page), lifecycle (reads before Start, Close before Start, double '
            'Start/Close, Close while a paged fetch is in flight, events after Close); every getter (every peer 1..7, selector 1..8, digest 0..6) + Ready + HealthReport '
            'compared at every read. hconc/rconc: 20-60 distinct configurations polled back to back, 16 reader goroutines, '
            'each record = 4 getter results + one RLock-ed copy of the state struct. bitmap: all (n<=8, bitmap<=2^n, j<n) + '
            'random n<=256 + invalid (nil, negative, too large, n in {0,-1,257,300}, j out of range). conv: active/candidate '
            'pairs incl. empty/equal digests, nil and out-of-range bitmaps, 255/256/257 nodes. '
            'non-trivial = history with >=2 polls / run that saw >2 snapshots / every valid bitmap case / non-empty active '
            'config with nodes and chains; distinct by full input+output',
    'trusted': ['the contract reader is an oracle (scripted); it is assumed to fail once its context is cancelled',
                'chainconfig.DecodeChainConfig is an oracle (the harness calls the same function to label entries)',
                'services.StateMachine (chainlink-common): Ready/Healthy = started and no buffered error; StopOnce/StartOnce once-only',
                'math/big And/Cmp/Lsh on the bitmap (two\'s-complement And for negative values)',
                'Go race detector and sync.RWMutex for the concurrent parts',
                'lock level: the extractor /verif/locks (syntactic classification of accesses, table of guarded fields, calls on other '
                'receivers / unguarded fields assumed not to touch the mutex or the guarded fields); sync.RWMutex as modelled (mutual '
                'exclusion, blocking acquisition, no owner check, writer preference not modelled); sequential consistency of '
                'lock-protected accesses; no panics inside critical sections'],
    'assumptions': ['one poll goroutine per poller (Start is once-only); polls are sequential',
                    'fewer than 2^64 events for the wrap-free form of the health theorems (the exact form has the wrap)'],
    'level_text': 'PARTIAL. Proof: 47 closed Coq theorems. 28 property theorems. Event level, for every history of start / poll / read / close events of both pollers: '
                  'every read sees views derived from ONE configuration - the most recent successful fetch or the initial state (C18_snapshot_home, C18_snapshot_rmn); '
                  'failed and partial polls change nothing; paging = concatenation up to the first short page; health is bad exactly when not polling or after 10 '
                  'CONSECUTIVE failed polls (C18_health_exact_*; F21a refuted, repaired in /repo); IsNodeObserver = bit j of the bitmap for all n <= 256 and refuses '
                  'everything else (C18_bitmap, _refusals); node id = position, observer sets = bitmap bit for bit. Lock level: C18_locks_all_interleavings - for '
                  'well-locked programs, any number of goroutines and any scheduler: no data race, a group of fields is replaced completely or not at all, every getter '
                  'sees fields of ONE snapshot version, a lock holder can always move; six ill-locked programs refuted by explicit interleavings. Lock tie, every run: '
                  'the action programs of EVERY method of homeChainPoller and rmnHomePoller are extracted from the Go sources and the theorem is instantiated on them (7 '
                  'theorems, C18_locks_gen.v: *_well_locked, C18_extraction_covers_fields, C18_snapshot_all_interleavings_gen, ...). Translation tie (3 theorems, '
                  "C18_gen.v): IsNodeObserver. Judge soundness (19 C18_judge_*): for each of the 6 sinks the executable property accepts the model's output and implies "
                  'the Prop-level clause; the concurrent judge accepts IFF a consistent reading of the records exists. Correspondence, every run: the real pollers over a '
                  'gated scripted contract reader on event histories, every getter compared at every read; 16 reader goroutines during back-to-back refresh under the '
                  'race detector, every view and RLock-ed struct copy checked in Coq to be whole, from one polled configuration and never older than the previous one. '
                  'Partial because the Go memory model below lock-protected access, writer preference of RWMutex and panics inside critical sections are not modelled, '
                  'and the real scheduler is only exercised (-race).',
    'level_note': 'Trusted: Coq kernel, hand-written model and theorem statements, differential harness (gated scripted contract reader, starvation-aware watches), race '
                  'detector, leaf translator, and the lock extractor /verif/locks: syntactic classification of accesses, the table of guarded fields, calls on other '
                  'receivers / unguarded fields assumed not to touch the mutex or the guarded fields; sync.RWMutex as modelled (mutual exclusion, blocking acquisition, '
                  'no owner check); sequential consistency of lock-protected accesses. Oracles: the contract reader (assumed to fail once its context is cancelled), '
                  'chainconfig.DecodeChainConfig, services.StateMachine of chainlink-common, math/big And / Cmp / Lsh. Assumed: one poll goroutine per poller, polls '
                  'sequential; fewer than 2^64 events for the wrap-free health form. A nil observer bitmap panics (F21b, modelled as Panic). HealthReport called '
                  'concurrently races inside chainlink-common ErrorBuffer.Flush, so the concurrent part does not call it. No axioms.',
    'technique': 'Coq theorems by induction over poller event histories on a hand-written Gallina model, plus a general interleaving theorem for well-locked programs '
                 'instantiated on lock programs extracted from the Go source per run; differential correspondence with proved judge incl. -race reader goroutines; '
                 'IsNodeObserver re-translated from Go. Partial: memory model and real scheduler are tested',
    'modelled': 'homeChainPoller (poll loop, fetchAndSetConfigs paging, convert, setState + create* views, getters, HealthReport, Close), rmnHomePoller (same + '
                'both-digests-empty), convertOnChainConfigToRMNHomeChainConfig, IsNodeObserver; lock level: every method of homeChainPoller / rmnHomePoller as an '
                'action program extracted per run (mutex operations, accesses to state.* / rmnHomeState.* / failedPolls, calls among the methods inlined, goroutine '
                'starts, channel waits) over an interleaving semantics with one RWMutex and version-tagged fields; ticker timing and the values stored are not part of '
                'the lock-level model. Translated from source per run: reader.IsNodeObserver (C18_gen.v). Inputs of the model: the scripted contract-reader answers per '
                'poll (pages, failures), the event order',
}

"""C18 check specification (see lib/specs/__init__.py for the field reference)."""

SPEC = {
    'id': 'C18',
    'title': 'Configuration pollers expose consistent snapshots under concurrent refresh',
    'coq_check': 'C18_check',
    'parts': [
        {'pkg': 'internal/reader', 'pkgname': 'reader',
         'src': 'harness/internal/reader/c18_test.go', 'test': 'TestVerif_C18_home_seq',
         'sinks': {'C18_home_seq': 'hseq_judge'}, 'n': {'quick': 150, 'thorough': 6000}},
        {'pkg': 'internal/reader', 'pkgname': 'reader',
         'src': 'harness/internal/reader/c18_test.go', 'test': 'TestVerif_C18_home_conc', 'race': True,
         'sinks': {'C18_home_conc': 'hconc_judge'}, 'n': {'quick': 12, 'thorough': 300}},
        {'pkg': 'pkg/reader', 'pkgname': 'reader',
         'src': 'harness/pkg/reader/c18_test.go', 'test': 'TestVerif_C18_rmn_seq',
         'sinks': {'C18_rmn_seq': 'rseq_judge'}, 'n': {'quick': 110, 'thorough': 6000}},
        {'pkg': 'pkg/reader', 'pkgname': 'reader',
         'src': 'harness/pkg/reader/c18_test.go', 'test': 'TestVerif_C18_rmn_conc', 'race': True,
         'sinks': {'C18_rmn_conc': 'rconc_judge'}, 'n': {'quick': 12, 'thorough': 300}},
        {'pkg': 'pkg/reader', 'pkgname': 'reader',
         'src': 'harness/pkg/reader/c18_test.go', 'test': 'TestVerif_C18_bitmap',
         'sinks': {'C18_bitmap': 'bm_judge'}, 'n': {'quick': 600, 'thorough': 40000}},
        {'pkg': 'pkg/reader', 'pkgname': 'reader',
         'src': ['harness/pkg/reader/c18_test.go', 'harness/pkg/reader/c18conv_test.go'], 'test': 'TestVerif_C18_conv',
         'sinks': {'C18_conv': 'conv_judge'}, 'n': {'quick': 250, 'thorough': 10000}},
    ],
    'rule': 'hseq/rseq: event histories (start, poll, read, close) of classes mixed (success with changed config / failure / '
            'empty config / undecodable and duplicate entries), health (9..12 failures around MaxFailedPolls, optionally split '
            'by one success, failing or succeeding initial fetch), delta (successive SUCCESSFUL polls differing in exactly one aspect: only the readers of one '
            'chain / only f of one chain / only the chain set / only the entry order / only the opaque config / identical; RMN: only one '
            'observer bit / F / chain set / chain order / one node / offchain config / candidate digest / identical; all views read after '
            'every poll), paging (99/100/101/199/200/201 entries in pages of 100, failing '
            'second page, over-long page, script after the short page), lifecycle (reads before Start, Close before Start, double '
            'Start/Close, Close while a paged fetch is in flight, events after Close); every getter (every peer 1..7, selector 1..8, digest 0..6) + Ready + HealthReport '
            'compared at every read. hconc/rconc: 20-60 distinct configurations polled back to back, 16 reader goroutines, '
            'each record = 4 getter results + one RLock-ed copy of the state struct. bitmap: all (n<=8, bitmap<=2^n, j<n) + '
            'random n<=256 + invalid (nil, negative, too large, n in {0,-1,257,300}, j out of range). conv: active/candidate '
            'pairs incl. empty/equal digests, nil and out-of-range bitmaps, 255/256/257 nodes. '
            'non-trivial = history with >=2 polls / run that saw >2 snapshots / every valid bitmap case / non-empty active '
            'config with nodes and chains; distinct by full input+output',
    'trusted': ['the contract reader is an oracle (scripted); it is assumed to fail once its context is cancelled',
                'chainconfig.DecodeChainConfig is an oracle (the harness calls the same function to label entries)',
                'services.StateMachine (chainlink-common): Ready/Healthy = started and no buffered error; StopOnce/StartOnce once-only',
                'math/big And/Cmp/Lsh on the bitmap (two\'s-complement And for negative values)',
                'Go race detector and sync.RWMutex for the concurrent parts',
                'lock level: the extractor /verif/locks (syntactic classification of accesses, table of guarded fields, calls on other '
                'receivers / unguarded fields assumed not to touch the mutex or the guarded fields); sync.RWMutex as modelled (mutual '
                'exclusion, blocking acquisition, no owner check, writer preference not modelled); sequential consistency of '
                'lock-protected accesses; no panics inside critical sections'],
    'assumptions': ['one poll goroutine per poller (Start is once-only); polls are sequential',
                    'fewer than 2^64 events for the wrap-free form of the health theorems (the exact form has the wrap)'],
    'level_text': 'PARTIAL. Proof: 21 Coq theorems over the executable model of both pollers, for every event history '
                  '(induction, no bound): every read sees views derived from ONE configuration (the most recent successful '
                  'fetch or the initial state); failed/partial polls and reads change nothing; paging = concatenation up to '
                  'the first short page; health bad exactly when not polling or after 10 consecutive failed ticker polls '
                  '(pre-repair home-chain counter refuted, F21a); both-digests-empty is a failed poll; IsNodeObserver = '
                  'bit j of the bitmap for all n<=256 and refuses everything else; node id = position, observer sets = '
                  'bitmap bit for bit; Close ends polling for good. '
                  'Lock level (Model/Locks.v, Proofs/LocksP.v, lib/genlocks.py): the action programs (Lock/RLock/Unlock/RUnlock, '
                  'field reads and writes, struct copies, channel waits, branching, loops, defer resolved) of EVERY method of both '
                  'pollers are extracted from the Go sources on every run and pass the decidable check well_locked; the general '
                  'theorem, proved once for all programs over a small-step interleaving semantics of N threads and one RWMutex, then '
                  'gives for any number of goroutines running any of these methods under any scheduler: no data race, the stored '
                  'views are one snapshot whenever no write section is open (setState replaces the group completely or not at all), '
                  'every getter sees fields of ONE snapshot version (never a mixture), no unlock of an unlocked mutex, returned '
                  'methods hold nothing, a lock holder can always move (no deadlock from the lock operations). Six ill-locked '
                  'programs refuted by explicit interleavings. '
                  'Not proved (tested): the Go memory model below lock-protected access and the real scheduler - still exercised every '
                  'run with 16 reader goroutines during refresh under the race detector, each observed '
                  'view / struct copy checked in Coq to be whole, from one polled configuration, and never older than the previous one.',
    'level_note': 'Trusted: Coq kernel, hand-written model, differential harness (gated scripted contract reader, 300us ticker), '
                  'race detector. A nil observer bitmap panics (F21b, modelled as Panic; it would kill the poll goroutine). '
                  'HealthReport called concurrently races inside chainlink-common ErrorBuffer.Flush (write under RLock); '
                  'the concurrent part therefore does not call HealthReport. No axioms.',
    'modelled': 'homeChainPoller (poll loop, fetchAndSetConfigs paging, convert, setState + create* views, getters, HealthReport, '
                'Close), rmnHomePoller (same + both-digests-empty), convertOnChainConfigToRMNHomeChainConfig, IsNodeObserver; '
                'lock level: every method of homeChainPoller / rmnHomePoller as an action program extracted per run (mutex operations, '
                'accesses to state.* / rmnHomeState.* / failedPolls, calls among the methods inlined, goroutine starts, channel waits) '
                'over an interleaving semantics with one RWMutex and version-tagged fields; ticker timing and the values stored are '
                'not part of the lock-level model',
}

"""C18 check specification (see lib/specs/__init__.py for the field reference)."""

SPEC = {
    'id': 'C18',
    'title': 'Configuration pollers expose consistent snapshots under concurrent refresh',
    'coq_check': 'C18_check',
    'parts': [
        {'pkg': 'internal/reader', 'pkgname': 'reader',
         'src': 'harness/internal/reader/c18_test.go', 'test': 'TestVerif_C18_home_seq',
         'sinks': {'C18_home_seq': 'hseq_judge'}, 'n': {'quick': 210, 'thorough': 6000}},
        {'pkg': 'internal/reader', 'pkgname': 'reader',
         'src': 'harness/internal/reader/c18_test.go', 'test': 'TestVerif_C18_home_conc', 'race': True,
         'sinks': {'C18_home_conc': 'hconc_judge'}, 'n': {'quick': 12, 'thorough': 300}},
        {'pkg': 'pkg/reader', 'pkgname': 'reader',
         'src': 'harness/pkg/reader/c18_test.go', 'test': 'TestVerif_C18_rmn_seq',
         'sinks': {'C18_rmn_seq': 'rseq_judge'}, 'n': {'quick': 150, 'thorough': 6000}},
        {'pkg': 'pkg/reader', 'pkgname': 'reader',
         'src': 'harness/pkg/reader/c18_test.go', 'test': 'TestVerif_C18_rmn_conc', 'race': True,
         'sinks': {'C18_rmn_conc': 'rconc_judge'}, 'n': {'quick': 12, 'thorough': 300}},
        {'pkg': 'pkg/reader', 'pkgname': 'reader',
         'src': 'harness/pkg/reader/c18_test.go', 'test': 'TestVerif_C18_bitmap',
         'sinks': {'C18_bitmap': 'bm_judge'}, 'n': {'quick': 600, 'thorough': 40000}},
        {'pkg': 'pkg/reader', 'pkgname': 'reader',
         'src': 'harness/pkg/reader/c18_test.go', 'test': 'TestVerif_C18_conv',
         'sinks': {'C18_conv': 'conv_judge'}, 'n': {'quick': 250, 'thorough': 10000}},
    ],
}

"""C03 check specification (see lib/specs/__init__.py for the field reference)."""

SPEC = {
    'id': 'C03',
    'title': 'Commit round state machine: legal transitions, bounded waiting, self-recovery',
    'coq_check': 'C03_check',
    'parts': [
        {'pkg': 'commit/merkleroot', 'pkgname': 'merkleroot', 'fakes': True,
         'src': 'harness/commit/merkleroot/c03_test.go', 'test': 'TestVerif_C03_histories',
         'sinks': {'C03_hist': 'hist_judge'}, 'n': {'quick': 600, 'thorough': 20000}},
    ],
    'known': {},
    'rule': 'histories of 1..16 rounds through merkleroot.Processor.Outcome, the outcome of a round fed back through its JSON '
            'encoding as the previous outcome of the next; first outcome: type in {0..7,-1,2^31,2^62}, attempts in '
            '{0,1,max-2,max-1,max,max+1,2^64-2,2^64-1}, with/without cursors, ranges, roots, signatures, RMN config; '
            'max checks in {0,1,2,3,5,2^64-1}; per round 4 oracles (F=1) with observations from {empty, fChain only, fChain by 2 '
            'oracles only, on/off-ramp values, roots agreed / disagreeing / partly agreed, off-ramp cursor unchanged / changed up '
            'or down / other chains, everything at once} and a query from {no bundle, bundle signing all / subset / none / other '
            'roots, malformed bundle} x retry flag (1 in 6) in every state. The consensus observation given to the model is the '
            'one the real getConsensusObservation computes on the same observations. non-trivial = >= 2 rounds and >= 1 round '
            'with consensus; distinct by full input',
    'trusted': ['getConsensusObservation (the consensus over observations, property C01) is an input of the model: the harness '
                'calls the real function and hands its result to the model',
                'uint is 64 bit (attempt counter arithmetic modelled as uint64)',
                'encoding/json round trip of merkleroot.Outcome between rounds (exercised, not modelled)'],
    'assumptions': ['libocr calls Outcome with the previous outcome it agreed on; MaxReportTransmissionCheckAttempts is a Go uint'],
    'level_text': 'Proof: 15 closed Coq theorems. 10 property theorems over the model of Outcome.NextState / getOutcome: every (state, next state) pair is an edge of the '
                  'README diagram for every previous outcome (any type value), query and consensus result (C03_edges, C03_next_state_total), the building self-loop only '
                  'on a retry query and then with the unchanged outcome (C03_retry_ignored_elsewhere, C03_retry_identity, C03_retry_rounds_identity for any number of '
                  'retry rounds); the exact exit conditions of the waiting phase in their order (C03_wait_exit), the cursor carried by a building round '
                  '(C03_build_carries_cursor); from ANY outcome and any sequence of rounds the selecting state is reached within max+2 non-retry rounds (C03_recovery, '
                  'C03_progress: strictly decreasing measure, tight example, uint64 wrap of the attempt counter included). Unrepaired code refuted: '
                  'C03_retry_identity_unfixed_refuted (F27: the retry branch was unreachable behind the consensus error; repaired in /repo). Judge soundness (5 '
                  "C03_judge_*): the per-round and per-history executable property accepts the model's own history and an implementation history that passes satisfies "
                  "the edge, wait-exit, carry, retry and recovery clauses along the implementation's own trajectory (property, not equality with the model). "
                  'Correspondence, every run: histories of 1..16 rounds through the real merkleroot.Processor.Outcome on one Processor per history, the outcome fed back '
                  'through its JSON encoding, first outcomes of every type incl. out-of-range ones, attempt counters at the wrap; the C04 DON history drives the same '
                  'machine inside four long-lived commit plugins (sink C04_round). Translation tie (3 theorems, C03_gen.v): Outcome.NextState and both iota constant '
                  'blocks are re-translated from source and proved equal to the model; totality restated over the generated function. Not judged here: the content of a '
                  'selected outcome (C02), what is observed per state (C02 / C05 history parts); C03_retry_ignored_elsewhere relates two runs and transfers through model '
                  'equality only.',
    'level_note': 'Trusted: Coq kernel, hand-written model and theorem statements, differential harness, leaf translator. Specific: the consensus over the observations '
                  '(getConsensusObservation, property C01) is an INPUT of the model - the harness calls the real function and hands its result to the model; uint is 64 '
                  'bit (MaxReportTransmissionCheckAttempts is a Go uint, attempt arithmetic modelled as uint64; recovery needs max < 2^64); encoding/json round trip of '
                  'merkleroot.Outcome between rounds is exercised, not modelled; libocr hands Outcome the previous outcome it agreed on. No axioms.',
    'technique': 'Coq theorems by induction over round lists on a hand-written Gallina state machine; differential correspondence over JSON-threaded histories with a '
                 'proved per-round / per-history judge; NextState and its constants re-translated from Go (C03_gen.v)',
    'modelled': 'Hand model (Model/CommitSM.v): Outcome.NextState, getOutcome, reportRangesOutcome, buildReport (with RMN bundle parsing and filter), '
                'checkForReportTransmission. Translated from source per run: Outcome.NextState with the OutcomeType and processor-state iota blocks. Inputs of the '
                'model: the consensus observation (computed by the real getConsensusObservation), the query, the previous outcome. The Processor.Observation side of '
                'the state machine (what is observed per state) is not part of this model (it is in C02Hist.v / C05Life.v)',
}

"""C03 check specification (see lib/specs/__init__.py for the field reference)."""

SPEC = {
    'id': 'C03',
    'title': 'Commit round state machine: legal transitions, bounded waiting, self-recovery',
    'coq_check': 'C03_check',
    'parts': [
        {'pkg': 'commit/merkleroot', 'pkgname': 'merkleroot', 'fakes': True,
         'src': 'harness/commit/merkleroot/c03_test.go', 'test': 'TestVerif_C03_histories',
         'sinks': {'C03_hist': 'hist_judge'}, 'n': {'quick': 600, 'thorough': 20000}},
    ],
    'known': {},
    'rule': 'histories of 1..16 rounds through merkleroot.Processor.Outcome, the outcome of a round fed back through its JSON '
            'encoding as the previous outcome of the next; first outcome: type in {0..7,-1,2^31,2^62}, attempts in '
            '{0,1,max-2,max-1,max,max+1,2^64-2,2^64-1}, with/without cursors, ranges, roots, signatures, RMN config; '
            'max checks in {0,1,2,3,5,2^64-1}; per round 4 oracles (F=1) with observations from {empty, fChain only, fChain by 2 '
            'oracles only, on/off-ramp values, roots agreed / disagreeing / partly agreed, off-ramp cursor unchanged / changed up '
            'or down / other chains, everything at once} and a query from {no bundle, bundle signing all / subset / none / other '
            'roots, malformed bundle} x retry flag (1 in 6) in every state. The consensus observation given to the model is the '
            'one the real getConsensusObservation computes on the same observations. non-trivial = >= 2 rounds and >= 1 round '
            'with consensus; distinct by full input',
    'trusted': ['getConsensusObservation (the consensus over observations, property C01) is an input of the model: the harness '
                'calls the real function and hands its result to the model',
                'uint is 64 bit (attempt counter arithmetic modelled as uint64)',
                'encoding/json round trip of merkleroot.Outcome between rounds (exercised, not modelled)'],
    'assumptions': ['libocr calls Outcome with the previous outcome it agreed on; MaxReportTransmissionCheckAttempts is a Go uint'],
    'level_text': 'Proof: 10 Coq theorems. Every (state, next state) pair is an edge of the README diagram for every previous '
                  'outcome (any type value), query and consensus result, the building self-loop only on a retry query and then '
                  'with the unchanged outcome; exact exit conditions of the waiting phase in their order; from any outcome and '
                  'any sequence of rounds the selecting state is reached within max+2 non-retry rounds (strictly decreasing '
                  'measure, tight example, uint64 wrap of the counter included); retry reproduces the outcome for any number '
                  'of retry rounds (after fixes/F27.patch; refutation of the unrepaired function). Correspondence: histories '
                  'through Processor.Outcome compared round by round with the model',
    'level_note': 'Trusted: Coq kernel, hand-written model, differential harness. The consensus computation is an input (C01). '
                  'No axioms.',
    'modelled': 'Outcome.NextState, getOutcome, reportRangesOutcome, buildReport (with RMN bundle parsing and filter), '
                'checkForReportTransmission; Processor.Observation side of the state machine (what is observed per state) is not '
                'part of this model',
}

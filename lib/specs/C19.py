"""C19 check specification (see lib/specs/__init__.py for the field reference)."""

SPEC = {
    'id': 'C19',
    'title': 'Background token-data fetching never blocks a round and yields only ready data',
    'coq_check': 'C19_check',
    'parts': [
        {'pkg': 'execute/tokendata', 'pkgname': 'tokendata',
         'src': 'harness/execute/tokendata/c19_test.go', 'test': 'TestVerif_C19', 'race': True,
         'sinks': {'C19_bg': 'bg_judge'}, 'n': {'quick': 150, 'thorough': 4000}},
    ],
}

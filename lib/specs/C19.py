"""C19 check specification (see lib/specs/__init__.py for the field reference)."""

SPEC = {
    'id': 'C19',
    'title': 'Background token-data fetching never blocks a round and yields only ready data',
    'coq_check': 'C19_check',
    'parts': [
        {'pkg': 'execute/tokendata', 'pkgname': 'tokendata',
         'src': 'harness/execute/tokendata/c19_test.go', 'test': 'TestVerif_C19', 'race': True,
         'sinks': {'C19_bg': 'bg_judge'}, 'n': {'quick': 150, 'thorough': 4000}},
        {'pkg': 'execute/tokendata', 'pkgname': 'tokendata',
         'src': 'harness/execute/tokendata/c19_test.go', 'test': 'TestVerif_C19_comp', 'race': True,
         'sinks': {'C19_comp': 'comp_judge'}, 'n': {'quick': 60, 'thorough': 2000}},
        {'pkg': 'execute/tokendata', 'pkgname': 'tokendata',
         'src': ['harness/execute/tokendata/c19_test.go', 'harness/execute/tokendata/c19ctor_test.go'], 'test': 'TestVerif_C19_ctor',
         'sinks': {'C19_ctor': 'ctor_judge'}, 'n': {'quick': 12, 'thorough': 120}},
        {'pkg': 'execute', 'src': 'harness/execute/c19_test.go', 'test': 'TestVerif_C19_plugin', 'fakes': True, 'race': True,
         'sinks': {'C19_plugin': 'plug_judge'}, 'n': {'quick': 12, 'thorough': 300}},
    ],
    'rule': 'schedules of 4-12 harness actions (Observe of 1-5 or all 8 pool messages, incl. a second message carrying an already used message id; return of a '
            'running fetch as ready / supported-token-not-ready / error / missing entry / wrong slot count; sleep past the 25 ms expiry; class refetch: fetched ok '
            '-> served -> past expiry -> asked again -> picked up -> returned, with and without a failed fetch first; Close with fetches running and messages '
            'waiting; Observe after Close) on a fresh NewBackgroundObserver with 1-3 workers (class saturate: 1 worker, batches of 8; class never: fetches left to '
            'the 150 ms observe timeout at Close; 30% with a 2 ms cleanup loop). Every underlying fetch blocks on a harness channel; worker pick-ups are recorded '
            'as they reach the gate. Observables: Observe result or Blocked (3 s watch), ids waiting in the queue (in-package view) / ids held at the gate after '
            'quiescence, cache size, Close returned (10 s watch), goroutine count back to the count before the observer was built (10 s watch). No verdict depends '
            'on the wall clock alone: every wait is for an event (a fetch reaching the gate, the entry written, the cleanup pass done), deadlines are watches that '
            'stretch when the test process is starved. Samples in which the harness or Observe touched the cache inside the uncertainty window of an expiry instant '
            '(stored-at is only known as an interval), or in which a fetch ran into the observe timeout before Close, are discarded and redrawn (8 times, then '
            'recorded as class discarded-timing); pick-ups after Close are recorded oldest-first (which worker reaches the gate first is the choice of the '
            'scheduler). C19_comp: the same schedules through NewCompositeObservers(NewBackgroundObserver(gated observer)): Observe, IsTokenSupported and Close of '
            'the composite. C19_ctor: NewConfigBasedCompositeObservers on a USDC/CCTP observer configuration built offline (worker count 0 / n, expiry, observe '
            'timeout, cleanup period read in-package: foreground or background child, goroutines started and left). C19_plugin: an execute.Plugin whose '
            'tokenDataObserver is the composite over a background observer: getMessagesObservation twice (first at once with placeholders, then the gate opens, '
            'second with the data), Plugin.Close, no goroutine left. non-trivial = >= 6 events; distinct by full input+output',
    'rule_parts': 'comp: the same schedules through NewCompositeObservers(NewBackgroundObserver(gated observer)) - Observe, IsTokenSupported '
                  'and Close of the composite, judged against the model composed with the merge view (unsupported token = ready no-op, '
                  'slot-count mismatch = error). ctor: NewConfigBasedCompositeObservers built offline (stub reader accepting Bind, stub '
                  'encoder, attestation URL never called) for NumWorkers 0/1/2/4 and all orders of {30, 90, 270} ms as expiry / cleanup / '
                  'observe timeout; observed: child kind, numWorkers, goroutines started, expirationInterval, observeTimeout (fields), '
                  'cleanup period measured on the cache (an already expired entry disappears at the first tick), goroutines left after '
                  'Close. plugin: execute.Plugin literal with that composite, getMessagesObservation before / after the gate opens '
                  '(1-5 messages, 1-3 workers), exactly one fetch per message, Plugin.Close, goroutine count.',
    'trusted': ['the underlying TokenDataObserver is an oracle (gate-controlled fake); it is assumed to return when its context ends',
                'IsTokenSupported is an oracle (flag carried in the token)',
                'wall clock: expiry decisions are sampled only >= 1.5 ms away from the expiry instant',
                'Go channels / select / sync.WaitGroup semantics as written in the model (one signal per rendezvous, random choice '
                'between ready cases); Go race detector',
                'lock level: the extractor /verif/locks (syntactic classification, table of guarded fields, lists of read-only / mutating '
                'method names such as Contains / Add / Remove); sync.RWMutex as modelled; the two mutexes are independent (no method of one '
                'object calls the other while holding its lock - calls on other receivers are not followed)'],
    'assumptions': ['message ids identify messages (two messages with one id share a cache entry; its slot count is then the fetched one)',
                    'time advances between enqueue and dequeue (availableAt strictly in the past when a worker dequeues)',
                    'Close is called once (a second Close panics: close of closed channel)',
                    'for "eventually fetched": fair scheduling and fetches that return (observe timeout honoured)'],
    'level_text': 'PARTIAL. Proof: 25 closed Coq theorems. 16 property theorems over the transition-system model of the REPAIRED observer, for every schedule (invariant '
                  'by induction over event lists): Observe completes as a single step in every reachable state with one entry per message and one slot per token '
                  '(C19_nonblocking, C19_shape); returned data is the placeholder or cached data whose supported tokens are all ready and unexpired '
                  '(C19_ready_only_not_expired, C19_cache_provenance); id set = waiting messages, no duplicates, no lost wake-up (C19_queue_inv); after Observe every '
                  'asked message is cached, waiting or being fetched (C19_asked_is_accounted); one-step progress under assumed fairness (C19_eventual_*_partial); after '
                  'Close nothing restarts (C19_close). Lock level: C19_locks_all_interleavings and, every run, the programs of every method of msgQueue and '
                  'inMemTokenDataCache extracted from the Go sources and checked (7 theorems, C19_locks_gen.v): no data race, id set and queue (cache value and expiry) '
                  'change together or not at all, every reader sees one snapshot, no channel operation or goroutine start while a mutex is held. Unrepaired code refuted '
                  '(repaired in /repo): F22 (Observe blocked with 1 worker and 2 uncached messages; expired data served), F90 (C19_enqueue_check_then_act_refuted: '
                  'membership tested in a read section, append in a later write section, two concurrent callers queued a message twice - found by the lock extraction). '
                  "Judge soundness (9 C19_judge_*): the executable property accepts the model's run and implies the clauses event by event. Correspondence, every run "
                  '(-race): schedules of Observe / fetch returns / expiry / Close on a fresh NewBackgroundObserver with every fetch blocked on a harness gate and queue / '
                  'in-flight ids probed in-package (C19_bg); the same through NewCompositeObservers (C19_comp); NewConfigBasedCompositeObservers construction (C19_ctor); '
                  'an execute.Plugin calling getMessagesObservation twice and Close (C19_plugin). Partial because real-time behaviour and scheduling (Observe latency, '
                  'expiry against the wall clock, Close with fetches in flight, goroutine count) are tested with event-based watches, not proved.',
    'level_note': 'Trusted: Coq kernel, hand-written model incl. its channel semantics (one signal per rendezvous, random choice between ready select cases, WaitGroup), '
                  'differential harness (verdicts never depend on the wall clock alone; samples inside the uncertainty window of an expiry instant are discarded and '
                  'redrawn, docs/timing_audit.md), race detector, and the lock extractor /verif/locks (syntactic classification, table of guarded fields, lists of '
                  'read-only / mutating method names; the two mutexes are independent - calls on other receivers are not followed); sync.RWMutex as modelled. Oracles: '
                  'the underlying TokenDataObserver (gate-controlled fake, assumed to return when its context ends), IsTokenSupported, the clock. Assumed: message ids '
                  'identify messages; time advances between enqueue and dequeue; Close is called once (a second Close panics); "eventually fetched" needs fair scheduling '
                  'and fetches that return. A message being fetched is queued and fetched again by the next Observe - modelled as is. The second answer of the plugin '
                  'part is a closed form, not derived from the transition model. No axioms.',
    'technique': 'Coq invariant by induction over event lists of a hand-written Gallina transition system with channel semantics, plus the general interleaving theorem '
                 'instantiated on lock programs of msgQueue / inMemTokenDataCache extracted from the Go source per run; gate-controlled differential harness with proved '
                 'judge under -race. Partial: wall clock and scheduling are tested',
    'modelled': 'compositeTokenDataObserver.Observe / merge / initTokenDataObservations (as a view on the model output), the '
                'background / foreground choice and parameter passing of NewConfigBasedCompositeObservers (the configuration is the '
                'specification), backgroundObserver.Observe / worker / Close, msgQueue.enqueue / dequeue / containsMsg, inMemTokenDataCache get / set / '
                'expiration loop; the clock, the scheduler and the underlying observer are inputs; lock level: every method of msgQueue / '
                'inMemTokenDataCache as an action program extracted per run (mutex operations, accesses to msgs / msgIDs / inMemTokenData / '
                'expiresAt, channel sends and receives, goroutine starts) over an interleaving semantics with one RWMutex per object',
}

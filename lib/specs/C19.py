"""C19 check specification (see lib/specs/__init__.py for the field reference)."""

SPEC = {
    'id': 'C19',
    'title': 'Background token-data fetching never blocks a round and yields only ready data',
    'coq_check': 'C19_check',
    'parts': [
        {'pkg': 'execute/tokendata', 'pkgname': 'tokendata',
         'src': 'harness/execute/tokendata/c19_test.go', 'test': 'TestVerif_C19', 'race': True,
         'sinks': {'C19_bg': 'bg_judge'}, 'n': {'quick': 150, 'thorough': 4000}},
        {'pkg': 'execute/tokendata', 'pkgname': 'tokendata',
         'src': 'harness/execute/tokendata/c19_test.go', 'test': 'TestVerif_C19_comp', 'race': True,
         'sinks': {'C19_comp': 'comp_judge'}, 'n': {'quick': 60, 'thorough': 2000}},
        {'pkg': 'execute/tokendata', 'pkgname': 'tokendata',
         'src': ['harness/execute/tokendata/c19_test.go', 'harness/execute/tokendata/c19ctor_test.go'], 'test': 'TestVerif_C19_ctor',
         'sinks': {'C19_ctor': 'ctor_judge'}, 'n': {'quick': 12, 'thorough': 120}},
        {'pkg': 'execute', 'src': 'harness/execute/c19_test.go', 'test': 'TestVerif_C19_plugin', 'fakes': True, 'race': True,
         'sinks': {'C19_plugin': 'plug_judge'}, 'n': {'quick': 12, 'thorough': 300}},
    ],
    'rule': 'schedules of 4-12 harness actions (Observe of 1-5 or all 8 pool messages, incl. a second message carrying an '
            'already used message id; return of a running fetch as ready / supported-token-not-ready / error / missing entry / '
            'wrong slot count; sleep past the 25 ms expiry; class refetch: fetched ok -> served -> past expiry -> asked again -> picked up -> '
            'returned, with and without a failed fetch first; Close with fetches running and messages waiting; Observe after Close) '
            'on a fresh NewBackgroundObserver with 1-3 workers (class saturate: 1 worker, batches of 8; class never: fetches left to '
            'the 150 ms observe timeout at Close; 30% with a 2 ms cleanup loop). Every underlying fetch blocks on a harness channel; '
            'worker pick-ups are recorded as they reach the gate. Observables: Observe result or Blocked (3 s watch), ids '
            'waiting in the queue (in-package view) / ids held at the gate after quiescence, cache size, Close returned (10 s watch), goroutine count back to the count '
            'before the observer was built (10 s watch). No verdict depends on the wall clock alone: every wait is for an event (a fetch reaching the gate, the entry written, the cleanup pass done), deadlines are watches that stretch when the test process is starved. Samples in which the harness or Observe touched the cache inside the uncertainty window of an expiry instant (stored-at is only known as an interval), or in which a fetch ran into the observe timeout before Close, are discarded and redrawn (8 times, then recorded as class discarded-timing); pick-ups after Close are recorded oldest-first (which worker reaches the gate first is the choice of the scheduler). '
            'non-trivial = >= 6 events; distinct by full input+output',
    'rule_parts': 'comp: the same schedules through NewCompositeObservers(NewBackgroundObserver(gated observer)) - Observe, IsTokenSupported '
                  'and Close of the composite, judged against the model composed with the merge view (unsupported token = ready no-op, '
                  'slot-count mismatch = error). ctor: NewConfigBasedCompositeObservers built offline (stub reader accepting Bind, stub '
                  'encoder, attestation URL never called) for NumWorkers 0/1/2/4 and all orders of {30, 90, 270} ms as expiry / cleanup / '
                  'observe timeout; observed: child kind, numWorkers, goroutines started, expirationInterval, observeTimeout (fields), '
                  'cleanup period measured on the cache (an already expired entry disappears at the first tick), goroutines left after '
                  'Close. plugin: execute.Plugin literal with that composite, getMessagesObservation before / after the gate opens '
                  '(1-5 messages, 1-3 workers), exactly one fetch per message, Plugin.Close, goroutine count.',
    'trusted': ['the underlying TokenDataObserver is an oracle (gate-controlled fake); it is assumed to return when its context ends',
                'IsTokenSupported is an oracle (flag carried in the token)',
                'wall clock: expiry decisions are sampled only >= 1.5 ms away from the expiry instant',
                'Go channels / select / sync.WaitGroup semantics as written in the model (one signal per rendezvous, random choice '
                'between ready cases); Go race detector',
                'lock level: the extractor /verif/locks (syntactic classification, table of guarded fields, lists of read-only / mutating '
                'method names such as Contains / Add / Remove); sync.RWMutex as modelled; the two mutexes are independent (no method of one '
                'object calls the other while holding its lock - calls on other receivers are not followed)'],
    'assumptions': ['message ids identify messages (two messages with one id share a cache entry; its slot count is then the fetched one)',
                    'time advances between enqueue and dequeue (availableAt strictly in the past when a worker dequeues)',
                    'Close is called once (a second Close panics: close of closed channel)',
                    'for "eventually fetched": fair scheduling and fetches that return (observe timeout honoured)'],
    'level_text': 'PARTIAL. Proof: 14 Coq theorems over the transition-system model of the REPAIRED observer, for every schedule '
                  '(invariant by induction over event lists): Observe completes as a single step in every reachable state with one '
                  'entry per message and one slot per token; returned data is the placeholder or cached data whose supported tokens '
                  'are all ready and unexpired, stored by a fetch that returned it; id set = waiting messages, no duplicates, one '
                  'pending signal per waiting message (no lost wake-up), a waiting message is not queued again; after Observe (and any pick-ups) every asked message is cached, waiting or being fetched; taking the oldest '
                  'message is enabled whenever a worker is idle, otherwise a running fetch frees one; after Close nothing restarts and '
                  'every worker and signal sender can exit leaving nothing behind. Pre-repair code refuted: Observe blocks with 1 worker '
                  'and 2 uncached messages (F22a), expired data is served (F22b). '
                  'Lock level (Model/Locks.v, Proofs/LocksP.v, lib/genlocks.py): the action programs of every method of msgQueue and '
                  'inMemTokenDataCache (incl. the signal sender and the expiration goroutine) are extracted from the Go sources on every '
                  'run and checked; by the general interleaving theorem, for any number of goroutines under any scheduler: no data race, '
                  'id set and queue (cache value and expiry) change together or not at all, dequeue / containsMsg / size / get / set see one '
                  'snapshot, no channel operation, WaitGroup wait or goroutine start while a mutex is held, a lock holder can always move. '
                  'enqueue passes the lock discipline but is check-then-act (containsMsg in a read section, append in a later write '
                  'section): with two concurrent Observe callers a message can be queued twice (F90, latent - one caller today; '
                  'C19_enqueue_check_then_act_refuted; repair in fixes/F90.patch). '
                  'Not proved (tested every run, with the race detector): real-time behaviour and goroutine scheduling - Observe latency '
                  'under a 3 s watch with all workers blocked, expiry against the wall clock, Close with fetches in flight, '
                  'goroutine count after Close.',
    'level_note': 'Trusted: Coq kernel, hand-written model incl. its channel semantics, differential harness, race detector. '
                  'Liveness ("eventually fetched") is a one-step progress statement under assumed fairness. A message being fetched '
                  '(dequeued, not yet cached) is queued and fetched again by the next Observe - modelled as is. No axioms.',
    'modelled': 'compositeTokenDataObserver.Observe / merge / initTokenDataObservations (as a view on the model output), the '
                'background / foreground choice and parameter passing of NewConfigBasedCompositeObservers (the configuration is the '
                'specification), backgroundObserver.Observe / worker / Close, msgQueue.enqueue / dequeue / containsMsg, inMemTokenDataCache get / set / '
                'expiration loop; the clock, the scheduler and the underlying observer are inputs; lock level: every method of msgQueue / '
                'inMemTokenDataCache as an action program extracted per run (mutex operations, accesses to msgs / msgIDs / inMemTokenData / '
                'expiresAt, channel sends and receives, goroutine starts) over an interleaving semantics with one RWMutex per object',
}

"""C19 check specification (see lib/specs/__init__.py for the field reference)."""

SPEC = {
    'id': 'C19',
    'title': 'Background token-data fetching never blocks a round and yields only ready data',
    'coq_check': 'C19_check',
    'parts': [
        {'pkg': 'execute/tokendata', 'pkgname': 'tokendata',
         'src': 'harness/execute/tokendata/c19_test.go', 'test': 'TestVerif_C19', 'race': True,
         'sinks': {'C19_bg': 'bg_judge'}, 'n': {'quick': 150, 'thorough': 4000}},
    ],
    'rule': 'schedules of 4-12 harness actions (Observe of 1-5 or all 8 pool messages, incl. a second message carrying an '
            'already used message id; return of a running fetch as ready / supported-token-not-ready / error / missing entry / '
            'wrong slot count; sleep past the 25 ms expiry; class refetch: fetched ok -> served -> past expiry -> asked again -> picked up -> '
            'returned, with and without a failed fetch first; Close with fetches running and messages waiting; Observe after Close) '
            'on a fresh NewBackgroundObserver with 1-3 workers (class saturate: 1 worker, batches of 8; class never: fetches left to '
            'the 150 ms observe timeout at Close; 30% with a 2 ms cleanup loop). Every underlying fetch blocks on a harness channel; '
            'worker pick-ups are recorded as they reach the gate. Observables: Observe result or Blocked (300 ms watchdog), ids '
            'waiting in the queue (in-package view) / ids held at the gate after quiescence, cache size, Close returned within 2 s, goroutine count back to the count '
            'before the observer was built. Samples whose Observe straddled an expiry instant are discarded and redrawn. '
            'non-trivial = >= 6 events; distinct by full input+output',
    'trusted': ['the underlying TokenDataObserver is an oracle (gate-controlled fake); it is assumed to return when its context ends',
                'IsTokenSupported is an oracle (flag carried in the token)',
                'wall clock: expiry decisions are sampled only >= 1.5 ms away from the expiry instant',
                'Go channels / select / sync.WaitGroup semantics as written in the model (one signal per rendezvous, random choice '
                'between ready cases); Go race detector'],
    'assumptions': ['message ids identify messages (two messages with one id share a cache entry; its slot count is then the fetched one)',
                    'time advances between enqueue and dequeue (availableAt strictly in the past when a worker dequeues)',
                    'Close is called once (a second Close panics: close of closed channel)',
                    'for "eventually fetched": fair scheduling and fetches that return (observe timeout honoured)'],
    'level_text': 'PARTIAL. Proof: 14 Coq theorems over the transition-system model of the REPAIRED observer, for every schedule '
                  '(invariant by induction over event lists): Observe completes as a single step in every reachable state with one '
                  'entry per message and one slot per token; returned data is the placeholder or cached data whose supported tokens '
                  'are all ready and unexpired, stored by a fetch that returned it; id set = waiting messages, no duplicates, one '
                  'pending signal per waiting message (no lost wake-up), a waiting message is not queued again; after Observe (and any pick-ups) every asked message is cached, waiting or being fetched; taking the oldest '
                  'message is enabled whenever a worker is idle, otherwise a running fetch frees one; after Close nothing restarts and '
                  'every worker and signal sender can exit leaving nothing behind. Pre-repair code refuted: Observe blocks with 1 worker '
                  'and 2 uncached messages (F22a), expired data is served (F22b). '
                  'Not proved (tested every run, with the race detector): real-time behaviour and goroutine scheduling - Observe latency '
                  'under a 300 ms watchdog with all workers blocked, expiry against the wall clock, Close with fetches in flight, '
                  'goroutine count after Close.',
    'level_note': 'Trusted: Coq kernel, hand-written model incl. its channel semantics, differential harness, race detector. '
                  'Liveness ("eventually fetched") is a one-step progress statement under assumed fairness. A message being fetched '
                  '(dequeued, not yet cached) is queued and fetched again by the next Observe - modelled as is. No axioms.',
    'modelled': 'backgroundObserver.Observe / worker / Close, msgQueue.enqueue / dequeue / containsMsg, inMemTokenDataCache get / set / '
                'expiration loop; the clock, the scheduler and the underlying observer are inputs',
}

"""C06 check specification (see lib/specs/__init__.py for the field reference)."""

SPEC = {
    'id': 'C06',
    'title': 'RMN signature collection meets both thresholds under every response schedule',
    'coq_check': 'C06_check',
    'parts': [
        {'pkg': 'commit/merkleroot/rmn', 'pkgname': 'rmn',
         'src': 'harness/commit/merkleroot/rmn/c06_test.go', 'test': 'TestVerif_C06',
         'sinks': {'C06_sched': 'c06_judge'}, 'n': {'quick': 400, 'thorough': 12000}},
    ],
    'rule': 'TODO',
    'trusted': [],
    'assumptions': [],
    'level_text': 'PARTIAL',
    'level_note': '',
    'modelled': '',
}

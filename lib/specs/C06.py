"""C06 check specification (see lib/specs/__init__.py for the field reference)."""

def _borrow(pid, sink, judge):
    """A harness part of another property, judged by that property's judge (coq_import)."""
    from importlib import import_module
    sp = import_module('specs.' + pid).SPEC
    for p in sp['parts']:
        if sink in p['sinks']:
            q = dict(p)
            q['sinks'] = {sink: judge}
            q['coq_import'] = sp['coq_check']
            return q
    raise KeyError((pid, sink))


SPEC = {
    'id': 'C06',
    'title': 'RMN signature collection meets both thresholds under every response schedule',
    'coq_check': 'C06_check',
    'parts': [
        # the observer sets the controller is handed come from the RMNHome observer bitmaps: bitmap -> observer set and
        # the conversion of the on-chain config (parts of C18, judged by C18's judges)
        _borrow('C18', 'C18_bitmap', 'bm18_judge'), _borrow('C18', 'C18_conv', 'conv18_judge'),
        {'pkg': 'commit/merkleroot/rmn', 'pkgname': 'rmn',
         'src': 'harness/commit/merkleroot/rmn/c06_test.go', 'test': 'TestVerif_C06',
         'sinks': {'C06_sched': 'c06_judge'}, 'n': {'quick': 1500, 'thorough': 15000}},
        {'pkg': 'commit/merkleroot/rmn', 'pkgname': 'rmn',
         'src': 'harness/commit/merkleroot/rmn/c06_test.go', 'test': 'TestVerif_C06_sweep',
         'sinks': {'C06_sweep': 'c06_judge'}, 'n': {'quick': 1, 'thorough': 6}},
        {'pkg': 'commit/merkleroot/rmn', 'pkgname': 'rmn',
         'src': ['harness/commit/merkleroot/rmn/c06_test.go', 'harness/commit/merkleroot/rmn/c06h_test.go'],
         'test': 'TestVerif_C06_hist', 'env': {'VERIF_C06_STREAM': '0'},
         'sinks': {'C06_hist': 'hist_judge'}, 'n': {'quick': 300, 'thorough': 4000}},
        {'pkg': 'commit/merkleroot/rmn', 'pkgname': 'rmn',
         'src': ['harness/commit/merkleroot/rmn/c06_test.go', 'harness/commit/merkleroot/rmn/c06h_test.go'],
         'test': 'TestVerif_C06_hist', 'env': {'VERIF_C06_STREAM': '1'},
         'sinks': {'C06_hist1': 'hist_judge'}, 'n': {'quick': 300, 'thorough': 4000}},
        {'pkg': 'commit/merkleroot/rmn', 'pkgname': 'rmn',
         'src': ['harness/commit/merkleroot/rmn/c06_test.go', 'harness/commit/merkleroot/rmn/c06h_test.go'],
         'test': 'TestVerif_C06_hist', 'env': {'VERIF_C06_STREAM': '2'},
         'sinks': {'C06_hist2': 'hist_judge'}, 'n': {'quick': 300, 'thorough': 4000}},
    ],
    'rule': 'one case = one scripted run of the real rmn.controller.ComputeReportSignatures (scripted PeerClient that owns the '
            'Recv channel and records every Send, table-driven ed25519 / RMNCrypto stubs, RMNHome stub). On-ramp addresses are real byte strings on both sides (requested: 32 bytes abi-encoded, in 1 of 8 configurations 20 / 21 / 40 / 19 / 5 / 1 / 0 bytes; the Coq term carries length and bytes). Configurations: 2..6 '
            'RMN nodes with random ids, 1..3 requested lanes, F_home 0..2 with observer counts at F, F+1, F+2, all; signer '
            'subsets with F_remote 0..2 at the same boundaries, a signer unknown to RMNHome; classes nof / dupchain / baddest '
            '/ fewobs / fewsigners. Timer classes per phase: never (1 h, fires only after Reset(0) on an invalid response) / '
            'at start (1 ns). Send failures: none / some / most. Responses drawn online from what was actually sent: correct '
            '(own id), 30 content corruptions (on-ramp address of ANOTHER lane that shares bytes with the requested one: empty, last byte only, last 19 bytes, first 19 bytes, the 32-byte requested form itself, 21 bytes with the same tail, one byte appended; no lane updates at all, nil Observation/LaneDest/LaneSource/ClosedInterval/Root, short and long roots, '
            'wrong dest/offramp/digest/interval/onramp, unrequested / duplicate / extra / missing lanes, conflicting and empty '
            'roots, bad signature, wrong or missing payload kind), 6 signature corruptions, duplicates, unknown ids, ids of '
            'failed sends or of the other phase, node X under the id sent to node Y (F12b; also with an empty observation, the transformAndSortObservations [0] shape), nodes that were not asked or are '
            'unknown, garbage bytes; "villain" mode: Byzantine nodes vote the honest root with exactly one defect so that a '
            'missing check tips a threshold; "attack" mode: the initial request timer is due, all observers of one lane except the '
            'attacker stay silent and the attacker answers EVERY request id it holds with all lanes it observes (asked under that '
            'id or not) and its own root, so a node that ever holds two request ids votes twice. Every item is delivered only when the controller goroutine is parked in select '
            '(runtime.Stack, one P), so the run is deterministic; race items (a response or a cancellation handed over at the '
            'next select entry together with a possibly due timer) are compared against the set of outcomes the model allows; '
            'context cancellation at a random parked point, at a select entry, or before the first select. Observable: result '
            'kind, returned (lane, root) list, signature order, every Send (kind, addressee, request id, chains), the '
            'attributed observations of the signature request (executable property: no node twice, F_home+1 distinct carriers per lane), and whether every VerifyReportSignatures call saw exactly the '
            'report handed back. Give-up clause of the executable property: ErrInsufficientObservationResponses passes only if the observers that were never sent an observation request for their lane (Send log, failed sends count as asked) could not complete F_home+1 on some lane together with the voters of the best root in the script; ErrInsufficientSignatureResponses passes only if fewer than F_remote+1 configured signers known to RMNHome have no report-signature request in the Send log. Sink C06_sweep: every single anomaly and every PAIR of anomalies (45 for observation responses: the seven on-ramp shapes above, extra '
            'lane of an unrequested / unobserved chain, duplicate / missing / no lanes, root nil / 5 / 31 / 33 bytes on the first or '
            'last lane, nil sub-message at each nullable position, interval off by one, other onramp, conflicting / empty root, '
            'wrong dest / offramp / digest, signature of another key / over other bytes / empty, wrong or missing payload, garbage, '
            'unknown or foreign request id, unknown or other sender, answering twice; 14 for signature responses) applied to ONE '
            'response of an otherwise honest run, on VERIF_N random configurations each. The ed25519 stub accepts a signature only '
            'over sha256(prefix | sha256(observation bytes)) computed independently by the harness. '
            'Sinks C06_hist / C06_hist1 / C06_hist2 (three independent streams of the same part): one case = a HISTORY of 2..4 calls on ONE long-lived '
            'controller built by the real NewController (as the merkleroot Processor keeps it; same PeerClient, RMNHome reader and RMNCrypto objects '
            'throughout, timer durations fixed at construction). Between the calls the environment changes, one aspect per history (20 themes) or 2..4 '
            'aspects at once or everything regenerated: observers of a requested chain removed (down to F+1 / F / 0) / added / swapped at equal count, '
            'F_home raised / lowered across the observer count, RMNHome node removed / added, offchain key rotated, remote signer removed / added / '
            'address changed / moved to another node, F_remote changed, lane interval / onramp changed, lane dropped / added, offramp changed, config '
            'digest changed — each under the SAME config digest (RMNHome.setDynamicConfig keeps it) and together with a new digest; the reader is strict '
            '(answers only for the digest current at that call) and hands out freshly built values at every call. Leftover state that legitimately '
            'persists is varied too: InitConnection on a digest change (as the Processor does) and at random other moments, late answers to requests of '
            'EARLIER calls (their real request ids, correct content for that earlier call) delivered during later calls, nodes answering with the key / '
            'signer address they had in an earlier call, model request ids counting on over the whole history. Every call is scripted and observed like a '
            'C06_sched case and judged against the model started from THAT call\'s configuration (hist_model = the single-call model per call) and by the '
            'single-call executable property against that call\'s configuration (additionally: every attributed observation comes from a node that is a '
            'configured observer of that chain at that call). '
            'non-trivial = a ReportSignatureRequest was sent or the call succeeded (C06_sched / C06_sweep); a history is non-trivial if something changed between two calls and a call after the first one got that far; distinct by full input',
    'trusted': [
        'ed25519 verification and RMNCrypto.VerifyReportSignatures are oracles (model: Section variables edv / vrs; harness: '
        'stubs keyed by the signer; the ed25519 stub also binds the signed bytes to the independently computed preimage)',
        'protobuf unmarshalling: a response body is either garbage or a Response with request id and payload; a repeated '
        'message field never holds nil elements; absent sub-messages are nil',
        'PeerClient attributes every response to the stream (node) it arrived on',
        'Go runtime facts used by the harness only: goroutine status strings of runtime.Stack, timers (go 1.23 semantics) '
        'with one P are run before a goroutine parked in select can be observed as parked',
        'F values and counts stay far below the Go int range (f+1 does not overflow)',
    ],
    'assumptions': [
        'RMNHome node ids are pairwise distinct, remote signer node indexes are pairwise distinct (theorem hypothesis), signer '
        'addresses are pairwise distinct and of equal length (sort.Slice by hex string)',
        'the requests passed in by the plugin have non-nil LaneSource / ClosedInterval',
        'liveness only: Send calls succeed, request ids do not repeat (crypto/rand 64 bit), at most F_home dishonest '
        'observers per lane, honest nodes answer requests sent to them correctly',
    ],
    'level_text': 'PARTIAL. Proof: 50 closed Coq theorems. 29 property theorems over the executable two-phase machine, for every configuration, schedule parameter and '
                  'event list: phase A hands on only with F_home+1 DISTINCT configured observers per lane whose signed responses carry the same root for exactly the '
                  'requested lane and interval (C06_obs_threshold, C06_lane_source_exact); success only with F_remote+1 DISTINCT configured signers valid for exactly the '
                  'returned report, strictly ascending by address (C06_sig_threshold, C06_sigs_strictly_ordered); the call ends on CtxDone and never panics; enough '
                  'honest timely answers give success whatever else arrives (C06_liveness); no node is asked or counted twice; requests are well formed and every error '
                  'kind has its origin; ErrInsufficientObservationResponses only after every observer of every lane was asked (C06_giveup_only_after_asking_all), ErrInsufficientSignatureResponses only after every signer RMNHome knows was asked (C06_giveupB_only_after_asking_all). Histories of calls on one long-lived controller: the multi-call machine equals the single-call machine per call, both thresholds '
                  "hold in every call against that call's configuration, late answers to earlier calls change nothing (C06_history_memoryless, _sig_threshold, "
                  '_obs_threshold, _leftover_ignored). Unrepaired code refuted (F12, repaired in /repo): one node counted twice, nil sub-message panic, comparator panic. '
                  'Judge soundness (21 C06_judge_*): the executable property - result, Send log, error kind, give-up clauses of both phases, liveness twin - accepts every outcome the model allows and '
                  'implies the Prop-level clauses. Correspondence, every run: the real ComputeReportSignatures through a scripted PeerClient, each item delivered only '
                  'when the controller is parked in its select (GOMAXPROCS=1), race items compared with the SET of outcomes the model allows; ONE controller from '
                  'NewController over 2..4 calls with the RMNHome / RMNRemote configuration changing (C06_hist*); observer sets tied to the RMNHome bitmaps by the '
                  'borrowed C18 parts. Translation tie (6 theorems, C06_gen.v + C18_gen.v): GteFPlusOne, LtFPlusOne, IsNodeObserver. Partial because which of several '
                  'simultaneously ready select cases Go picks beyond the exercised race pairs, and real wall-clock deadlines, are outside the model.',
    'level_note': 'Trusted: Coq kernel, hand-written model and theorem statements, differential harness with its parked-goroutine protocol (goroutine status strings of '
                  'runtime.Stack, go 1.23 timers with one P; a case that came out as a hang is re-run before it is reported), leaf translator. Specific: ed25519 '
                  'verification and RMNCrypto.VerifyReportSignatures are oracles (Section variables; the harness stubs are keyed by the signer and bind the signed bytes '
                  'to an independently computed preimage); protobuf decoding is modelled (garbage or a Response; absent sub-messages nil; no nil elements in repeated '
                  'fields); the PeerClient attributes a response to the stream it arrived on. Theorem hypotheses: RMNHome node ids, remote signer node indexes and signer '
                  'addresses pairwise distinct; liveness only: Send succeeds, request ids do not repeat (crypto/rand 64 bit), at most F_home dishonest observers per '
                  'lane; f+1 does not overflow int. The model follows the repaired code (F12 is committed in /repo). No axioms.',
    'technique': 'Coq theorems by induction over event lists and call histories on a hand-written two-phase Gallina machine (res monad for panic / hang); '
                 'scripted-PeerClient correspondence with parked-select delivery, set-valued model outcomes for races and a proved judge; threshold tests and '
                 'IsNodeObserver re-translated from Go. Partial: select scheduling, wall clock',
    'modelled': 'ComputeReportSignatures, populateUpdatesPerChain and the F filter, getRmnSignedObservations (initial request loop), sendObservationRequests, '
                'listenForRmnObservationResponses, parseResponse, validateSignedObservationResponse (+ validateRootLengths; the on-ramp comparison '
                'bytes.Equal(typconv.KeepNRightBytes(requested, 20), observed) on byte strings of any length), gotSufficientObservationResponses, selectRoots, '
                'transformAndSortObservations (order, and the index-out-of-range panic of its comparator for two observations of one node), sendReportSignatureRequest, '
                'listenForRmnReportSignatures, validateReportSigResponse, sortAndParseReportSigs; GetRMNNodesInfo / GetF answers, chain-selectors lookup, map orders, '
                'shuffles, request ids and Send failures are inputs of the model; the long-lived controller as a history machine over calls (Model/RmnHist.v: only the '
                'position in the request-id stream is threaded from call to call; NewController, InitConnection pass-through). Translated from source per run: '
                'consensus.GteFPlusOne, LtFPlusOne (C06_gen.v), reader.IsNodeObserver (C18_gen.v). Not modelled: Go select choice among several ready cases, timer '
                'wall-clock values, the real PeerClient / ragep2p transport, protobuf wire parsing',
}

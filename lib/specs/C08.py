"""C08 check specification (see lib/specs/__init__.py for the field reference)."""

SPEC = {
    'id': 'C08',
    'title': 'Execute reports hold only provable, pending, ready, in-order messages in limits',
    'coq_check': 'C08_check',
    'parts': [
        {'pkg': 'execute/report', 'pkgname': 'report',
         'src': 'harness/execute/report/c08_test.go', 'test': 'TestVerif_C08_add',
         'sinks': {'C08_add_0': 'add_judge'}, 'n': {'quick': 300, 'thorough': 9000}},
        {'pkg': 'execute/report', 'pkgname': 'report',
         'src': 'harness/execute/report/c08_test.go', 'test': 'TestVerif_C08_mm',
         'sinks': {'C08_mm': 'mm_judge'}, 'n': {'quick': 300, 'thorough': 12000}},
        {'pkg': 'execute', 'src': 'harness/execute/c08_test.go', 'test': 'TestVerif_C08_select', 'fakes': True,
         'sinks': {'C08_sel': 'sel_judge'}, 'n': {'quick': 200, 'thorough': 8000}},
        {'pkg': 'execute', 'src': 'harness/execute/c08_test.go', 'test': 'TestVerif_C08_outcome', 'fakes': True,
         'sinks': {'C08_out': 'out_judge'}, 'n': {'quick': 150, 'thorough': 6000}},
    ],
    'known': {'1': 'F14'},
    'rule': 'add: report.NewBuilder(mock hasher = message id, codec with controlled size, table gas estimator).Add on 1-4 commit '
            'reports in order + Build; 1-17 messages each (every 40th case 31-256), three senders per chain with ordered / '
            'unordered / gapped / repeated nonces, on-chain nonces incl. 2^64-1 and missing entries, first nonce at on-chain, '
            '+1, +2; executed none/some/prefix/all/foreign; token data 0-2 entries, ready or not; costly subsets; ranges ending '
            'at 2^64-1; size and gas limits chosen after an unlimited dry run at total, total-1, 3/4, 1/2, 1/4, first report, '
            'tiny, 0, 2^63-1, 2^63, 2^64-1; tamper stream: wrong / zero root, changed or swapped body, missing / extra / '
            'foreign-chain / out-of-range message (with and without re-committed root), token data short / long / nil, codec '
            'error, widened and full uint64 range. Every produced chain report is re-verified in Go with '
            'merklemulti.VerifyComputeRoot (flag bits decoded from ProofFlagBits) against the committed root and again in Coq. '
            'Cases 0 and 1 are the F14 inputs (too-costly one: repaired by F14a, must report nonce 1 only; size-fallback one: recorded class). mm: merklemulti NewTree/Prove/VerifyComputeRoot over an arithmetic '
            'commutative hash, 1-33 (and 255-300) leaves, index sets all/single/subset/empty/unsorted/duplicate/out-of-range, '
            'and proofs mutated before verification. sel: execute.selectReport with a scripted builder. out: real execute.Plugin literal in the Filter state: previous outcome = encoded GetMessages outcome with 1-3 source chains, 1-3 pending commit reports per chain (0-8 messages, token data, executed, costly flags), three sender addresses shared by all chains with different on-chain nonces per chain, four attributed observations carrying nonces (unanimous / one Byzantine value / silent oracle / sender seen by one oracle), classes plain, gas-pressure (BatchGasLimit at total, total-1, 3/4, 1/2, first report, 1/4, 50 of an unlimited dry run), size-pressure (codec weight scaled so that the bodies total 0.5-4x the 1 MiB maxReportLength), crossnonce (messages of chain A numbered from the nonce of chain B), byzantine-nonce, tamper-first / tamper-later (commit report not reproducing its root before / after valid ones), costly; BatchGasLimit = 1 MiB in 10% so that equal limits are seen too; Plugin.Outcome decoded, each chain report also re-verified in Go. '
            'non-trivial = at least one chain report built (add, out), non-empty index set (mm), at least one commit report (sel); '
            'distinct by full input',
    'trusted': ['hashutil keccak HashInternal is an oracle: the model uses the table of the (a,b)->H(a,b) pairs the harness '
                'computed with the real function (commutative, as HashInternal sorts its arguments); the multiproof theorem '
                'assumes only commutativity',
                'MessageHasher.Hash, ExecutePluginCodec.Encode size and gas.EstimateProvider are oracles (universally '
                'quantified in the theorems; concrete mocks in the harness)',
                'typeconv.AddressBytesToString is used by the harness to key senders exactly as the builder does',
                'VerifyComputeRoot: reading past the computed hashes is modelled as an immediate error (the Go code reads a '
                'junk value and must fail its final position check); exercised by the mutated-proof stream'],
    'assumptions': ['per-report gas sums do not wrap uint64 (generator keeps message gas <= 90000); max size and gas are uint64',
                    'commit reports have at most 256 messages for the provability theorem (the verifier\'s own limit)'],
    'level_text': 'Proof: 11 Coq theorems. Multiproof theorem of merklemulti for ALL trees <= 256 leaves and all ascending '
                  'index sets under commutativity of the internal hash (induction over layers, FIFO-queue invariant), its '
                  'necessity; full specification of one Add (membership, eligibility, token-data alignment, limits, executed '
                  'bookkeeping), no report from commit data that does not reproduce its root, re-verification of every '
                  'appended report to the committed root, budget invariant and outcome-level limits for selectReport; nonce '
                  'order proved outside the recorded class (fallback drops a sequenced message), refuted inside it, and refuted '
                  'for the pre-repair check order. Correspondence: real builder, real '
                  'merklemulti and real selectReport run against the model on generated inputs every run. '
                  'System level (Model/ExecSys.v, Proofs/ExecSysP.v): C08_report_sound_cycle - for every cycle of three rounds, every chain report of the Filter round re-verifies '
                  '(contract-style) to the root of a commit report that f_dest+1 distinct oracles reported identically in the GetCommitReports round under the key of the chain report\'s '
                  'source chain (C08_provable composed with C07 across the rounds; after the repairs of F75); exercised on real plugins by the execsys part of C07 (sinks ExecSys_cycle_*)',
    'level_note': 'Trusted: Coq kernel, hand-written model, differential harness; hash / hasher / codec / estimator are oracles. '
                  'Nonce order: the too-costly half of F14 is repaired (F14a, C08_nonce_order_costly_unfixed_refuted about the old '
                  'order); the size/gas-fallback half is still false of the code and recorded (C08_nonce_order_refuted, '
                  'C08_nonce_order_except_known with hypothesis fallback_drop = false). No axioms.',
    'modelled': 'merklemulti NewTree/Prove/VerifyComputeRoot, slicelib BoolsToBitFlags/BitFlagsToBools, ConstructMerkleTree, '
                'checkMessage/checkMessageNonce, buildSingleChainReportHelper, verifyReport, buildSingleChainReport (greedy '
                'fallback), builder Add/Build, markNewMessagesExecuted, selectReport, and the Filter branch of Plugin.Outcome as select_report with the arguments the plugin SHOULD pass to report.NewBuilder: nonces = the (source, sender, nonce) triples reported by more than fChain[dest] oracles (mergeNonceObservations), maxReportSizeBytes = maxReportLength = 1 MiB (execute/factory.go), maxGas = offchainCfg.BatchGasLimit, the hasher / codec / estimator, commit reports = PendingCommitReports of the previous outcome in encoded order, result re-sorted as Outcome.Encode does; Timestamp/BlockNum of CommitData and '
                'message bodies beyond id/seq/nonce/sender/source are not modelled (oracle inputs)',
}

"""C08 check specification (see lib/specs/__init__.py for the field reference)."""

SPEC = {
    'id': 'C08',
    'title': 'Execute reports hold only provable, pending, ready, in-order messages in limits',
    'coq_check': 'C08_check',
    'parts': [
        {'pkg': 'execute/report', 'pkgname': 'report',
         'src': 'harness/execute/report/c08_test.go', 'test': 'TestVerif_C08_add',
         'sinks': {'C08_add': 'add_judge'}, 'n': {'quick': 300, 'thorough': 12000}},
        {'pkg': 'execute/report', 'pkgname': 'report',
         'src': 'harness/execute/report/c08_test.go', 'test': 'TestVerif_C08_mm',
         'sinks': {'C08_mm': 'mm_judge'}, 'n': {'quick': 300, 'thorough': 12000}},
    ],
    'known': {'1': 'F14'},
    'rule': '',
    'trusted': [],
    'assumptions': [],
    'level_text': '',
    'level_note': '',
    'modelled': '',
}

"""C08 check specification (see lib/specs/__init__.py for the field reference)."""

SPEC = {
    'id': 'C08',
    'title': 'Execute reports hold only provable, pending, ready, in-order messages in limits',
    'coq_check': 'C08_check',
    'parts': [
        {'pkg': 'execute/report', 'pkgname': 'report',
         'src': 'harness/execute/report/c08_test.go', 'test': 'TestVerif_C08_add',
         'sinks': {'C08_add_0': 'add_judge'}, 'n': {'quick': 300, 'thorough': 9000}},
        {'pkg': 'execute/report', 'pkgname': 'report',
         'src': 'harness/execute/report/c08_test.go', 'test': 'TestVerif_C08_mm',
         'sinks': {'C08_mm': 'mm_judge'}, 'n': {'quick': 300, 'thorough': 12000}},
        {'pkg': 'execute', 'src': 'harness/execute/c08_test.go', 'test': 'TestVerif_C08_select', 'fakes': True,
         'sinks': {'C08_sel': 'sel_judge'}, 'n': {'quick': 200, 'thorough': 8000}},
        {'pkg': 'execute', 'src': 'harness/execute/c08_test.go', 'test': 'TestVerif_C08_outcome', 'fakes': True,
         'sinks': {'C08_out': 'out_judge'}, 'n': {'quick': 150, 'thorough': 6000}},
    ],
    'known': {'1': 'F14'},
    'rule': 'add: report.NewBuilder(mock hasher = message id, codec with controlled size, table gas estimator).Add on 1-4 commit '
            'reports in order + Build; 1-17 messages each (every 40th case 31-256), three senders per chain with ordered / '
            'unordered / gapped / repeated nonces, on-chain nonces incl. 2^64-1 and missing entries, first nonce at on-chain, '
            '+1, +2; executed none/some/prefix/all/foreign; token data 0-2 entries, ready or not; costly subsets; ranges ending '
            'at 2^64-1; size and gas limits chosen after an unlimited dry run at total, total-1, 3/4, 1/2, 1/4, first report, '
            'tiny, 0, 2^63-1, 2^63, 2^64-1; tamper stream: wrong / zero root, changed or swapped body, missing / extra / '
            'foreign-chain / out-of-range message (with and without re-committed root), token data short / long / nil, codec '
            'error, widened and full uint64 range. Every produced chain report is re-verified in Go with '
            'merklemulti.VerifyComputeRoot (flag bits decoded from ProofFlagBits) against the committed root and again in Coq. '
            'Cases 0 and 1 are the F14 inputs (too-costly one: repaired by F14a, must report nonce 1 only; size-fallback one: recorded class). mm: merklemulti NewTree/Prove/VerifyComputeRoot over an arithmetic '
            'commutative hash, 1-33 (and 255-300) leaves, index sets all/single/subset/empty/unsorted/duplicate/out-of-range, '
            'and proofs mutated before verification. sel: execute.selectReport with a scripted builder. out: real execute.Plugin literal in the Filter state: previous outcome = encoded GetMessages outcome with 1-3 source chains, 1-3 pending commit reports per chain (0-8 messages, token data, executed, costly flags), three sender addresses shared by all chains with different on-chain nonces per chain, four attributed observations carrying nonces (unanimous / one Byzantine value / silent oracle / sender seen by one oracle), classes plain, gas-pressure (BatchGasLimit at total, total-1, 3/4, 1/2, first report, 1/4, 50 of an unlimited dry run), size-pressure (codec weight scaled so that the bodies total 0.5-4x the 1 MiB maxReportLength), crossnonce (messages of chain A numbered from the nonce of chain B), byzantine-nonce, tamper-first / tamper-later (commit report not reproducing its root before / after valid ones), costly; BatchGasLimit = 1 MiB in 10% so that equal limits are seen too; Plugin.Outcome decoded, each chain report also re-verified in Go. '
            'non-trivial = at least one chain report built (add, out), non-empty index set (mm), at least one commit report (sel); '
            'distinct by full input',
    'trusted': ['hashutil keccak HashInternal is an oracle: the model uses the table of the (a,b)->H(a,b) pairs the harness '
                'computed with the real function (commutative, as HashInternal sorts its arguments); the multiproof theorem '
                'assumes only commutativity',
                'MessageHasher.Hash, ExecutePluginCodec.Encode size and gas.EstimateProvider are oracles (universally '
                'quantified in the theorems; concrete mocks in the harness)',
                'typeconv.AddressBytesToString is used by the harness to key senders exactly as the builder does',
                'VerifyComputeRoot: reading past the computed hashes is modelled as an immediate error (the Go code reads a '
                'junk value and must fail its final position check); exercised by the mutated-proof stream'],
    'assumptions': ['per-report gas sums do not wrap uint64 (generator keeps message gas <= 90000); max size and gas are uint64',
                    'commit reports have at most 256 messages for the provability theorem (the verifier\'s own limit)'],
    'level_text': 'Proof: 26 closed Coq theorems. 12 property theorems. C08_multiproof is proved in full: for ALL trees of <= 256 leaves, all non-empty ascending index '
                  'sets and any commutative internal hash, verify (selected leaves) (prove tree idxs) = root (induction over layers, FIFO-queue invariant), with '
                  'C08_multiproof_needs_commutativity. Report builder: full specification of one Add (membership, eligibility, token-data alignment, limits, executed '
                  'bookkeeping: C08_add, C08_mark), no report from commit data that does not reproduce its root (C08_bad_root_no_report), every appended report '
                  're-verifies contract-style from its flag bits to the committed root (C08_provable), budget invariant and outcome-level limits (C08_limits_invariant, '
                  'C08_outcome). Nonce order: proved outside the recorded class (C08_nonce_order_except_known), refuted inside it (known finding F14: the size / gas '
                  'fallback drops a sequenced message after its nonce was counted), refuted for the pre-repair check order (F14a, repaired in /repo). System level '
                  '(ExecSys): C08_report_sound_cycle - every chain report of a Filter round verifies to the root of a commit report that f_dest+1 distinct oracles '
                  'reported identically in round 1 under its own source chain. Judge soundness (14 C08_judge_*): for each of the 4 sinks (nonce clause as a second pass) '
                  "the executable property accepts the model's output and implies the Prop-level clause; Panic / Spin never pass. Correspondence, every run: the real "
                  'report.NewBuilder Add + Build, real merklemulti NewTree / Prove / VerifyComputeRoot incl. mutated proofs, real selectReport, execute.Plugin.Outcome in '
                  'the Filter state under size / gas pressure and tampered commit data; every produced report is re-verified in Go and again in Coq; the cycle theorem is '
                  'exercised on four long-lived plugins by the ExecSys part of C07. Translation tie (3 theorems, C08_gen.v): BoolsToBitFlags / BitFlagsToBools. Partial: '
                  'root = mroot(leaves), the number of chain reports and Err answers are compared with the model only.',
    'level_note': 'Trusted: Coq kernel, hand-written model and theorem statements (merklemulti is external code, transliterated from its source into Model/Merkle.v, not '
                  'verified in place), differential harness, leaf translator. Specific: keccak HashInternal is an oracle - the model uses the table of real (a,b) -> '
                  'H(a,b) pairs logged by the harness, the multiproof theorem assumes only commutativity; MessageHasher.Hash, ExecutePluginCodec size and the gas '
                  'EstimateProvider are universally quantified oracles (mocks in the harness); reading past the computed hashes in VerifyComputeRoot is modelled as an '
                  "immediate error. Assumed: per-report gas sums do not wrap uint64, at most 256 messages per commit report (the verifier's own limit). Known finding F14 "
                  'stays reported as KNOWN-FINDING (class 1). No axioms.',
    'technique': "Coq proof of the merklemulti multiproof theorem (any commutative hash) and of the report builder's specification over a hand-written / transliterated "
                 'Gallina model; cycle composition with C07 (ExecSys); differential correspondence with proved judge plus re-verification of every real report in Go and '
                 'in Coq; bit-flag packing re-translated from Go (C08_gen.v)',
    'modelled': 'merklemulti NewTree/Prove/VerifyComputeRoot, slicelib BoolsToBitFlags/BitFlagsToBools, ConstructMerkleTree, checkMessage/checkMessageNonce, '
                'buildSingleChainReportHelper, verifyReport, buildSingleChainReport (greedy fallback), builder Add/Build, markNewMessagesExecuted, selectReport, and '
                'the Filter branch of Plugin.Outcome as select_report with the arguments the plugin SHOULD pass to report.NewBuilder: nonces = the (source, sender, '
                'nonce) triples reported by more than fChain[dest] oracles (mergeNonceObservations), maxReportSizeBytes = maxReportLength = 1 MiB (execute/factory.go), '
                'maxGas = offchainCfg.BatchGasLimit, the hasher / codec / estimator, commit reports = PendingCommitReports of the previous outcome in encoded order, '
                'result re-sorted as Outcome.Encode does; Timestamp/BlockNum of CommitData and message bodies beyond id/seq/nonce/sender/source are not modelled '
                '(oracle inputs). Translated from source per run: slicelib.BoolsToBitFlags, BitFlagsToBools (C08_gen.v); checkMessage / checkMessageNonce are refused '
                'by the translator (logger and interface calls, mutable builder state) and stay hand-modelled',
}

"""C20 check specification (see lib/specs/__init__.py for the field reference)."""

SPEC = {
    'id': 'C20',
    'title': 'Wire encodings round-trip and are canonical',
    'coq_check': 'C20_check',
    'parts': [
        {'pkg': 'pkg/types/ccipocr3', 'pkgname': 'ccipocr3',
         'src': 'harness/pkg/types/ccipocr3/c20_test.go', 'test': 'TestVerif_C20_leaf',
         'sinks': {'C20_leaf': 'leaf_judge'}, 'n': {'quick': 1200, 'thorough': 40000}},
        {'pkg': 'commit', 'src': 'harness/commit/c20_test.go', 'test': 'TestVerif_C20_commit',
         'sinks': {'C20_struct_commit': 'struct_judge'}, 'n': {'quick': 300, 'thorough': 12000}},
        {'pkg': 'commit', 'src': 'harness/commit/c20_test.go', 'test': 'TestVerif_C20_commit_sort',
         'sinks': {'C20_sort_commit': 'sort_judge'}, 'n': {'quick': 150, 'thorough': 6000}},
    ],
    'known': {'1': 'F17'},
}

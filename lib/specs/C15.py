"""C15 check specification (see lib/specs/__init__.py for the field reference)."""

SPEC = {
    'id': 'C15',
    'title': 'Curses stop observation, acceptance and execution for affected lanes',
    'coq_check': 'C15_check',
    'parts': [
        {'pkg': 'pkg/reader', 'pkgname': 'reader', 'src': 'harness/pkg/reader/c15_test.go', 'test': 'TestVerif_C15_subjects',
         'sinks': {'C15_subj': 'subj_judge'}, 'n': {'quick': 500, 'thorough': 20000}},
        {'pkg': 'commit/merkleroot', 'pkgname': 'merkleroot', 'src': 'harness/commit/merkleroot/c15_test.go',
         'test': 'TestVerif_C15_observe_commit', 'fakes': True,
         'sinks': {'C15_obs_commit': 'obsc_judge'}, 'n': {'quick': 400, 'thorough': 20000}},
        {'pkg': 'commit', 'src': 'harness/commit/c15_test.go', 'test': 'TestVerif_C15_(accept|cycle)_commit', 'fakes': True,
         'sinks': {'C15_acc_commit': 'acc_judge', 'C15_cyc_commit': 'cycc_judge', 'C15_cyc_acc_commit': 'acc_judge'},
         'n': {'quick': 400, 'thorough': 20000}},
        # one part per package: two parts of one package would race on the generated overlay file
        {'pkg': 'execute', 'src': 'harness/execute/c15_test.go', 'test': 'TestVerif_C15_(observe|accept|cycle)_exec', 'fakes': True,
         'sinks': {'C15_obs_exec': 'obse_judge', 'C15_acc_exec': 'acc_judge', 'C15_cyc_exec': 'cyce_judge', 'C15_cyc_acc_exec': 'acc_judge'},
         'n': {'quick': 400, 'thorough': 20000}},
    ],
    'rule': 'subj: real getCurseInfoFromCursedSubjects + CurseInfo.NonCursedSourceChains on subject sets of classes none/global/dest/sources/all sources/'
            'near-miss (one bit off the global, destination or a source subject)/high half non-zero and swapped halves/mixed/duplicate request, selectors '
            '0, 2^56, 2^64-1 and the two numbers that make up the global subject; obs_commit: observerImpl.ObserveOffRampNextSeqNums with a scripted '
            'ChainSupport (dest support yes/no/error, known sources 0..5 or error), scripted remote (clean/global/dest/read failure/one/some/all sources/'
            'unrelated chains) and NextSeqNum reader (ok/error/one answer short); obs_exec: Plugin.getCommitReportsObservation with the same scripts plus commit '
            'reports on the destination for known sources and for a chain outside the known list, reader failure; acc_*: ShouldAcceptAttestedReport of both '
            'plugins on reports naming 0..3 source chains (also the same chain twice), price-only reports, RMN on/off, bad report info. In the plugin-level parts a failing curse read '
            'ranges over error kinds (plain, wrapping reader.ErrContractReaderNotFound, wrapping contractreader.ErrNoBindings, both, context deadline / cancellation, error with a '
            'non-nil answer) and over states of the REAL ccipChainReader (no destination reader, RMNRemote not bound, bound with failing call, bound and cursed globally / '
            'destination / per lane / clean), with a global or lane curse on chain while the read fails. In the three plugin-level '
            'parts one plugin instance receives 1..4 calls while the remote changes between them (history/* classes). cyc_commit / cyc_exec: the REAL commit.Plugin and execute.Plugin (NewPlugin; real merkleroot.Processor, real chain support over the fake home chain, contract discovery off) with Plugin.Observation called in every state / phase (commit: SelectingRanges after every outcome type that leads there, BuildingReport, WaitingForTransmission; execute: GetCommitReports after Unknown/Initialized/Filter, GetMessages, Filter), one instance running one or two full cycles while the remote (all classes and error kinds above, scripted and real reader) changes before every round; previous outcomes carry leftovers of earlier rounds (numbers, roots, ranges, pending reports) that must not leak; round 2 works on what round 1 agreed, also when a lane / global curse is placed afterwards, and the report the cycle leads to is presented to ShouldAcceptAttestedReport under the curse state of that moment (cyc_acc_*). non-trivial = subjects and sources non-empty '
            '(subj), >= 2 known sources / pending chains and destination supported (obs), report names >= 1 source (acc); distinct by full input',
    'trusted': ['the chain-level contract reader underneath ccipChainReader (scripted facade returning the cursed subjects / failing); two fifths of the '
                'plugin-level curse reads go through the real ccipChainReader.GetRmnCurseInfo, the rest through a fake that answers like it (only for the chains asked about)',
                'ChainSupport / home chain answers, NextSeqNum and CommitReportsGTETimestamp are oracles (scripted fakes)',
                'report codec decode results (JSON mock codec of the repository)'],
    'assumptions': ['libocr calls the callbacks one at a time per instance; curse state is whatever the reader returns at each call'],
    'level_text': 'Proof: 32 closed Coq theorems. 20 property theorems: the subject encoding of a chain is injective and never the global subject; a source is cursed iff '
                  'it was asked about and its own subject is set, the destination iff its or the global subject, unrelated subjects change nothing (C15_*_cursed_iff, '
                  'C15_unrelated_subjects); no off-ramp numbers (commit) and no commit reports (execute) are observed under a global or destination curse or a failing '
                  'curse read (C15_no_observe_*); a cursed source is absent from both observations, every other known source stays, exactly the non-cursed known sources '
                  'are observed (C15_source_left_out_*, C15_observed_sources_*, C15_observes_exactly_commit); a report with roots / chain reports is never accepted under '
                  'a global, destination or named-source curse or a reader failure, and the curse step refuses nothing else (C15_accept_*). Unrepaired code refuted: '
                  'C15_source_left_out_exec_unfixed_refuted (F30: a cursed chain outside the known-source list kept its reports; repaired in /repo). Judge soundness (12 '
                  "C15_judge_*): for each judge the executable property accepts the model's output and implies the Prop-level clauses. Correspondence, every run: the "
                  'real getCurseInfoFromCursedSubjects + NonCursedSourceChains on near-miss subject sets; ObserveOffRampNextSeqNums, getCommitReportsObservation and both '
                  'ShouldAcceptAttestedReport under scripted remotes and states of the REAL ccipChainReader, one instance receiving 1..4 calls while the remote changes; '
                  'the REAL commit.Plugin and execute.Plugin (NewPlugin) running one or two full cycles with Observation in every state while the curse state changes '
                  'before every round, previous outcomes carrying leftovers, the resulting report presented to ShouldAccept (C15_cyc_*). Translation tie (3 theorems, '
                  'C15_gen.v): chainSelectorToBytes16. Partial: building / GetMessages / Filter phases observe without a curse re-check, as coded (acceptance stops such '
                  'a report); that a cursed source is absent from outcomes rests on C02.',
    'level_note': 'Trusted: Coq kernel, hand-written model and theorem statements, differential harness, leaf translator. Specific: the chain-level contract reader below '
                  'ccipChainReader is a scripted facade (two fifths of the plugin-level curse reads go through the real ccipChainReader.GetRmnCurseInfo, the rest through '
                  'a fake that answers like it); ChainSupport / home chain answers, NextSeqNum and CommitReportsGTETimestamp are scripted oracles; report decoding is the '
                  "repository's JSON mock codec. Statements are per call (the model is stateless; the history and cycle classes test that the implementation is too). "
                  'libocr calls the callbacks one at a time per instance; the curse state is whatever the reader returns at each call. No axioms.',
    'technique': 'Coq theorems (iff decoding of cursed subjects, observe / accept gates for every curse state) over a stateless hand-written Gallina model; differential '
                 'correspondence with proved judge on function level and on real commit / execute plugins over full cycles with the curse state changing; '
                 'chainSelectorToBytes16 re-translated from Go (C15_gen.v)',
    'modelled': 'Processor.getObservation / execute Plugin.Observation dispatch (which phases read curse-gated data: commit BuildingReport observes roots of the agreed '
                'ranges and execute GetMessages / Filter observe messages / nonces of the agreed reports WITHOUT a curse re-check, as coded — the acceptance check is '
                'what stops such a report), getCurseInfoFromCursedSubjects, NonCursedSourceChains, IsReportCursed, ObserveOffRampNextSeqNums, getCurseInfo + '
                'getCommitReportsObservation, curse step of both ShouldAcceptAttestedReport (gates from Model/Transmit.v). Translated from source per run: '
                'reader.chainSelectorToBytes16 (C15_gen.v), proved equal to the 16 big-endian bytes of Curses.subject_of_chain. Inputs of the model: the cursed-subject '
                'list returned by the RMNRemote read (or its failure), ChainSupport answers, known source chains, pending commit reports, the decoded report',
}

"""C15 check specification (see lib/specs/__init__.py for the field reference)."""

SPEC = {
    'id': 'C15',
    'title': 'Curses stop observation, acceptance and execution for affected lanes',
    'coq_check': 'C15_check',
    'parts': [
        {'pkg': 'pkg/reader', 'pkgname': 'reader', 'src': 'harness/pkg/reader/c15_test.go', 'test': 'TestVerif_C15_subjects',
         'sinks': {'C15_subj': 'subj_judge'}, 'n': {'quick': 500, 'thorough': 20000}},
        {'pkg': 'commit/merkleroot', 'pkgname': 'merkleroot', 'src': 'harness/commit/merkleroot/c15_test.go',
         'test': 'TestVerif_C15_observe_commit', 'fakes': True,
         'sinks': {'C15_obs_commit': 'obsc_judge'}, 'n': {'quick': 400, 'thorough': 20000}},
        {'pkg': 'commit', 'src': 'harness/commit/c15_test.go', 'test': 'TestVerif_C15_accept_commit', 'fakes': True,
         'sinks': {'C15_acc_commit': 'acc_judge'}, 'n': {'quick': 400, 'thorough': 20000}},
        {'pkg': 'execute', 'src': 'harness/execute/c15_test.go', 'test': 'TestVerif_C15_observe_exec', 'fakes': True,
         'sinks': {'C15_obs_exec': 'obse_judge'}, 'n': {'quick': 400, 'thorough': 20000}},
        {'pkg': 'execute', 'src': 'harness/execute/c15_test.go', 'test': 'TestVerif_C15_accept_exec', 'fakes': True,
         'sinks': {'C15_acc_exec': 'acc_judge'}, 'n': {'quick': 400, 'thorough': 20000}},
    ],
    'known': {'1': 'F27'},
}

"""C14 check specification (see lib/specs/__init__.py for the field reference)."""

SPEC = {
    'id': 'C14',
    'title': 'Price and fee updates are robust medians, sent only on heartbeat or deviation',
    'coq_check': 'C14_check',
    'parts': [
        {'pkg': 'internal/libs/mathslib', 'pkgname': 'mathslib',
         'src': 'harness/internal/libs/mathslib/c14_test.go', 'test': 'TestVerif_C14_dev',
         'sinks': {'C14_dev': 'dev_judge'}, 'n': {'quick': 500, 'thorough': 30000}},
        {'pkg': 'internal/libs/mathslib', 'pkgname': 'mathslib',
         'src': 'harness/internal/libs/mathslib/c14_test.go', 'test': 'TestVerif_C14_usd',
         'sinks': {'C14_usd': 'usd_judge'}, 'n': {'quick': 200, 'thorough': 10000}},
        {'pkg': 'commit/chainfee', 'pkgname': 'chainfee',
         'src': 'harness/commit/chainfee/c14_test.go', 'test': 'TestVerif_C14_pack', 'fakes': True,
         'sinks': {'C14_pack': 'pack_judge'}, 'n': {'quick': 200, 'thorough': 10000}},
        {'pkg': 'commit/chainfee', 'pkgname': 'chainfee',
         'src': 'harness/commit/chainfee/c14_test.go', 'test': 'TestVerif_C14_med', 'fakes': True,
         'sinks': {'C14_med': 'med_judge'}, 'n': {'quick': 200, 'thorough': 10000}},
        {'pkg': 'commit/chainfee', 'pkgname': 'chainfee',
         'src': 'harness/commit/chainfee/c14_test.go', 'test': 'TestVerif_C14_cf', 'fakes': True,
         'sinks': {'C14_cf': 'cf_judge'}, 'n': {'quick': 250, 'thorough': 20000}},
        {'pkg': 'commit/tokenprice', 'pkgname': 'tokenprice',
         'src': 'harness/commit/tokenprice/c14_test.go', 'test': 'TestVerif_C14_tp', 'fakes': True,
         'sinks': {'C14_tp': 'tp_judge'}, 'n': {'quick': 250, 'thorough': 20000}},
        {'pkg': 'commit', 'src': 'harness/commit/c14_test.go', 'test': 'TestVerif_C14_plugin', 'fakes': True,
         'sinks': {'C14_pplug': 'pplug_judge'}, 'n': {'quick': 150, 'thorough': 8000}},
    ],
    'known': {},
    'rule': 'dev: operand magnitudes 0..2^260, x1 placed at the deviation threshold of x2 (ppb-1/ppb/ppb+1, +-1 unit), zeros, equal, '
            'negative (model only), both argument orders; usd: products within 1 of a multiple of 1e18; pack: components around 2^112 and up to 2^260; '
            'med: 1..12 big integers with ties; cf / tp: DONs of 4..10 oracles, F=(N-1)/3 (or random), destination + 1..3 source chains '
            '(feed chain for tp) with f in 1..2, observation counts per key drawn from {2f, 2f+1, 2f+2, all}, honest spread 0 / 0.1% / 20% with up to f outliers '
            '(1, 2, 2^130, 2^256), stored values at the deviation threshold -1/0/+1 ppb and 0 / tiny, stored timestamps at now-freq -1/0/+1 ns, '
            'keys without agreed f (F08 class), null big integers (F09 class) and other malformed observations; every observation goes through '
            'ValidateObservation, the accepted ones through Outcome; pplug: the same shapes JSON-encoded through commit.Plugin with fChain agreement counts at 2F / 2F+1. non-trivial: dev both non-zero and different; cf/tp at least one price reported; '
            'distinct by full input',
    'trusted': ['home-chain role lookups answered by the scripted fake vHomeChain',
                'big.Int arithmetic (Mul, Div = Euclidean, Lsh, Rsh, Or, And, Cmp) behaves as documented; Z in the model',
                'time.Time as Unix nanoseconds: Add / After / Before on instants within 1678..2262; monotonic clock readings absent',
                'token ids are fixed-width hex strings so that Go string order = numeric order of the model ids',
                'deviation thresholds in the config are non-nil and fit int64; agreed f values are below 2^62 '
                '(above, Go int(thresh) turns negative and the aggregator threshold vanishes: modelled by agg_thr, hypotheses say f < 2^62)'],
    'assumptions': ['libocr delivers at most one observation per oracle per round and calls ValidateObservation before Outcome',
                    'the repairs fixes/F08.patch and fixes/F09.patch are applied (the check reports VIOLATION on a tree without them)'],
    'level_text': 'Proof: Coq theorems over the executable model: the median of any list of >= 2f+1 values with <= f faulty ones lies between the honest '
                  'minimum and maximum (also component-wise for fee updates and timestamps); every aggregated key met its 2f+1 threshold (refuted for the '
                  'pre-repair aggregator); Deviates as an integer inequality incl. zero cases and symmetry; USD-per-unit-gas floor bounds; packing round trip with the '
                  '112-bit shift; a token / gas price is selected iff no stored value, heartbeat elapsed or deviation, output strictly sorted by key; validated '
                  'observations contain no null big integer. Correspondence: Deviates, CalculateUsdPerUnitGas, To/FromPackedFee, Median and both processors '
                  '(ValidateObservation + Outcome) run against the model and a direct restatement of the property every run',
    'level_note': 'Trusted: Coq kernel, hand-written model, differential harness. No axioms. Plugin level: commit.Plugin (NewPlugin, N in {4,7}, F in {1,2}, f(source) != f(dest)) '
                  'ValidateObservation + Outcome + Reports: the report PriceUpdates must equal the outcome prices (order, nothing lost or added).',
    'modelled': 'mathslib.Deviates / CalculateUsdPerUnitGas, chainfee To/FromPackedFee / ChainFeeUpdateAggregator / ValidateObservation / '
                'getConsensusObservation / Outcome / getGasPricesToUpdate, tokenprice ValidateObservation / getConsensusObservation / '
                'selectTokensForUpdate / Outcome, consensus.Median / GetConsensusMapAggregator / TimestampedBigAggregator',
}

"""C14 check specification (see lib/specs/__init__.py for the field reference)."""

SPEC = {
    'id': 'C14',
    'title': 'Price and fee updates are robust medians, sent only on heartbeat or deviation',
    'coq_check': 'C14_check',
    'parts': [
        {'pkg': 'internal/libs/mathslib', 'pkgname': 'mathslib',
         'src': 'harness/internal/libs/mathslib/c14_test.go', 'test': 'TestVerif_C14_dev',
         'sinks': {'C14_dev': 'dev_judge'}, 'n': {'quick': 500, 'thorough': 30000}},
        {'pkg': 'internal/libs/mathslib', 'pkgname': 'mathslib',
         'src': 'harness/internal/libs/mathslib/c14_test.go', 'test': 'TestVerif_C14_usd',
         'sinks': {'C14_usd': 'usd_judge'}, 'n': {'quick': 200, 'thorough': 10000}},
        {'pkg': 'commit/chainfee', 'pkgname': 'chainfee',
         'src': 'harness/commit/chainfee/c14_test.go', 'test': 'TestVerif_C14_pack', 'fakes': True,
         'sinks': {'C14_pack': 'pack_judge'}, 'n': {'quick': 200, 'thorough': 10000}},
        {'pkg': 'commit/chainfee', 'pkgname': 'chainfee',
         'src': 'harness/commit/chainfee/c14_test.go', 'test': 'TestVerif_C14_med', 'fakes': True,
         'sinks': {'C14_med': 'med_judge'}, 'n': {'quick': 200, 'thorough': 10000}},
        {'pkg': 'commit/chainfee', 'pkgname': 'chainfee',
         'src': 'harness/commit/chainfee/c14_test.go', 'test': 'TestVerif_C14_cf', 'fakes': True,
         'sinks': {'C14_cf': 'cf_judge'}, 'n': {'quick': 250, 'thorough': 20000}},
        {'pkg': 'commit/tokenprice', 'pkgname': 'tokenprice',
         'src': 'harness/commit/tokenprice/c14_test.go', 'test': 'TestVerif_C14_tp', 'fakes': True,
         'sinks': {'C14_tp': 'tp_judge'}, 'n': {'quick': 250, 'thorough': 20000}},
        {'pkg': 'commit', 'src': 'harness/commit/c14_test.go', 'test': 'TestVerif_C14_plugin', 'fakes': True,
         'sinks': {'C14_pplug': 'pplug_judge'}, 'n': {'quick': 150, 'thorough': 8000}},
        # histories: ONE long-lived processor / plugin, the previous outcome threaded from round to round, one case per round
        {'pkg': 'commit/chainfee', 'pkgname': 'chainfee',
         'src': ['harness/commit/chainfee/c14_test.go', 'harness/commit/chainfee/c14h_test.go'], 'test': 'TestVerif_C14_cfh', 'fakes': True,
         'sinks': {'C14_cfh': 'cfh_judge'}, 'n': {'quick': 300, 'thorough': 12000}},
        {'pkg': 'commit/tokenprice', 'pkgname': 'tokenprice',
         'src': ['harness/commit/tokenprice/c14_test.go', 'harness/commit/tokenprice/c14h_test.go'], 'test': 'TestVerif_C14_tph', 'fakes': True,
         'sinks': {'C14_tph': 'tph_judge'}, 'n': {'quick': 250, 'thorough': 10000}},
        {'pkg': 'commit', 'src': ['harness/commit/c14_test.go', 'harness/commit/c14h_test.go'], 'test': 'TestVerif_C14_pluginh', 'fakes': True,
         'sinks': {'C14_pplugh': 'pplugh_judge'}, 'n': {'quick': 200, 'thorough': 8000}},
    ],
    'known': {},
    'rule': 'half of the chain-fee cases use production-sized chain selectors (more than 2^63 apart or cyclic modulo 2^64); dev: operand magnitudes 0..2^260, x1 placed at the deviation threshold of x2 (ppb-1/ppb/ppb+1, +-1 unit), zeros, equal, '
            'negative (model only), both argument orders; usd: products within 1 of a multiple of 1e18; pack: components around 2^112 and up to 2^260; '
            'med: 1..12 big integers with ties; cf / tp: DONs of 4..10 oracles, F=(N-1)/3 (or random), destination + 1..3 source chains '
            '(feed chain for tp) with f in 1..2, observation counts per key drawn from {2f, 2f+1, 2f+2, all}, honest spread 0 / 0.1% / 20% with up to f outliers '
            '(1, 2, 2^130, 2^256), stored values at the deviation threshold -1/0/+1 ppb and 0 / tiny, stored timestamps at now-freq -1/0/+1 ns, '
            'keys without agreed f (F08 class), null big integers (F09 class) and other malformed observations; every observation goes through '
            'ValidateObservation, the accepted ones through Outcome; pplug: the same shapes JSON-encoded through commit.Plugin with fChain agreement counts at 2F / 2F+1. '
            'cfh / tph / pplugh (histories): ONE processor built with NewProcessor (ONE plugin built with NewPlugin) over ONE home-chain fake lives through 3..10 rounds, one case per round; '
            'the previous outcome handed to round k+1 is the Outcome value round k returned (JSON round trip; also after an error exit, as commit.Plugin.Outcome stores it) or an arbitrary '
            'non-empty one (prices of chains / tokens with and without consensus this round, foreign keys); a simulated destination stores what was reported (fresh), is wiped, or sits at the '
            'deviation / heartbeat boundary; between rounds change: role map (an oracle gains / loses a chain), f of a chain, prices, clock step (1 s .. 2x frequency, +-1 ns at the frequency, backwards '
            'across a heartbeat boundary), observers (all / 2F+1 / 2f+1 / 2F / 2f / 1 / 0), agreement on f(dest) / f(source) / f(feed) (all / 2F+1 / 2F / 0), per-key counts at 0 / 2f / 2f+1, '
            'native price absent, stored update reported by 0 / 2f / 2f+1 / all destination readers, quiet rounds (no key reaches its threshold), outliers, malformed observations; '
            'half of the histories are calm (nominal rounds, exactly ONE deviation per round), half wild (all aspects drawn independently); '
            'non-trivial: dev both non-zero and different; cf/tp at least one price reported; history parts: the previous outcome handed to the round is non-empty; '
            'distinct by full input',
    'trusted': ['home-chain role lookups answered by the scripted fake vHomeChain',
                'big.Int arithmetic (Mul, Div = Euclidean, Lsh, Rsh, Or, And, Cmp) behaves as documented; Z in the model',
                'time.Time as Unix nanoseconds: Add / After / Before on instants within 1678..2262; monotonic clock readings absent',
                'token ids are fixed-width hex strings so that Go string order = numeric order of the model ids',
                'deviation thresholds in the config are non-nil and fit int64; agreed f values are below 2^62 '
                '(above, Go int(thresh) turns negative and the aggregator threshold vanishes: modelled by agg_thr, hypotheses say f < 2^62)'],
    'assumptions': ['libocr delivers at most one observation per oracle per round and calls ValidateObservation before Outcome',
                    'the configuration of a processor / plugin instance does not change during its life (a configuration change makes libocr build a new plugin instance)',
                    'the model follows the repaired code (F08, F09 are committed in /repo; the pre-repair functions are kept as _unfixed and refuted)'],
    'level_text': 'Proof: 70 closed Coq theorems. 32 property theorems over the executable model: the median of any list of >= 2f+1 values with <= f faulty ones lies '
                  'between the honest minimum and maximum, also component-wise for fee updates and timestamps (C14_median_robust*); every aggregated key met its 2f+1 '
                  'threshold (C14_threshold: iff); a gas / token price is the median-derived value of the accepted observations (C14_gas_price, C14_token_price); '
                  'Deviates as an integer inequality; USD-per-unit-gas floor bounds and the 112-bit packing round trip (C14_units_*); a price is selected iff no stored '
                  'value, heartbeat elapsed or deviation, output strictly sorted by key (C14_selection_*); validated observations contain no null big integer. Histories, '
                  "for every configuration, initial previous outcome and round list on one long-lived processor: round k equals the processor run on round k's role map "
                  'and observations ALONE (C14_history_round_*, C14_history_prev_irrelevant), so every price of every round satisfies the derivation, robustness and '
                  "selection theorems over THAT round's accepted observations (C14_history_*_current); a round without consensus hands back no price. Unrepaired code "
                  "refuted: F08 (aggregator without agreed f took a single oracle's value), F09 (null big integers passed validation). Judge soundness (38 C14_judge_*): "
                  "for each of the 10 sinks the executable property accepts the model's output and implies the Prop-level clause; the order clause is premise-free. "
                  'Correspondence, every run: the real leaf functions, both processors (ValidateObservation + Outcome) and commit.Plugin (report PriceUpdates = outcome '
                  'prices); ONE chainfee / tokenprice Processor from NewProcessor and ONE commit.Plugin from NewPlugin kept over 3..10 rounds with the previous outcome '
                  'threaded and destination store, role map, f values, clock and observer counts changing. Translation tie (14 theorems, C14_gen.v): Deviates, '
                  'CalculateUsdPerUnitGas, ToPackedFee, FromPackedFee, the generic Median and TwoFPlus1 are re-translated. Partial: negative Deviates operands and '
                  'operands outside the packing range are compared with the model only.',
    'level_note': 'Trusted: Coq kernel, hand-written model and theorem statements, differential harness, leaf translator. Specific: home-chain role lookups are a '
                  'scripted fake; big.Int arithmetic (Mul, Div = Euclidean, Lsh, Rsh, Or, And, Cmp) behaves as documented (Z in the model; the translator does not model '
                  'division by zero or nil operands); time.Time as Unix nanoseconds within 1678..2262, no monotonic readings; token ids are fixed-width hex so that Go '
                  "string order is the model's numeric order; deviation thresholds are non-nil and fit int64; agreed f < 2^62 (above, int(thresh) turns negative: "
                  'hypothesis of the theorems); BigIntSortedMiddle is refused by the translator (comparator on an embedded *big.Int). libocr modelled: one observation '
                  'per oracle, validation before Outcome; the configuration of an instance is fixed for its life, so a memo of configuration values raises no alarm while '
                  'a memo of anything read per round does. No axioms.',
    'technique': 'Coq theorems (median robustness, threshold iff, exact selection rule, memorylessness over round histories) over a hand-written Gallina model on Z; '
                 'differential correspondence with proved judge on leaf functions, processors, commit.Plugin and long-lived instances; Deviates / unit conversions / fee '
                 'packing / Median re-translated from Go (C14_gen.v)',
    'modelled': 'mathslib.Deviates / CalculateUsdPerUnitGas, chainfee To/FromPackedFee / ChainFeeUpdateAggregator / ValidateObservation / getConsensusObservation / '
                'Outcome / getGasPricesToUpdate, tokenprice ValidateObservation / getConsensusObservation / selectTokensForUpdate / Outcome, consensus.Median / '
                'GetConsensusMapAggregator / TimestampedBigAggregator; over histories: chainfee.NewProcessor / tokenprice.NewProcessor instances and the price part of '
                'commit.Plugin.Outcome / Reports with OutcomeContext.PreviousOutcome threaded. Translated from source per run: mathslib.Deviates, '
                'CalculateUsdPerUnitGas, chainfee ToPackedFee / FromPackedFee, consensus.Median (generic), consensus.TwoFPlus1 (C14_gen.v); slicelib.BigIntSortedMiddle '
                'is refused by the translator. Inputs of the model: role map and f lookups, stored updates of the destination, the clock, the attributed observations '
                'of each round',
}

"""C14 check specification (see lib/specs/__init__.py for the field reference)."""

SPEC = {
    'id': 'C14',
    'title': 'Price and fee updates are robust medians, sent only on heartbeat or deviation',
    'coq_check': 'C14_check',
    'parts': [
        {'pkg': 'internal/libs/mathslib', 'pkgname': 'mathslib',
         'src': 'harness/internal/libs/mathslib/c14_test.go', 'test': 'TestVerif_C14_dev',
         'sinks': {'C14_dev': 'dev_judge'}, 'n': {'quick': 500, 'thorough': 30000}},
        {'pkg': 'internal/libs/mathslib', 'pkgname': 'mathslib',
         'src': 'harness/internal/libs/mathslib/c14_test.go', 'test': 'TestVerif_C14_usd',
         'sinks': {'C14_usd': 'usd_judge'}, 'n': {'quick': 200, 'thorough': 10000}},
        {'pkg': 'commit/chainfee', 'pkgname': 'chainfee',
         'src': 'harness/commit/chainfee/c14_test.go', 'test': 'TestVerif_C14_pack', 'fakes': True,
         'sinks': {'C14_pack': 'pack_judge'}, 'n': {'quick': 200, 'thorough': 10000}},
        {'pkg': 'commit/chainfee', 'pkgname': 'chainfee',
         'src': 'harness/commit/chainfee/c14_test.go', 'test': 'TestVerif_C14_med', 'fakes': True,
         'sinks': {'C14_med': 'med_judge'}, 'n': {'quick': 200, 'thorough': 10000}},
        {'pkg': 'commit/chainfee', 'pkgname': 'chainfee',
         'src': 'harness/commit/chainfee/c14_test.go', 'test': 'TestVerif_C14_cf', 'fakes': True,
         'sinks': {'C14_cf': 'cf_judge'}, 'n': {'quick': 250, 'thorough': 20000}},
        {'pkg': 'commit/tokenprice', 'pkgname': 'tokenprice',
         'src': 'harness/commit/tokenprice/c14_test.go', 'test': 'TestVerif_C14_tp', 'fakes': True,
         'sinks': {'C14_tp': 'tp_judge'}, 'n': {'quick': 250, 'thorough': 20000}},
        {'pkg': 'commit', 'src': 'harness/commit/c14_test.go', 'test': 'TestVerif_C14_plugin', 'fakes': True,
         'sinks': {'C14_pplug': 'pplug_judge'}, 'n': {'quick': 150, 'thorough': 8000}},
        # histories: ONE long-lived processor / plugin, the previous outcome threaded from round to round, one case per round
        {'pkg': 'commit/chainfee', 'pkgname': 'chainfee',
         'src': ['harness/commit/chainfee/c14_test.go', 'harness/commit/chainfee/c14h_test.go'], 'test': 'TestVerif_C14_cfh', 'fakes': True,
         'sinks': {'C14_cfh': 'cfh_judge'}, 'n': {'quick': 300, 'thorough': 12000}},
        {'pkg': 'commit/tokenprice', 'pkgname': 'tokenprice',
         'src': ['harness/commit/tokenprice/c14_test.go', 'harness/commit/tokenprice/c14h_test.go'], 'test': 'TestVerif_C14_tph', 'fakes': True,
         'sinks': {'C14_tph': 'tph_judge'}, 'n': {'quick': 250, 'thorough': 10000}},
        {'pkg': 'commit', 'src': ['harness/commit/c14_test.go', 'harness/commit/c14h_test.go'], 'test': 'TestVerif_C14_pluginh', 'fakes': True,
         'sinks': {'C14_pplugh': 'pplugh_judge'}, 'n': {'quick': 200, 'thorough': 8000}},
    ],
    'known': {},
    'rule': 'dev: operand magnitudes 0..2^260, x1 placed at the deviation threshold of x2 (ppb-1/ppb/ppb+1, +-1 unit), zeros, equal, '
            'negative (model only), both argument orders; usd: products within 1 of a multiple of 1e18; pack: components around 2^112 and up to 2^260; '
            'med: 1..12 big integers with ties; cf / tp: DONs of 4..10 oracles, F=(N-1)/3 (or random), destination + 1..3 source chains '
            '(feed chain for tp) with f in 1..2, observation counts per key drawn from {2f, 2f+1, 2f+2, all}, honest spread 0 / 0.1% / 20% with up to f outliers '
            '(1, 2, 2^130, 2^256), stored values at the deviation threshold -1/0/+1 ppb and 0 / tiny, stored timestamps at now-freq -1/0/+1 ns, '
            'keys without agreed f (F08 class), null big integers (F09 class) and other malformed observations; every observation goes through '
            'ValidateObservation, the accepted ones through Outcome; pplug: the same shapes JSON-encoded through commit.Plugin with fChain agreement counts at 2F / 2F+1. '
            'cfh / tph / pplugh (histories): ONE processor built with NewProcessor (ONE plugin built with NewPlugin) over ONE home-chain fake lives through 3..10 rounds, one case per round; '
            'the previous outcome handed to round k+1 is the Outcome value round k returned (JSON round trip; also after an error exit, as commit.Plugin.Outcome stores it) or an arbitrary '
            'non-empty one (prices of chains / tokens with and without consensus this round, foreign keys); a simulated destination stores what was reported (fresh), is wiped, or sits at the '
            'deviation / heartbeat boundary; between rounds change: role map (an oracle gains / loses a chain), f of a chain, prices, clock step (1 s .. 2x frequency, +-1 ns at the frequency, backwards '
            'across a heartbeat boundary), observers (all / 2F+1 / 2f+1 / 2F / 2f / 1 / 0), agreement on f(dest) / f(source) / f(feed) (all / 2F+1 / 2F / 0), per-key counts at 0 / 2f / 2f+1, '
            'native price absent, stored update reported by 0 / 2f / 2f+1 / all destination readers, quiet rounds (no key reaches its threshold), outliers, malformed observations; '
            'half of the histories are calm (nominal rounds, exactly ONE deviation per round), half wild (all aspects drawn independently); '
            'non-trivial: dev both non-zero and different; cf/tp at least one price reported; history parts: the previous outcome handed to the round is non-empty; '
            'distinct by full input',
    'trusted': ['home-chain role lookups answered by the scripted fake vHomeChain',
                'big.Int arithmetic (Mul, Div = Euclidean, Lsh, Rsh, Or, And, Cmp) behaves as documented; Z in the model',
                'time.Time as Unix nanoseconds: Add / After / Before on instants within 1678..2262; monotonic clock readings absent',
                'token ids are fixed-width hex strings so that Go string order = numeric order of the model ids',
                'deviation thresholds in the config are non-nil and fit int64; agreed f values are below 2^62 '
                '(above, Go int(thresh) turns negative and the aggregator threshold vanishes: modelled by agg_thr, hypotheses say f < 2^62)'],
    'assumptions': ['libocr delivers at most one observation per oracle per round and calls ValidateObservation before Outcome',
                    'the configuration of a processor / plugin instance does not change during its life (a configuration change makes libocr build a new plugin instance)',
                    'the repairs fixes/F08.patch and fixes/F09.patch are applied (the check reports VIOLATION on a tree without them)'],
    'level_text': 'Proof: Coq theorems over the executable model: the median of any list of >= 2f+1 values with <= f faulty ones lies between the honest '
                  'minimum and maximum (also component-wise for fee updates and timestamps); every aggregated key met its 2f+1 threshold (refuted for the '
                  'pre-repair aggregator); Deviates as an integer inequality incl. zero cases and symmetry; USD-per-unit-gas floor bounds; packing round trip with the '
                  '112-bit shift; a token / gas price is selected iff no stored value, heartbeat elapsed or deviation, output strictly sorted by key; validated '
                  'observations contain no null big integer. Correspondence: Deviates, CalculateUsdPerUnitGas, To/FromPackedFee, Median and both processors '
                  '(ValidateObservation + Outcome) run against the model and a direct restatement of the property every run. '
                  'Histories (C14_history_*): for every configuration, every initial previous outcome and every list of rounds run through one long-lived processor with the returned Outcome value of '
                  'round k handed to round k+1, round k equals the processor run on round k\'s role map and observations alone (induction over the round list; the previous outcome does not occur), hence every '
                  'gas / token price of every round of every history satisfies the derivation, median-robustness and selection theorems over THAT round\'s accepted observations, and a round without consensus '
                  '(error exit, nothing-to-update exit) hands back no price; the variant that hands the previous outcome back on those exits is refuted by a three-round witness. The history parts judge every '
                  'round of the long-lived instances against that memoryless step function',
    'level_note': 'Trusted: Coq kernel, hand-written model, differential harness. No axioms. Plugin level: commit.Plugin (NewPlugin, N in {4,7}, F in {1,2}, f(source) != f(dest)) '
                  'ValidateObservation + Outcome + Reports: the report PriceUpdates must equal the outcome prices (order, nothing lost or added). '
                  'History parts: instances built by the real constructors, kept alive across rounds; configuration (frequencies, thresholds, F, destination, feed chain) is fixed per instance as in production, '
                  'so a memo of configuration values raises no alarm while a memo of anything read per round (role map, agreed f, stored updates, clock, previous outcome) does.',
    'modelled': 'mathslib.Deviates / CalculateUsdPerUnitGas, chainfee To/FromPackedFee / ChainFeeUpdateAggregator / ValidateObservation / '
                'getConsensusObservation / Outcome / getGasPricesToUpdate, tokenprice ValidateObservation / getConsensusObservation / '
                'selectTokensForUpdate / Outcome, consensus.Median / GetConsensusMapAggregator / TimestampedBigAggregator; '
                'over histories: chainfee.NewProcessor / tokenprice.NewProcessor instances and the price part of commit.Plugin.Outcome / Reports with OutcomeContext.PreviousOutcome threaded',
}

"""C05 check specification (see lib/specs/__init__.py for the field reference)."""

# the merkleroot harness of C05 re-uses the Coq-term printers and generators of the C03 harness file
_MR = ['harness/commit/merkleroot/c03_test.go', 'harness/commit/merkleroot/c05_test.go']
_MRL = _MR + ['harness/commit/merkleroot/c05life_test.go']

SPEC = {
    'id': 'C05',
    'title': 'Only RMN-blessed roots are reported when RMN is enabled',
    'coq_check': 'C05_check',
    'parts': [
        {'pkg': 'commit/merkleroot', 'pkgname': 'merkleroot', 'fakes': True, 'src': _MR, 'test': 'TestVerif_C05_obs',
         'sinks': {'C05_obs': 'obs_judge'}, 'n': {'quick': 900, 'thorough': 30000}},
        {'pkg': 'commit/merkleroot', 'pkgname': 'merkleroot', 'fakes': True, 'src': _MR, 'test': 'TestVerif_C05_build',
         'sinks': {'C05_build': 'build_judge'}, 'n': {'quick': 700, 'thorough': 30000}},
        {'pkg': 'commit/merkleroot', 'pkgname': 'merkleroot', 'fakes': True, 'src': _MR, 'test': 'TestVerif_C05_chain',
         'sinks': {'C05_chain': 'chain_judge'}, 'n': {'quick': 200, 'thorough': 4000}},
        {'pkg': 'commit/merkleroot', 'pkgname': 'merkleroot', 'fakes': True, 'src': _MRL, 'test': 'TestVerif_C05_life',
         'sinks': {'C05_life': 'life_judge'}, 'n': {'quick': 60, 'thorough': 1800}},
        {'pkg': 'commit', 'src': 'harness/commit/c05_test.go', 'test': 'TestVerif_C05_report', 'fakes': True,
         'sinks': {'C05_report': 'rep5_judge'}, 'n': {'quick': 400, 'thorough': 10000}},
        {'pkg': 'commit', 'src': 'harness/commit/c05_test.go', 'test': 'TestVerif_C05_replife', 'fakes': True,
         'sinks': {'C05_replife': 'rep5_judge'}, 'n': {'quick': 60, 'thorough': 1500}},
        {'pkg': 'commit', 'src': 'harness/commit/c05_test.go', 'test': 'TestVerif_C05_gate', 'fakes': True,
         'sinks': {'C05_gate': 'gate5_judge'}, 'n': {'quick': 400, 'thorough': 10000}},
    ],
    'known': {},
    'rule': 'life: 60 histories of 8..16 rounds (thorough 1800) on ONE long-lived set of four processors (real NewProcessor, one RMN controller fake, '
            'one recording crypto fake and the shared RMNHome reader fake per oracle, built once per history; Query by the leader, Observation / '
            'ValidateObservation / Outcome by every oracle each round, outcome fed back through JSON; a round without quorum is followed by another '
            'round on the same outcome). Between the rounds the environment moves, per history one aspect, two, or all of: RMNRemote signer set '
            '(one rotated, all replaced, reordered, grown, shrunk, a retired key back), F, ConfigVersion, ConfigDigest (RMNHome digest), contract '
            'address, report version, config absent / back, RMNHome node set, off-ramp address, on-ramp addresses; also message arrival (0..2 per '
            'round or none) and transmission odds (0..3 of 3), RMNHome reader / InitConnection failing 1 round in 10, address lookups failing. '
            'Crypto fake = a signature scheme: a signature is made by one key over one report, valid iff its key is among the signer addresses '
            'handed over and the report handed over is the signed one; it records every call. Leader: honest (the controller fake signs what it is asked '
            'for, with the keys and fields of the config it is HANDED; modes all lanes / other roots / subset / timeout / error) or Byzantine bundle '
            'with keys {current = agreed in the selecting round, removed = agreed earlier in this history, future = on chain now but not agreed, '
            'mixed, foreign, F of them, none, signatures replayed from an accepted bundle of an earlier round (around the new lanes or verbatim; in 2 of 5 building rounds in which an accepted bundle predates a move of the environment that bundle is replayed on purpose, the class label says which parts of its report / which keys are stale now)} x report '
            'fields of {agreed, an earlier agreed, on-chain} config x lanes {matching, other roots, subset}, retry flag 1 in 8, nil signature 1 in 25; '
            'replife: 60 histories of 4..12 cycles of Reports + ShouldAcceptAttestedReport on ONE commit.Plugin with F_rmn, signatures, roots, prices '
            'changing per cycle; chain: histories of 3..10 rounds of the processor chain, processors built with the real NewProcessor (real observerImpl over a '
            'scripted honest reader, real ccipChainSupport over a fake home chain, 4 oracles, F=1), RMN on (4/5) or off: leader = '
            'Processor.Query with a scripted rmn.Controller (signatures for the true roots / for other roots / rmn.ErrTimeout / error) or a '
            'Byzantine query from {retry flag} x {bundle absent, matching the true roots with the crypto oracle accepting (honest) or rejecting '
            '(forged), other roots}; then Processor.Observation of all four oracles (returned value kept also next to an error), '
            'ValidateObservation of each, Processor.Outcome on the valid ones when they are a quorum, outcome fed back through JSON; the world '
            '(pending messages, off-ramp cursor after a transmission) moves between rounds; one judged case per round; '
            'obs: Processor.Observation with RMN enabled (5/6) or not, previous outcome type over building / every other state / '
            'out-of-range, previous RMN config empty or not, controller already initialised / initialised now / failing, destination '
            'known to chain-selectors or not, off-ramp address lookup failing or not, query = no bundle or a bundle around two roots '
            '(exact, one component changed, subset, superset, duplicate, none, malformed: nil / short signature, nil lane, nil lane '
            'source, nil interval, root of wrong length) with 0..3 signatures, retry flag 1 in 5, recording RMNCrypto fake answering '
            'yes (3/4) or no; build: Processor.Outcome in the building state on 0..3 agreed roots (nil / empty / non-empty on-ramp '
            'address) and a bundle deviating from them in exactly one of chain, interval start, interval end, root, address, or '
            'subset / superset / duplicate / none / malformed; report: Plugin.Reports on outcomes with type x roots 0..3 x signatures '
            '{0,F,F+1,F+2} x F 0..3 x gas prices, and what it emits handed to ShouldAcceptAttestedReport; gate: '
            'ShouldAcceptAttestedReport on hand-made reports with RemoteF in {0..3, 2^63-2, 2^63-1, 2^63, 2^64-2, 2^64-1}. '
            'non-trivial = life, chain and obs: RMN enabled and building state; replife as report; build: >= 1 agreed root and a bundle; report / gate: >= 1 root and '
            'RMN enabled; distinct by full input',
    'trusted': ['RMNCrypto.VerifyReportSignatures is an oracle (a predicate over signatures, report and signer addresses); the '
                'theorems hold for every such predicate; the harness uses a recording fake and compares the arguments of the call',
                'life part: the harness instantiates that oracle with a signature scheme (key in the signer list and report equal to the signed '
                'one); the judge evaluates the same predicate (toy_verify) on the arguments the model expects, so a call with other arguments, a '
                'skipped call and a wrongly accepted bundle are all seen; sha256 of the canonical report is taken as collision free',
                'life part: the digest an RMN controller is connected with is state of the controller (read from the fake), not of the Processor',
                'chainsel.ChainBySelector, CCIPReader.GetContractAddress, RMN controller initialisation are oracles (inputs)',
                'the report codec (JSON mock) and ReportInfo JSON round trip are exercised, not modelled',
                'getConsensusObservation (C01) is an input: the harness hands the real result to the model',
                'libocr: Outcome is called only on a quorum of observations, so a building round whose query every honest oracle '
                'refuses produces no outcome (used to read C05_reported_roots_verified as the end-to-end statement)'],
    'assumptions': ['every previous outcome was written by the state machine itself (sigs_imply_roots is an invariant, it holds of the '
                    'initial empty outcome)'],
    'level_text': 'Proof: 39 closed Coq theorems. 24 property theorems. Round level: Observation in a building round (RMN enabled, no retry) succeeds only with a '
                  "well-formed bundle whose signatures the crypto oracle accepted for exactly the report built from the previous outcome's RMN config and the bundle's "
                  'lane updates; a bundle in any other round is refused; the reported roots are exactly the agreed roots equal to a signed lane update (C05_roots_signed, '
                  'iff), sorted, one per chain; signatures never without roots over any run and in the emitted report (C05_no_sigs_without_roots); a report with roots is '
                  'accepted only with F_rmn+1 signatures for every F (C05_accept_gate); an announced retry is inert; C05_honest_query. History level, induction over any '
                  'round list of one long-lived Processor: in EVERY round the crypto oracle is consulted only in a building round and with exactly the signers, versions, '
                  "addresses and digest of THAT round's previous outcome (C05_life_verified_against_agreed_config); an outcome with roots is written only under a bundle "
                  'accepted against that set (C05_life_roots_need_verified_bundle); instances with the same previous outcome behave alike (C05_life_round_memoryless, '
                  '_call_memoryless). Unrepaired code refuted: F10 (nil bundle part panicked), F11, F28. Judge soundness (15 C05_judge_*): for each of the 7 sinks the '
                  "executable property accepts the model's output and implies the Prop-level clause. Correspondence, every run: four real Processors from NewProcessor "
                  'kept for 8..16 rounds while the RMNRemote / RMNHome configuration and addresses change, with a recording crypto fake that is a signature scheme and '
                  'honest or Byzantine leaders (C05_life); one long-lived commit.Plugin over 4..12 Reports + ShouldAccept cycles (C05_replife); the chain Query -> '
                  'Observation -> ValidateObservation -> Outcome; the four callbacks at function level. Translation tie: Outcome.NextState (C03_gen.v, 3 theorems). '
                  'Outside: a NewPlugin-built plugin with the real rmn.Controller is not driven (the scripted controller is injected at the Processor).',
    'level_note': 'Trusted: Coq kernel, hand-written model and theorem statements, differential harness, leaf translator. Specific: RMNCrypto.VerifyReportSignatures is '
                  'an oracle - the theorems hold for every predicate over (signatures, report, signer addresses); the harness records the call and compares its '
                  'ARGUMENTS, in the life part the fake is a signature scheme (sha256 of the canonical report taken as collision free) and the judge evaluates the same '
                  'predicate. The rmn.Controller (C06), chainsel.ChainBySelector, GetContractAddress, controller initialisation and getConsensusObservation (C01) are '
                  'inputs; report codec (JSON mock) and ReportInfo round trip are exercised, not modelled. Assumed: every previous outcome was written by the state '
                  'machine (sigs_imply_roots is an invariant, true of the empty outcome); libocr calls Outcome only on a quorum of observations, so a building round '
                  'whose query every honest oracle refuses produces no outcome. No axioms.',
    'technique': 'Coq theorems (iff on reported roots, invariants and memorylessness by induction over round histories) over a hand-written Gallina model with signature '
                 'verification as an arbitrary oracle; differential correspondence with proved judge on long-lived Processors / Plugin with a recording signature-scheme '
                 'fake; NextState re-translated from Go (C03_gen.v)',
    'modelled': 'initializeRMNController over rounds (init_step: InitConnection iff RMN on, config present, controller connected with another digest; arguments = '
                'digest of the previous outcome, node set RMNHome shows now), Processor.Query (controller answer as input), getObservation (observer answers as inputs; '
                "the merkle roots through the C02 model of ObserveMerkleRoots on the previous outcome's ranges), the retry rule of ValidateObservation, "
                'initializeRMNController (as an input code), verifyQuery, shouldSkipRMNVerification, NewECDSASigsFromPB, NewLaneUpdatesFromPB, buildReport, the '
                'merkle-root part of Plugin.Reports, the RMN gate of ShouldAcceptAttestedReport (curse check and decode errors are inputs, see C16/C15). A '
                'commit.Plugin constructed by NewPlugin with RMN enabled is not driven: NewPlugin builds the real rmn.Controller from a PeerClient, the scripted '
                'controller can only be injected at the processor (NewProcessor), which is what the chain part does. With RMN disabled a leader-supplied bundle still '
                'filters roots in buildReport (observation F10b; not part of the property text). Translated from source per run: Outcome.NextState and its constant '
                'blocks (C03_gen.v). Inputs of the model: the controller answer (query), crypto verdict, address and chain lookups, the consensus observation, RMNHome '
                '/ RMNRemote configuration per round',
}

"""C05 check specification (see lib/specs/__init__.py for the field reference)."""

_MR = ['harness/commit/merkleroot/c03_test.go', 'harness/commit/merkleroot/c05_test.go']

SPEC = {
    'id': 'C05',
    'title': 'Only RMN-blessed roots are reported when RMN is enabled',
    'coq_check': 'C05_check',
    'parts': [
        {'pkg': 'commit/merkleroot', 'pkgname': 'merkleroot', 'fakes': True, 'src': _MR, 'test': 'TestVerif_C05_obs',
         'sinks': {'C05_obs': 'obs_judge'}, 'n': {'quick': 900, 'thorough': 30000}},
        {'pkg': 'commit/merkleroot', 'pkgname': 'merkleroot', 'fakes': True, 'src': _MR, 'test': 'TestVerif_C05_build',
         'sinks': {'C05_build': 'build_judge'}, 'n': {'quick': 700, 'thorough': 30000}},
        {'pkg': 'commit', 'src': 'harness/commit/c05_test.go', 'test': 'TestVerif_C05_report', 'fakes': True,
         'sinks': {'C05_report': 'rep5_judge'}, 'n': {'quick': 400, 'thorough': 10000}},
        {'pkg': 'commit', 'src': 'harness/commit/c05_test.go', 'test': 'TestVerif_C05_gate', 'fakes': True,
         'sinks': {'C05_gate': 'gate5_judge'}, 'n': {'quick': 400, 'thorough': 10000}},
    ],
    'known': {},
}

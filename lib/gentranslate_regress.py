#!/usr/bin/env python3
"""Regression suite of the leaf-function translator (lib/gentranslate.py).

    python3 lib/gentranslate_regress.py [--repo /repo] [--benign-only | --seeded-only] [--json OUT]

In a scratch worktree of the repository's HEAD it applies, one at a time,
  * every behaviour-PRESERVING refactoring under benign/R-*/patch.diff   -> every property that has GenEquiv files must
    still be ok (no refusal of a needed function, no failed theorem): anything else is a false alarm;
  * the listed behaviour-CHANGING seeded patches (seeded/<id>/patch.diff) -> for the properties whose translated
    functions live in a file the patch touches, at least one obligation must break (a failed theorem or a refused
    function); a seeded patch that touches no translated function is reported as n/a.
Prints a table, exits 0 when every row is as expected.  The worktree is removed at the end.
"""
import argparse
import json
import os
import re
import subprocess
import sys
import tempfile

ROOT = os.path.dirname(os.path.dirname(os.path.abspath(__file__)))
sys.path.insert(0, os.path.join(ROOT, 'lib'))
import gentranslate  # noqa: E402

SEEDED = ['C02-1', 'C02-2', 'C02-7', 'C02-8', 'C03-2', 'C04-2', 'C04-7', 'C10-7', 'C14-1', 'C14-6',
          'C16-1', 'C16-7', 'C16-8', 'C18-1', 'C18-2', 'C18-3', 'C18-4', 'C18-5', 'C18-6', 'C18-7']

GT = 'pkg/types/ccipocr3/generic_types.go'
CALC = 'internal/libs/mathslib/calc.go'
THR = 'internal/plugincommon/consensus/threshold.go'
MT = 'commit/merkleroot/types.go'
EO = 'execute/exectypes/outcome.go'
RH = 'pkg/reader/rmn_home.go'
CF = 'commit/chainfee/types.go'
OBS = 'commit/merkleroot/observation.go'
VAL = 'commit/merkleroot/validate_observation.go'
PF = 'execute/plugin_functions.go'
TR = 'internal/plugincommon/transmitters.go'
BITS = 'internal/libs/slicelib/bits.go'
CONS = 'internal/plugincommon/consensus/consensus.go'
CCIP = 'pkg/reader/ccip.go'
# small behaviour-CHANGING edits (old text -> new text, first occurrence), each must break an obligation of the
# listed properties
EDITS = [
    ('Start returns s[1]', GT, 'func (s SeqNumRange) Start() SeqNum {\n\treturn s[0]', 'func (s SeqNumRange) Start() SeqNum {\n\treturn s[1]', ['C02']),
    ('Contains < for <=', GT, 'return s.Start() <= seq && seq <= s.End()', 'return s.Start() <= seq && seq < s.End()', ['C02', 'C13']),
    ('Limit newEnd = start+n', GT, 'newEnd := limitedRange.Start() + SeqNum(n) - 1', 'newEnd := limitedRange.Start() + SeqNum(n)', ['C02']),
    ('Limit drop overflow check', GT, '\t\tif newEnd > limitedRange.End() { // overflow - do nothing\n\t\t\treturn limitedRange\n\t\t}\n', '', ['C02']),
    ('Limit: loop added (outside subset)', GT, '\treturn limitedRange\n}\n\n// Overlaps', '\tfor i := 0; i < 1; i++ {\n\t\tfor j := 0; j < 1; j++ {\n\t\t}\n\t}\n\treturn limitedRange\n}\n\n// Overlaps', ['C02']),
    ('TwoFPlus1: 2*f', THR, 'return Threshold(2*f + 1)', 'return Threshold(2 * f)', ['C01', 'C14']),
    ('LtTwoFPlusOne: value < 2*f', THR, 'return value < 2*f+1 }', 'return value < 2*f }', ['C01']),
    ('FPlus1: f', THR, 'return Threshold(f + 1)', 'return Threshold(f)', ['C01', 'C07']),
    ('GteFPlusOne: > f+1', THR, 'return value >= f+1 }', 'return value > f+1 }', ['C06', 'C07', 'C01']),
    ('FPlus1 parameter becomes uint', THR, 'func FPlus1(f int) Threshold {', 'func FPlus1(f uint) Threshold {', ['C07']),
    ('NextState: two arms swapped', MT, '\tcase ReportIntervalsSelected:\n\t\treturn BuildingReport\n\tcase ReportGenerated:\n\t\treturn WaitingForReportTransmission\n', '\tcase ReportIntervalsSelected:\n\t\treturn WaitingForReportTransmission\n\tcase ReportGenerated:\n\t\treturn BuildingReport\n', ['C03']),
    ('OutcomeType block: constant inserted', MT, '\tReportGenerated\n\tReportEmpty\n', '\tReportGenerated\n\tReportSkipped\n\tReportEmpty\n', ['C03']),
    ('NextState: Empty -> Building', MT, '\tcase ReportEmpty:\n\t\treturn SelectingRangesForReport', '\tcase ReportEmpty:\n\t\treturn BuildingReport', ['C03']),
    ('Next: Initialized arm removed', EO, '\tcase Initialized:\n\t\tfallthrough\n', '', ['C13']),
    ('IsValid: Filter dropped', EO, 'case Unknown, Initialized, GetCommitReports, GetMessages, Filter:', 'case Unknown, Initialized, GetCommitReports, GetMessages:', ['C13']),
    ('IsNodeObserver: index > total', RH, 'nodeIndex < 0 || nodeIndex >= totalNodes', 'nodeIndex < 0 || nodeIndex > totalNodes', ['C18']),
    ('IsNodeObserver: bitmap bound check dropped', RH, '\tif sourceChain.ObserverNodesBitmap.Cmp(maxValidBitmap) > 0 {\n\t\treturn false, fmt.Errorf("invalid observer nodes bitmap")\n\t}\n', '', ['C18']),
    ('IsNodeObserver: nil guard added', RH, '\t// Validate the bitmap\n', '\tif sourceChain.ObserverNodesBitmap == nil {\n\t\treturn false, fmt.Errorf("nil")\n\t}\n\t// Validate the bitmap\n', ['C18']),
    ('IsNodeObserver: mask shifted by index+1', RH, 'mask := new(big.Int).Lsh(big.NewInt(1), uint(nodeIndex))', 'mask := new(big.Int).Lsh(big.NewInt(1), uint(nodeIndex+1))', ['C18']),
    ('UsdPerUnitGas: 1e17', CALC, 'big.NewInt(1e18)', 'big.NewInt(1e17)', ['C14']),
    ('Deviates: divide by x1', CALC, 'diff.Div(diff, x2)', 'diff.Div(diff, x1)', ['C14']),
    ('Deviates: >= ppb', CALC, 'return diff.Cmp(big.NewInt(ppb)) > 0', 'return diff.Cmp(big.NewInt(ppb)) >= 0', ['C14']),
    ('Deviates: swap dropped', CALC, '\tif x1.Cmp(x2) < 0 {\n\t\tx1, x2 = x2, x1\n\t}\n', '', ['C14']),
    ('ToPackedFee: shift 111', CF, 'Lsh(c.DataAvFeePriceUSD, 112)', 'Lsh(c.DataAvFeePriceUSD, 111)', ['C14']),
    ('cover: element check dropped', OBS, '\tfor _, msg := range msgs {\n\t\tif !rng.Contains(msg.Header.SequenceNumber) {\n\t\t\treturn fmt.Errorf("message with sequence number %d is outside of range %s", msg.Header.SequenceNumber, rng)\n\t\t}\n\t}\n\treturn nil', '\treturn nil', ['C02']),
    ('cover: len(msgs) for len(msgs)-1', OBS, 'uint64(len(msgs)-1) != uint64(rng.End()-rng.Start())', 'uint64(len(msgs)) != uint64(rng.End()-rng.Start())', ['C04']),
    ('cover: inverted-range guard dropped', OBS, '\tif rng.End() < rng.Start() {\n\t\treturn fmt.Errorf("invalid sequence number range %s", rng)\n\t}\n', '', ['C02']),
    ('root: sort removed', OBS, '\tsort.Slice(msgs, func(i, j int) bool { return msgs[i].Header.SequenceNumber < msgs[j].Header.SequenceNumber })\n', '', ['C02']),
    ('root: sort descending', OBS, 'return msgs[i].Header.SequenceNumber < msgs[j].Header.SequenceNumber })', 'return msgs[j].Header.SequenceNumber < msgs[i].Header.SequenceNumber })', ['C02']),
    ('root: gap check from the third message on', OBS, '\t\tif i > 0 {\n\t\t\tif msg.Header.SequenceNumber != msgs[i-1]', '\t\tif i > 1 {\n\t\t\tif msg.Header.SequenceNumber != msgs[i-1]', ['C02']),
    ('root: gap check against +2', OBS, 'msgs[i-1].Header.SequenceNumber+1 {', 'msgs[i-1].Header.SequenceNumber+2 {', ['C04']),
    ('root: hash error ignored (continue)', OBS, '\t\t\treturn cciptypes.Bytes32{}, fmt.Errorf("hash message with id %s: %w", msg.Header.MessageID, err)\n', '\t\t\tcontinue\n', ['C02']),
    ('root: a map loop added (outside subset)', OBS, '\tfor i, msg := range msgs {\n\t\t// Assert', '\tidx := map[int]cciptypes.Message{}\n\tfor i, msg := range msgs {\n\t\tidx[i] = msg\n\t\t// Assert', ['C02']),
    ('validate roots: duplicate check dropped', VAL, '\t\tif seenChains.Contains(root.ChainSel) {\n\t\t\treturn fmt.Errorf("duplicate merkle root for chain %d", root.ChainSel)\n\t\t}\n', '', ['C01']),
    ('validate onramp: Add dropped', VAL, '\t\tseenChains.Add(seqNumChain.ChainSel)\n\t}\n\n\treturn nil\n}\n\nfunc validateObservedOffRampMaxSeqNums', '\t}\n\n\treturn nil\n}\n\nfunc validateObservedOffRampMaxSeqNums', ['C01']),
    ('validate offramp: dest support not required', VAL, '\tif !supportsDestChain {\n\t\treturn fmt.Errorf("observer %d does not support dest chain, but has observed %d offRampMaxSeqNums",\n\t\t\tobserver, len(offRampMaxSeqNums))\n\t}\n', '', ['C01']),
    ('ranges: overlap test <=', PF, '} else if report.SequenceNumberRange.Start() < seqRange.End() {', '} else if report.SequenceNumberRange.Start() <= seqRange.End() {', ['C09']),
    ('ranges: adjacency without +1', PF, '} else if seqRange.End()+1 == report.SequenceNumberRange.Start() {', '} else if seqRange.End() == report.SequenceNumberRange.Start() {', ['C09']),
    ('ranges: final range not appended', PF, '\t// add final range\n\tranges = append(ranges, seqRange)\n', '', ['C09']),
    ('schedule: delays mult*i', TR, 'time.Duration(i+1)', 'time.Duration(i)', ['C16']),
    ('schedule: empty transmitter list accepted', TR, '\tif len(transmitters) == 0 {\n\t\treturn nil, fmt.Errorf("no transmitters")\n\t}\n', '', ['C16']),
    ('schedule: non-supporters appended too', TR, '\t\tif supportsDestChain {\n\t\t\ttransmitters = append(transmitters, oracleID)\n\t\t}', '\t\ttransmitters = append(transmitters, oracleID)\n\t\t_ = supportsDestChain', ['C16']),
    ('bits: SetBit at i+1', BITS, 'encodedFlags.SetBit(encodedFlags, i, 1)', 'encodedFlags.SetBit(encodedFlags, i+1, 1)', ['C08']),
    ('bits: Bit(i) == 0', BITS, 'encodedFlags.Bit(i) == 1', 'encodedFlags.Bit(i) == 0', ['C08']),
    ('unpack: 111 mask bits', CF, 'for i := 0; i < 112; i++ {', 'for i := 0; i < 111; i++ {', ['C14']),
    ('unpack: fields swapped', CF, '\t\tExecutionFeePriceUSD: execFee,\n\t\tDataAvFeePriceUSD:    daFee,', '\t\tExecutionFeePriceUSD: daFee,\n\t\tDataAvFeePriceUSD:    execFee,', ['C14']),
    ('median: (len-1)/2', CONS, 'return valsCopy[len(valsCopy)/2]', 'return valsCopy[(len(valsCopy)-1)/2]', ['C14']),
    ('median: unsorted', CONS, '\tsort.Slice(valsCopy, func(i, j int) bool {\n\t\treturn less(valsCopy[i], valsCopy[j])\n\t})\n', '', ['C14']),
    ('subject bytes at offset 0', CCIP, 'binary.BigEndian.PutUint64(result[8:], uint64(chainSel))', 'binary.BigEndian.PutUint64(result[:], uint64(chainSel))', ['C15']),
]

# behaviour-PRESERVING rewrites written with the translator (applied together); everything must still prove
PRESERVING = [
    (GT, 'limitedRange', 'lr', 0), (GT, 'newEnd', 'ne', 0),
    (GT, 'if uint64(s.End()-s.Start()) >= n {', 'if !(uint64(s.End()-s.Start()) < n) {', 1),
    (CALC, 'if x1.BitLen() == 0 || x2.BitLen() == 0 {', 'if x1.Sign() == 0 || x2.BitLen() == 0 {', 1),
    (CALC, '\tdiff.Mul(diff, big.NewInt(1e9))   // diff = diff * 1e9\n', '\tscale := big.NewInt(1e9)\n\tthreshold := big.NewInt(ppb)\n\tdiff.Mul(diff, scale)\n', 1),
    (CALC, 'return diff.Cmp(big.NewInt(ppb)) > 0 // diff > ppb', 'return threshold.Cmp(diff) < 0', 1),
    (MT, '\tcase ReportGenerated:\n\t\treturn WaitingForReportTransmission\n\tcase ReportEmpty:\n\t\treturn SelectingRangesForReport\n\tcase ReportInFlight:\n\t\treturn WaitingForReportTransmission\n',
     '\tcase ReportGenerated, ReportInFlight:\n\t\treturn WaitingForReportTransmission\n\tcase ReportEmpty:\n\t\treturn SelectingRangesForReport\n', 1),
    (EO, '\tcase Unknown:\n\t\tfallthrough\n\tcase Initialized:\n\t\tfallthrough\n\tcase Filter:\n\t\treturn GetCommitReports\n',
     '\tcase Unknown, Initialized, Filter:\n\t\tnext := GetCommitReports\n\t\treturn next\n', 1),
    (THR, 'return Threshold(2*f + 1)', 'return Threshold(1 + f*2)', 1),
    (THR, 'func LtFPlusOne(f, value int) bool { return value < f+1 }', 'func LtFPlusOne(f, value int) bool { return !(value >= 1+f) }', 1),
    (RH, '\tmask := new(big.Int).Lsh(big.NewInt(1), uint(nodeIndex))\n', '\tone := big.NewInt(1)\n\tshift := uint(nodeIndex)\n\tmask := new(big.Int).Lsh(one, shift)\n', 1),
    (OBS, '\tfor _, msg := range msgs {\n\t\tif !rng.Contains(msg.Header.SequenceNumber) {\n\t\t\treturn fmt.Errorf("message with sequence number %d is outside of range %s", msg.Header.SequenceNumber, rng)\n\t\t}\n\t}\n\treturn nil\n}',
     '\tfor k := 0; k < len(msgs); k++ {\n\t\tseqNum := msgs[k].Header.SequenceNumber\n\t\tif rng.Contains(seqNum) {\n\t\t\tcontinue\n\t\t}\n\t\treturn fmt.Errorf("message with sequence number %d is outside of range %s", seqNum, rng)\n\t}\n\treturn nil\n}', 1),
    (OBS, '\tfor i, msg := range msgs {\n\t\t// Assert there are no sequence number gaps in msgs\n\t\tif i > 0 {\n\t\t\tif msg.Header.SequenceNumber != msgs[i-1].Header.SequenceNumber+1 {',
     '\tfor i := 0; i < len(msgs); i++ {\n\t\tmsg := msgs[i]\n\t\t// Assert there are no sequence number gaps in msgs\n\t\tif i > 0 {\n\t\t\twant := msgs[i-1].Header.SequenceNumber + 1\n\t\t\tif !(msg.Header.SequenceNumber == want) {', 1),
    (OBS, '\t\tmsgHash, err := o.msgHasher.Hash(ctx, msg)\n\t\tif err != nil {', '\t\tleaf, err := o.msgHasher.Hash(ctx, msg)\n\t\tif err != nil {', 1),
    (OBS, '\t\thashes = append(hashes, msgHash)', '\t\thashes = append(hashes, leaf)', 1),
    (PF, '\tvar seqRange cciptypes.SeqNumRange\n\tfor i, report := range reports {\n\t\tif i == 0 {\n\t\t\t// initialize\n\t\t\tseqRange = cciptypes.NewSeqNumRange(report.SequenceNumberRange.Start(), report.SequenceNumberRange.End())\n\t\t} else if seqRange.End()+1 == report.SequenceNumberRange.Start() {\n\t\t\t// extend the contiguous range\n\t\t\tseqRange.SetEnd(report.SequenceNumberRange.End())\n\t\t} else if report.SequenceNumberRange.Start() < seqRange.End() {\n\t\t\treturn nil, errOverlappingRanges\n\t\t} else {\n\t\t\tranges = append(ranges, seqRange)\n\n\t\t\t// Reset the range.\n\t\t\tseqRange = cciptypes.NewSeqNumRange(report.SequenceNumberRange.Start(), report.SequenceNumberRange.End())\n\t\t}\n\t}\n\t// add final range\n\tranges = append(ranges, seqRange)\n',
     '\tvar cur cciptypes.SeqNumRange\n\tfor i, report := range reports {\n\t\trng := report.SequenceNumberRange\n\t\tif i == 0 {\n\t\t\tcur = cciptypes.NewSeqNumRange(rng.Start(), rng.End())\n\t\t\tcontinue\n\t\t}\n\t\tif cur.End()+1 == rng.Start() {\n\t\t\tcur.SetEnd(rng.End())\n\t\t\tcontinue\n\t\t}\n\t\tif rng.Start() < cur.End() {\n\t\t\treturn nil, errOverlappingRanges\n\t\t}\n\t\tranges = append(ranges, cur)\n\t\tcur = cciptypes.NewSeqNumRange(rng.Start(), rng.End())\n\t}\n\tranges = append(ranges, cur)\n', 1),
    (TR, '\tfor i := range transmissionDelays {\n\t\ttransmissionDelays[i] = (transmissionDelayMultiplier) * time.Duration(i+1)\n\t}',
     '\tfor i := 0; i < len(transmissionDelays); i++ {\n\t\tposition := time.Duration(i + 1)\n\t\ttransmissionDelays[i] = position * transmissionDelayMultiplier\n\t}', 1),
    (TR, '\t\tif supportsDestChain {\n\t\t\ttransmitters = append(transmitters, oracleID)\n\t\t}', '\t\tif !supportsDestChain {\n\t\t\tcontinue\n\t\t}\n\t\ttransmitters = append(transmitters, oracleID)', 1),
    (BITS, '\tfor i := 0; i < len(bools); i++ {\n\t\tif bools[i] {\n\t\t\tencodedFlags.SetBit(encodedFlags, i, 1)\n\t\t}\n\t}',
     '\tfor i, set := range bools {\n\t\tif !set {\n\t\t\tcontinue\n\t\t}\n\t\tencodedFlags.SetBit(encodedFlags, i, 1)\n\t}', 1),
    (CONS, '\tvalsCopy := make([]T, len(vals))\n\tcopy(valsCopy[:], vals[:])', '\tn := len(vals)\n\tvalsCopy := make([]T, len(vals))\n\tcopy(valsCopy, vals)\n\t_ = n', 1),
]

# one property per GenEquiv file (C09 brings C13_gen.v along)
ALL_PIDS = ['C01', 'C02', 'C03', 'C06', 'C07', 'C08', 'C09', 'C14', 'C15', 'C16', 'C18']


def sh(cmd, cwd=None):
    p = subprocess.run(cmd, cwd=cwd, stdout=subprocess.PIPE, stderr=subprocess.STDOUT, text=True)
    return p.returncode, p.stdout


def table_rows():
    binary, log = gentranslate.translator_binary()
    if binary is None:
        raise SystemExit(log)
    rc, out = sh([binary, '-list'])
    return json.loads(out)


def pids_for_files(files):
    """properties whose GenEquiv files mention a generated function that is translated from one of `files`
    (functions translated on demand live in the same files as the table's functions that call them)."""
    names = [r['name'] for r in table_rows() if r['file'] in files]
    pids = []
    for pid, fs in sorted(gentranslate.PID_FILES.items()):
        text = ''.join(open(os.path.join(gentranslate.GENEQUIV, f)).read() for f in fs)
        if any(re.search(r'\b%s\b' % re.escape(n), text) for n in names):
            pids.append(pid)
    return pids


def patch_files(patch):
    return sorted(set(re.findall(r'^\+\+\+ b/(\S+)', open(patch).read(), flags=re.M)))


def leaf_text(wt):
    """the generated definitions for the tree in wt (Leaf.v + refusals), without compiling anything"""
    binary, _ = gentranslate.translator_binary()
    d = tempfile.mkdtemp(prefix='genregress-leaf-')
    rc, out = sh([binary, '-repo', wt, '-out', d])
    txt = open(os.path.join(d, 'Leaf.v')).read() if os.path.exists(os.path.join(d, 'Leaf.v')) else ''
    txt = re.sub(r'\(\* \S+\.go:\d+[^\n]*\*\)\n', '', txt)   # source positions move with every edit above them
    man = open(os.path.join(d, 'manifest.json')).read() if os.path.exists(os.path.join(d, 'manifest.json')) else out
    subprocess.run(['rm', '-rf', d])
    return txt + re.sub(r'\.go:\d+', '.go', man)


def run_locks(wt):
    try:
        import genlocks
    except Exception:  # noqa: BLE001
        return {}
    out = {}
    for pid in sorted(genlocks.PID_FILES):
        r = genlocks.run(wt, pid)
        out[pid + '-locks'] = {'ok': r['ok'], 'closed': r.get('closed', 0), 'failed': r.get('failed_theorems', []),
                               'refused': [x['func'] for x in r.get('translator_failed', [])], 'wall_s': r.get('wall_s', 0)}
    return out


def run_pids(wt, pids):
    out = {}
    for pid in pids:
        r = gentranslate.run(wt, pid)
        bad = [x['func'] for x in r.get('translator_failed_relevant', [])]
        out[pid] = {'ok': r['ok'], 'closed': r.get('closed', 0), 'failed': r['failed_theorems'], 'refused': bad,
                    'wall_s': r['wall_s']}
    return out


def main():
    ap = argparse.ArgumentParser()
    ap.add_argument('--repo', default='/repo')
    ap.add_argument('--benign-only', action='store_true')
    ap.add_argument('--seeded-only', action='store_true')
    ap.add_argument('--edits', action='store_true', help='only the built-in list of small behaviour-changing edits')
    ap.add_argument('--locks', action='store_true', help='also run lib/genlocks.py (C18, C19) on HEAD and the benign patches')
    ap.add_argument('--json', default=None)
    a = ap.parse_args()

    wt = tempfile.mkdtemp(prefix='wt-genregress-')
    os.rmdir(wt)
    rc, out = sh(['git', '-C', a.repo, 'worktree', 'add', '--detach', wt, 'HEAD'])
    if rc != 0:
        raise SystemExit(out)
    rows, good = [], True
    try:
        def reset():
            sh(['git', 'checkout', '-q', '.'], cwd=wt)
            sh(['git', 'clean', '-fdq'], cwd=wt)

        def apply(patch):
            reset()
            rc, out = sh(['git', 'apply', patch], cwd=wt)
            return rc == 0, out

        head_leaf = leaf_text(wt)
        if a.edits:
            reset()
            applied = True
            for path, old, new, count in PRESERVING:
                f = os.path.join(wt, path)
                txt = open(f).read()
                if old not in txt:
                    applied = False
                    continue
                open(f, 'w').write(txt.replace(old, new) if count == 0 else txt.replace(old, new, count))
            res = run_pids(wt, ALL_PIDS)
            ok = all(v['ok'] for v in res.values())
            rows.append(('own preserving rewrites' + ('' if applied else ' (partly applied)'), 'rewrite', 'all ok',
                         'ok' if ok else 'FALSE ALARM', res))
            good &= ok
            for name, path, old, new, pids in EDITS:
                reset()
                f = os.path.join(wt, path)
                txt = open(f).read()
                if old not in txt:
                    rows.append((name[:40], 'edit', 'broken', 'EDIT DOES NOT APPLY (source moved on)', {}))
                    continue
                open(f, 'w').write(txt.replace(old, new, 1))
                res = run_pids(wt, pids)
                caught = all(not v['ok'] for v in res.values())
                rows.append((name[:40], 'edit', 'broken', 'caught' if caught else 'NOT CAUGHT', res))
                good &= caught
            reset()
        if not a.seeded_only and not a.edits:
            res = run_pids(wt, ALL_PIDS)
            if a.locks:
                res.update(run_locks(wt))
            ok = all(v['ok'] for v in res.values())
            rows.append(('HEAD', 'unchanged', 'all ok', 'ok' if ok else 'FAIL', res))
            good &= ok
            bdir = os.path.join(ROOT, 'benign')
            for name in sorted(os.listdir(bdir)):
                patch = os.path.join(bdir, name, 'patch.diff')
                if not os.path.exists(patch):
                    continue
                applied, out = apply(patch)
                if not applied:
                    rows.append((name, 'benign', 'all ok', 'PATCH DOES NOT APPLY', {}))
                    good = False
                    continue
                res = run_pids(wt, ALL_PIDS)
                if a.locks:
                    res.update(run_locks(wt))
                ok = all(v['ok'] for v in res.values())
                rows.append((name, 'benign', 'all ok', 'ok' if ok else 'FALSE ALARM', res))
                good &= ok
        if not a.benign_only and not a.edits:
            for sid in SEEDED:
                patch = os.path.join(ROOT, 'seeded', sid, 'patch.diff')
                if not os.path.exists(patch):
                    rows.append((sid, 'seeded', 'broken', 'no such patch', {}))
                    continue
                pids = pids_for_files(patch_files(patch))
                if not pids:
                    rows.append((sid, 'seeded', 'n/a', 'n/a (touches no translated function)', {}))
                    continue
                applied, out = apply(patch)
                if not applied:
                    rows.append((sid, 'seeded', 'broken', 'PATCH DOES NOT APPLY', {}))
                    good = False
                    continue
                if leaf_text(wt) == head_leaf:
                    # the patch edits a file of a translated function, but not the function (nor its callees)
                    rows.append((sid, 'seeded', 'n/a', 'n/a (generated definitions unchanged)', {}))
                    continue
                res = run_pids(wt, pids)
                caught = any(not v['ok'] for v in res.values())
                rows.append((sid, 'seeded', 'broken', 'caught' if caught else 'NOT CAUGHT', res))
                good &= caught
        reset()
    finally:
        sh(['git', '-C', a.repo, 'worktree', 'remove', '--force', wt])
        sh(['git', '-C', a.repo, 'worktree', 'prune'])

    w = max([8] + [len(r[0]) for r in rows])
    print('%-*s %-8s %-9s %-38s %s' % (w, 'patch', 'kind', 'expected', 'result', 'detail'))
    for name, kind, exp, result, res in rows:
        detail = []
        for pid, v in res.items():
            if v['ok']:
                continue
            what = v['refused'] and ('refused ' + ','.join(v['refused'])) or ('failed ' + ','.join(v['failed'][:2]))
            detail.append('%s: %s' % (pid, what))
        if not detail and res:
            detail = ['%d closed, %.0fs' % (sum(v['closed'] for v in res.values()), sum(v['wall_s'] for v in res.values()))]
        print('%-*s %-8s %-9s %-38s %s' % (w, name, kind, exp, result, '; '.join(detail)[:150]))
    if a.json:
        json.dump([{'patch': n, 'kind': k, 'expected': e, 'result': r, 'pids': d} for n, k, e, r, d in rows],
                  open(a.json, 'w'), indent=1)
    sys.exit(0 if good else 1)


if __name__ == '__main__':
    main()

#!/usr/bin/env python3
"""Runs the checks against every seeded change under /verif/seeded/<id>/ (patch.diff + meta.json).

  lib/run_seeded.py [--inplace] [ids...]

Default: each patch is applied in a scratch worktree of /repo (so that /repo stays untouched while other work uses
it) and the property's quick check is run with VERIF_REPO pointing there. --inplace applies the patch to /repo itself
(git -C /repo apply), runs the check and undoes it (git -C /repo checkout -- .), exactly as the checks are used.
Writes seeded/RESULTS.json and prints a table."""
import sys, os, json, subprocess, shutil, time
ROOT = os.path.dirname(os.path.dirname(os.path.abspath(__file__)))
SEEDED = os.path.join(ROOT, 'seeded')


def sh(cmd, **kw):
    return subprocess.run(cmd, stdout=subprocess.PIPE, stderr=subprocess.STDOUT, text=True, **kw)


def main():
    args = [a for a in sys.argv[1:] if not a.startswith('--')]
    inplace = '--inplace' in sys.argv
    ids = args or sorted(d for d in os.listdir(SEEDED) if os.path.isdir(os.path.join(SEEDED, d))
                         and not json.load(open(os.path.join(SEEDED, d, 'meta.json'))).get('obsolete'))
    results = {}
    rp = os.path.join(SEEDED, 'RESULTS.json')
    if os.path.exists(rp):
        results = json.load(open(rp))
    for sid in ids:
        d = os.path.join(SEEDED, sid)
        meta = json.load(open(os.path.join(d, 'meta.json')))
        patch = os.path.join(d, 'patch.diff')
        props = meta.get('check_properties') or [meta['property']]
        env = dict(os.environ)
        wt = None
        if inplace:
            r = sh(['git', '-C', '/repo', 'apply', patch])
            repo = '/repo'
        else:
            wt = '/tmp/seedrun-%s' % sid
            sh(['git', '-C', '/repo', 'worktree', 'remove', '--force', wt])
            shutil.rmtree(wt, ignore_errors=True)
            sh(['git', '-C', '/repo', 'worktree', 'add', '--detach', wt, 'HEAD'])
            r = sh(['git', '-C', wt, 'apply', patch])
            env['VERIF_REPO'] = wt
            repo = wt
        if r.returncode != 0:
            print('%s: patch does not apply: %s' % (sid, r.stdout[-300:]))
            results[sid] = {'applied': False}
        else:
            res = {'applied': True, 'checks': {}}
            for pid in props:
                t0 = time.time()
                if os.environ.get('VERIF_DEV'):
                    env['VERIF_DEV'] = '1'
                c = sh([os.path.join(ROOT, 'check'), pid, '--tier', 'quick'], cwd=ROOT, env=env)
                viol = [l for l in c.stdout.splitlines() if l.startswith('VIOLATION')]
                res['checks'][pid] = {'exit': c.returncode, 'violation_lines': viol, 'wall_s': round(time.time() - t0, 1),
                                      'concrete_input': bool(viol) and not viol[0].endswith('no-failing-input-found'),
                                      'summary': [l for l in c.stdout.splitlines() if 'tier=' in l][-1:] }
            res['detected'] = any(v['exit'] == 1 and v['violation_lines'] for v in res['checks'].values())
            results[sid] = res
            print('%-14s %-8s %s' % (sid, 'DETECTED' if res['detected'] else 'MISSED',
                                     '; '.join('%s: exit %d %s' % (p, v['exit'], 'concrete' if v['concrete_input'] else ('no-input' if v['violation_lines'] else ''))
                                               for p, v in res['checks'].items())))
        if inplace:
            sh(['git', '-C', '/repo', 'checkout', '--', '.'])
        elif wt:
            sh(['git', '-C', '/repo', 'worktree', 'remove', '--force', wt])
            shutil.rmtree(wt, ignore_errors=True)
            # the case files of a run that found something are kept by the driver for inspection; the replay file is what
            # matters here, so drop them (tens of GB over a whole seeded suite otherwise)
            import glob
            for d in glob.glob(os.path.join(ROOT, 'build', 'run', '*', '*seedrun-%s_*' % sid)):
                shutil.rmtree(d, ignore_errors=True)
    # several runs may go on at the same time (builders re-checking their own properties): merge under a lock
    import fcntl
    with open(rp + '.lock', 'w') as lk:
        fcntl.flock(lk, fcntl.LOCK_EX)
        cur = json.load(open(rp)) if os.path.exists(rp) else {}
        for sid in ids:
            if sid in results:
                cur[sid] = results[sid]
        tmp = rp + '.tmp%d' % os.getpid()
        json.dump(cur, open(tmp, 'w'), indent=1)
        os.replace(tmp, rp)


if __name__ == '__main__':
    main()

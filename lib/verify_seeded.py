#!/usr/bin/env python3
"""Independently confirms a seeded change: (a) repository builds and its whole test suite passes WITH the change,
(b) the demonstration test FAILS with the change and PASSES without it. Records the outcome in meta.json['verified']."""
import sys, os, json, subprocess, shutil, re
ROOT = os.path.dirname(os.path.dirname(os.path.abspath(__file__)))
SEEDED = os.path.join(ROOT, 'seeded')
ENV = dict(os.environ, GOFLAGS='-mod=mod', GOPROXY='off', GOSUMDB='off', GOTOOLCHAIN='local')
PKGDIR = {'execute': 'execute', 'commit': 'commit', 'merkleroot': 'commit/merkleroot', 'plugincommon': 'internal/plugincommon',
          'consensus': 'internal/plugincommon/consensus', 'report': 'execute/report', 'rmn': 'commit/merkleroot/rmn',
          'reader': None, 'tokendata': 'execute/tokendata', 'exectypes': 'execute/exectypes', 'ccipocr3': 'pkg/types/ccipocr3',
          'chainfee': 'commit/chainfee', 'tokenprice': 'commit/tokenprice', 'discovery': 'internal/plugincommon/discovery',
          'costlymessages': 'execute/costlymessages', 'mathslib': 'internal/libs/mathslib', 'slicelib': 'internal/libs/slicelib'}


def sh(cmd, **kw):
    return subprocess.run(cmd, stdout=subprocess.PIPE, stderr=subprocess.STDOUT, text=True, env=ENV, **kw)


def main():
    ids = sys.argv[1:] or sorted(d for d in os.listdir(SEEDED) if os.path.isdir(os.path.join(SEEDED, d)))
    for sid in ids:
        d = os.path.join(SEEDED, sid)
        meta = json.load(open(os.path.join(d, 'meta.json')))
        demo = open(os.path.join(d, 'demo_test.go')).read()
        pkg = re.search(r'^package\s+(\w+)', demo, flags=re.M).group(1)
        ext = pkg.endswith('_test')
        base = pkg[:-5] if ext else pkg
        pdir = meta.get('demo_dir') or PKGDIR.get(base)
        if pdir is None:
            # ambiguous package name (reader): pick the directory mentioned in the patch
            pdir = 'internal/reader' if 'internal/reader' in open(os.path.join(d, 'patch.diff')).read() else 'pkg/reader'
        wt = '/tmp/seedverify-%s' % sid
        sh(['git', '-C', '/repo', 'worktree', 'remove', '--force', wt]); shutil.rmtree(wt, ignore_errors=True)
        sh(['git', '-C', '/repo', 'worktree', 'add', '--detach', wt, 'HEAD'])
        v = {'repo_head': sh(['git', '-C', '/repo', 'rev-parse', '--short', 'HEAD']).stdout.strip(), 'demo_dir': pdir}
        shutil.copy(os.path.join(d, 'demo_test.go'), os.path.join(wt, pdir, 'zz_seed_demo_test.go'))
        run = ['go', 'test', '-vet=off', '-count=1', '-run', meta.get('demo_run', 'Test'), './' + pdir + '/']
        names = re.findall(r'^func (Test\w+)\(', demo, flags=re.M)
        run[5] = '^(' + '|'.join(names) + ')$'
        r0 = sh(run, cwd=wt)
        v['demo_without_change'] = 'pass' if r0.returncode == 0 else 'FAIL: ' + r0.stdout[-400:]
        a = sh(['git', '-C', wt, 'apply', os.path.join(d, 'patch.diff')])
        v['patch_applies'] = a.returncode == 0
        if a.returncode == 0:
            r1 = sh(run, cwd=wt)
            v['demo_with_change'] = 'fail' if r1.returncode != 0 else 'PASSES (not a demonstration)'
            os.remove(os.path.join(wt, pdir, 'zz_seed_demo_test.go'))
            b = sh(['go', 'build', './...'], cwd=wt)
            t = sh(['go', 'test', '-vet=off', '-count=1', './...'], cwd=wt)
            fails = [l for l in t.stdout.splitlines() if l.startswith('FAIL') or l.startswith('--- FAIL')]
            # the repository has a few wall-clock sensitive tests that fail on a loaded machine with or without any change
            # (poll counts within 50 ms, rate limiting tolerances): re-run only the failing packages, up to three times
            for _attempt in range(3):
                if t.returncode == 0:
                    break
                pkgs = sorted(set(l.split()[1] for l in t.stdout.splitlines() if l.startswith('FAIL\t') or (l.startswith('FAIL') and len(l.split()) > 1 and '/' in l.split()[1])))
                if not pkgs:
                    break
                t = sh(['go', 'test', '-vet=off', '-count=1'] + pkgs, cwd=wt)
                fails = [l for l in t.stdout.splitlines() if l.startswith('FAIL') or l.startswith('--- FAIL')]
            v['suite_with_change'] = 'pass' if (b.returncode == 0 and t.returncode == 0) else 'FAIL: ' + ' | '.join(fails[:5])
        v['confirmed'] = (v.get('demo_without_change') == 'pass' and v.get('demo_with_change') == 'fail' and v.get('suite_with_change') == 'pass')
        meta['verified'] = v
        json.dump(meta, open(os.path.join(d, 'meta.json'), 'w'), indent=1)
        print('%-10s %s' % (sid, 'CONFIRMED' if v['confirmed'] else 'NOT CONFIRMED ' + json.dumps(v)[:500]))
        sh(['git', '-C', '/repo', 'worktree', 'remove', '--force', wt]); shutil.rmtree(wt, ignore_errors=True)


if __name__ == '__main__':
    main()

#!/usr/bin/env python3
"""Regenerates /verif/MANIFEST.json from lib/specs.py and properties.jsonl."""
import json, os, sys
ROOT = os.path.dirname(os.path.dirname(os.path.abspath(__file__)))
sys.path.insert(0, os.path.join(ROOT, 'lib'))
from specs import SPECS, NOT_APPLICABLE

READY = set(open(os.path.join(ROOT, 'lib', 'ready.txt')).read().split())
props = [json.loads(l) for l in open(os.path.join(ROOT, 'properties.jsonl')) if l.strip()]
checks, na = [], []
for p in props:
    pid = p['id']
    if pid in SPECS and pid in READY:
        s = SPECS[pid]
        checks.append({
            'property_id': pid,
            'quick_cmd': './check %s --tier quick' % pid,
            'thorough_cmd': './check %s --tier thorough' % pid,
            'evidence_file': 'evidence/%s.json' % pid,
            'replay_cmd_template': './check %s --replay {path}' % pid,
            'engine': 'coq-proof+correspondence',
            'level_claimed': {'category': 'proof', 'text': s['level_text'], 'design_ref': s.get('design_ref', 'DESIGN.md §3 ' + pid)},
            'level_note': s['level_note'],
            'technique': s.get('technique', 'Coq theorems over executable Gallina model + differential correspondence (go test -overlay, vm_compute judge)'),
        })
    else:
        na.append({'property_id': pid, 'reason': NOT_APPLICABLE.get(pid, 'not claimed yet: model and harness for this property are still being built (see DESIGN.md §7 build order)')})
m = {
    'version': 1,
    'setup_cmd': './check --setup',
    'hooks': {
        'guard': 'verif',
        'enable': 'go test -overlay <generated overlay.json> -tags verif ./<pkg>/ — harness sources live in /verif/harness and are injected as in-package _test.go files; nothing is written under /repo',
        'baseline_off_cmd': 'cd /repo && GOFLAGS=-mod=mod GOPROXY=off GOSUMDB=off GOTOOLCHAIN=local go test -json -vet=off -count=1 -timeout 25m ./...',
        'source_commits': [],
        'add_only': True,
    },
    'engines': [{
        'name': 'coq-proof+correspondence', 'path': 'check', 'serves_properties': sorted(SPECS.keys()),
        'kind_free_text': 'Coq 8.16.1 theorems over a hand-written executable Gallina model (coq/Model, coq/Proofs, coq/Props); '
                          'the model is tied to /repo on every run by a differential Go harness (go test -overlay, harness/) whose '
                          '(input, implementation output) cases are judged inside Coq with vm_compute (coq/Check)'}],
    'checks': checks,
    'notes': 'Fix commits in /repo and recorded findings: known_findings.json. Design, trusted base, seeded-change results: DESIGN.md.',
    'not_applicable': na,
}
json.dump(m, open(os.path.join(ROOT, 'MANIFEST.json'), 'w'), indent=1)
print('MANIFEST: %d checks, %d not_applicable' % (len(checks), len(na)))

#!/usr/bin/env python3
"""Regenerates harness/execute/exectypes/c20_test.go from the generic block of harness/commit/c20_test.go
(the two packages cannot share test helpers) — run after editing the generic part of the commit harness."""
import re, sys, os
root = os.path.dirname(os.path.dirname(os.path.abspath(__file__)))
src = open(os.path.join(root, 'harness/commit/c20_test.go')).read()
marker = '// ===================================================================================================\n// Package-specific part'
generic = src[:src.index(marker)]
dst_path = os.path.join(root, 'harness/execute/exectypes/c20_test.go')
dst = open(dst_path).read()
specific = dst[dst.index(marker):]
g = generic.replace('package commit', 'package exectypes', 1)
g = g.replace('\t"github.com/smartcontractkit/chainlink-ccip/chainconfig"\n', '')
g = g.replace('\t"github.com/smartcontractkit/chainlink-ccip/internal/plugintypes"\n', '')
g = g.replace('\t"github.com/smartcontractkit/chainlink-ccip/pluginconfig"\n', '')
g = g.replace('(identical copy in harness/execute/exectypes/c20_test.go)', '(generated copy of the generic block of harness/commit/c20_test.go; edit there, then run lib/c20_sync.py)')
open(dst_path, 'w').write(g + specific)

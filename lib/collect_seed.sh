#!/bin/bash
# lib/collect_seed.sh <worktree> <id>   — copy <worktree>/.seed into seeded/<id>, remove the worktree, verify, run the checks
set -e
wt=$1; id=$2
cd "$(dirname "$0")/.."
mkdir -p seeded/$id
cp $wt/.seed/patch.diff $wt/.seed/demo_test.go $wt/.seed/meta.json seeded/$id/
[ -f $wt/.seed/README.md ] && cp $wt/.seed/README.md seeded/$id/
git -C /repo worktree remove --force $wt || rm -rf $wt
python3 lib/verify_seeded.py $id
VERIF_DEV=1 python3 lib/run_seeded.py $id | tail -3

#!/usr/bin/env python3
"""Runs the quick checks against behaviour-preserving refactorings under /verif/benign/<id>/ (patch.diff + meta.json).

  lib/run_benign.py [ids...] [--props=C01,C02]          BENIGN_JOBS=<n> patches in parallel (default 3)

Each patch is applied in a scratch worktree of /repo; the quick check of every claimed property whose harness packages
depend on a changed file (lib/srcdigest.py; the others would run the very same binaries) runs with VERIF_REPO pointing
there. A VIOLATION on such a tree is a false alarm of the machinery (or the refactoring is not behaviour preserving
after all — the replay decides). Writes benign/RESULTS.json and prints a table."""
import sys, os, json, subprocess, shutil, time, threading
import concurrent.futures as cf
ROOT = os.path.dirname(os.path.dirname(os.path.abspath(__file__)))
BEN = os.path.join(ROOT, 'benign')
sys.path.insert(0, os.path.join(ROOT, 'lib'))


def sh(cmd, **kw):
    return subprocess.run(cmd, stdout=subprocess.PIPE, stderr=subprocess.STDOUT, text=True, **kw)


def main():
    args = [a for a in sys.argv[1:] if not a.startswith('--')]
    props = None
    for a in sys.argv[1:]:
        if a.startswith('--props='):
            props = a.split('=', 1)[1].split(',')
    from specs import SPECS
    import srcdigest
    ids = args or sorted(d for d in os.listdir(BEN) if os.path.isdir(os.path.join(BEN, d)))
    rp = os.path.join(BEN, 'RESULTS.json')
    results = json.load(open(rp)) if os.path.exists(rp) else {}
    lock = threading.Lock()

    def one(bid):
        d = os.path.join(BEN, bid)
        wt = '/tmp/benignrun-%s' % bid
        sh(['git', '-C', '/repo', 'worktree', 'remove', '--force', wt])
        shutil.rmtree(wt, ignore_errors=True)
        sh(['git', '-C', '/repo', 'worktree', 'add', '--detach', wt, 'HEAD'])
        r = sh(['git', '-C', wt, 'apply', os.path.join(d, 'patch.diff')])
        if r.returncode != 0:
            print('%s: patch does not apply: %s' % (bid, r.stdout[-300:]))
            res = {'applied': False}
        else:
            env = dict(os.environ, VERIF_REPO=wt)
            res = {'applied': True, 'checks': {}}
            for pid in (props or sorted(SPECS)):
                try:
                    ch, _ = srcdigest.changed_for(wt, pid)
                except Exception:  # noqa: BLE001
                    ch = ['?']
                if not ch:
                    res['checks'][pid] = {'exit': 0, 'violation_lines': [], 'skipped': 'no dependency changed'}
                    continue
                t0 = time.time()
                c = sh([os.path.join(ROOT, 'check'), pid, '--tier', 'quick'], cwd=ROOT, env=env)
                viol = [l for l in c.stdout.splitlines() if l.startswith('VIOLATION')]
                notes = [l for l in c.stdout.splitlines() if l.startswith('NOTE:')]
                summ = [l for l in c.stdout.splitlines() if 'tier=' in l][-1:]
                res['checks'][pid] = {'exit': c.returncode, 'violation_lines': viol, 'notes': [n[:200] for n in notes],
                                      'wall_s': round(time.time() - t0, 1), 'summary': summ}
                if c.returncode != 0:
                    print('  %s %s: exit %d %s' % (bid, pid, c.returncode, viol[:1] or summ), flush=True)
            res['alarms'] = sorted(p for p, v in res['checks'].items() if v['exit'] != 0)
            ran = sum(1 for v in res['checks'].values() if not v.get('skipped'))
            print('%-10s %s' % (bid, ('NO ALARM (%d checks run, %d unaffected)' % (ran, len(res['checks']) - ran))
                                if not res['alarms'] else 'ALARM in ' + ', '.join(res['alarms'])), flush=True)
        sh(['git', '-C', '/repo', 'worktree', 'remove', '--force', wt])
        shutil.rmtree(wt, ignore_errors=True)
        with lock:
            results[bid] = res
            json.dump(results, open(rp, 'w'), indent=1, sort_keys=True)

    with cf.ThreadPoolExecutor(max_workers=int(os.environ.get('BENIGN_JOBS', '3'))) as ex:
        list(ex.map(one, ids))


if __name__ == '__main__':
    main()

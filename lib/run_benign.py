#!/usr/bin/env python3
"""Runs the quick checks against behaviour-preserving refactorings under /verif/benign/<id>/ (patch.diff + meta.json).

  lib/run_benign.py [ids...] [--props C01,C02]

Each patch is applied in a scratch worktree of /repo; every claimed property's quick check (or the listed ones) runs with
VERIF_REPO pointing there. A VIOLATION on such a tree is a false alarm of the machinery (or the refactoring is not
behaviour preserving after all — the replay decides). Writes benign/RESULTS.json and prints a table."""
import sys, os, json, subprocess, shutil, time
ROOT = os.path.dirname(os.path.dirname(os.path.abspath(__file__)))
BEN = os.path.join(ROOT, 'benign')
sys.path.insert(0, os.path.join(ROOT, 'lib'))


def sh(cmd, **kw):
    return subprocess.run(cmd, stdout=subprocess.PIPE, stderr=subprocess.STDOUT, text=True, **kw)


def main():
    args = [a for a in sys.argv[1:] if not a.startswith('--')]
    props = None
    for a in sys.argv[1:]:
        if a.startswith('--props='):
            props = a.split('=', 1)[1].split(',')
    from specs import SPECS
    ids = args or sorted(d for d in os.listdir(BEN) if os.path.isdir(os.path.join(BEN, d)))
    rp = os.path.join(BEN, 'RESULTS.json')
    results = json.load(open(rp)) if os.path.exists(rp) else {}
    for bid in ids:
        d = os.path.join(BEN, bid)
        wt = '/tmp/benignrun-%s' % bid
        sh(['git', '-C', '/repo', 'worktree', 'remove', '--force', wt])
        shutil.rmtree(wt, ignore_errors=True)
        sh(['git', '-C', '/repo', 'worktree', 'add', '--detach', wt, 'HEAD'])
        r = sh(['git', '-C', wt, 'apply', os.path.join(d, 'patch.diff')])
        if r.returncode != 0:
            print('%s: patch does not apply: %s' % (bid, r.stdout[-300:]))
            results[bid] = {'applied': False}
        else:
            env = dict(os.environ, VERIF_REPO=wt)
            res = {'applied': True, 'checks': {}}
            for pid in (props or sorted(SPECS)):
                t0 = time.time()
                c = sh([os.path.join(ROOT, 'check'), pid, '--tier', 'quick'], cwd=ROOT, env=env)
                viol = [l for l in c.stdout.splitlines() if l.startswith('VIOLATION')]
                summ = [l for l in c.stdout.splitlines() if 'tier=' in l][-1:]
                res['checks'][pid] = {'exit': c.returncode, 'violation_lines': viol, 'wall_s': round(time.time() - t0, 1), 'summary': summ}
                if c.returncode != 0:
                    print('  %s %s: exit %d %s' % (bid, pid, c.returncode, viol[:1] or summ))
            res['alarms'] = sorted(p for p, v in res['checks'].items() if v['exit'] != 0)
            results[bid] = res
            print('%-10s %s' % (bid, 'NO ALARM (%d checks)' % len(res['checks']) if not res['alarms'] else 'ALARM in ' + ', '.join(res['alarms'])))
        sh(['git', '-C', '/repo', 'worktree', 'remove', '--force', wt])
        shutil.rmtree(wt, ignore_errors=True)
        json.dump(results, open(rp, 'w'), indent=1, sort_keys=True)


if __name__ == '__main__':
    main()

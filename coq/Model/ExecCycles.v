(* ExecCycles.v — history-level model for C09: the destination as the execute plugin reads it, evolving between
   execute cycles, and what ONE cycle (GetCommitReports -> GetMessages -> Filter) computes from the destination's
   CURRENT content.  The plugin keeps no memory between cycles (execute/plugin.go: the only field written after
   construction is contractsInitialized; execute/observation.go:getCommitReportsObservation computes fetchFrom from
   time.Now() and offchainCfg.MessageVisibilityInterval on every call), so a cycle is a function of the state.

   state  = destination content: clock, committed reports (with their commit time), executed messages visible to the
            reader, messages that are not ready (sequenced messages whose nonce is not the next one), curse state, the
            source chains configured on the home chain
   events = time advance | a commit report lands | executions become visible (late landing, finality lag, manual
            execution) | readiness changes | curses come and go | role map changes | a cycle, with the part of its
            execution report that lands at once
   No proofs here. *)
Require Import Verif.Model.Base Verif.Model.ExecPending.
Local Open Scope N_scope.

Record creport := mkCR { cr_chain : N; cr_id : N; cr_lo : N; cr_hi : N; cr_ts : N }.
Definition msgid := (N * N)%type.                     (* (source chain, sequence number) *)

Record dest := mkDest {
  d_now : N;                    (* the clock, in the unit of MessageVisibilityInterval *)
  d_reports : list creport;     (* commit reports on the destination, in commit order *)
  d_exec : list msgid;          (* executed messages as ExecutedMessageRanges shows them *)
  d_blocked : list msgid;       (* messages that are not ready *)
  d_global : bool;              (* CurseInfo.GlobalCurse *)
  d_destcursed : bool;          (* CurseInfo.CursedDestination *)
  d_cursed : list N;            (* CurseInfo.CursedSourceChains *)
  d_known : list N              (* chainSupport.KnownSourceChainsSlice(), ascending *)
}.

Inductive event :=
| ETick (d : N)
| ECommit (c id lo hi : N)
| EExec (ms : list msgid)
| EBlocked (ms : list msgid)
| ECurse (g dc : bool) (srcs : list N)
| ESources (cs : list N)
| ECycle (nobs : N) (land : list msgid).

Definition msg_eqb (a b : msgid) : bool := N.eqb (fst a) (fst b) && N.eqb (snd a) (snd b).
Definition mem_msg (m : msgid) (l : list msgid) : bool := existsb (msg_eqb m) l.

(* ---------- one cycle on the current state ---------- *)
Definition commit_limit : N := 1000.                  (* the limit argument of CommitReportsGTETimestamp *)
(* fetchFrom = time.Now() - MessageVisibilityInterval *)
Definition fetch_from (V : N) (st : dest) : N := d_now st - V.
Definition in_window (V : N) (st : dest) (r : creport) : bool := N.leb (fetch_from V st) (cr_ts r).
Definition read_reports (V : N) (st : dest) : list creport := filter (in_window V st) (d_reports st).
Definition to_rep (r : creport) : rep := mkRep (cr_id r) (cr_lo r) (cr_hi r) [].
Definition chain_reps (V : N) (st : dest) (c : N) : list rep :=
  map to_rep (filter (fun r => N.eqb (cr_chain r) c) (read_reports V st)).
(* a canonical legal reader answer for the executed set of one source chain: one range per message, ascending *)
Definition exec_seqs (st : dest) (c : N) : list N := sortN (map snd (filter (fun m => N.eqb (fst m) c) (d_exec st))).
Definition exec_ranges (st : dest) (c : N) : list range := map (fun s => (s, s)) (exec_seqs st c).

Definition cycle_open (st : dest) : bool := negb (d_global st) && negb (d_destcursed st).
Definition live_chains (st : dest) : list N := filter (fun c => negb (memN c (d_cursed st))) (d_known st).
Definition chain_pending (V : N) (st : dest) (c : N) : list (N * rep) :=
  match filter_executed (chain_reps V st c) (exec_ranges st c) with
  | Ok l => map (pair c) l
  | _ => []
  end.
(* PendingCommitReports of the GetCommitReports outcome *)
Definition cycle_pending (V : N) (st : dest) : list (N * rep) :=
  if cycle_open st then flat_map (chain_pending V st) (live_chains st) else [].

Fixpoint cy_seq (a : N) (n : nat) : list N :=
  match n with O => [] | S n' => a :: cy_seq (a + 1) n' end.
Definition cy_in_runs (runs : list range) (s : N) : bool :=
  existsb (fun r => N.leb (fst r) s && N.leb s (snd r)) runs.
Definition cy_unexec (r : rep) : list N :=
  filter (fun s => negb (cy_in_runs (p_exec r) s)) (cy_seq (p_lo r) (N.to_nat (p_hi r - p_lo r + 1))).
Definition ready (st : dest) (c s : N) : bool := negb (mem_msg (c, s) (d_blocked st)).

(* the candidate set = the messages of the cycle's execution report when every ready message fits the limits *)
Definition offered (V : N) (st : dest) : list msgid :=
  flat_map (fun cr => map (pair (fst cr)) (filter (ready st (fst cr)) (cy_unexec (snd cr)))) (cycle_pending V st).

(* PendingCommitReports of the Filter outcome: the reports with a message that is neither executed nor selected,
   recording the executed and the selected messages *)
Definition after_filter (st : dest) (cr : N * rep) : list (N * rep) :=
  let c := fst cr in let r := snd cr in
  let rest := filter (fun s => negb (ready st c s)) (cy_unexec r) in
  match rest with
  | [] => []
  | _ => [(c, mkRep (p_id r) (p_lo r) (p_hi r)
                (map (fun s => (s, s))
                     (filter (fun s => negb (memN s rest)) (cy_seq (p_lo r) (N.to_nat (p_hi r - p_lo r + 1))))))]
  end.
Definition pending_after (V : N) (st : dest) : list (N * rep) := flat_map (after_filter st) (cycle_pending V st).

(* the reader calls of the cycle: one CommitReportsGTETimestamp(fetchFrom, limit) per observing oracle *)
Definition cycle_reads (V : N) (st : dest) (nobs : N) : list (N * N) :=
  if cycle_open st then repeat (fetch_from V st, commit_limit) (N.to_nat nobs) else [].

Definition cyc_obs := (list (N * N) * list (N * rep) * list msgid * list (N * rep))%type.
Definition cycle_obs (V : N) (st : dest) (nobs : N) : cyc_obs :=
  (cycle_reads V st nobs, cycle_pending V st, offered V st, pending_after V st).

(* ---------- the destination moves ---------- *)
Definition committed (st : dest) (m : msgid) : bool :=
  existsb (fun r => N.eqb (cr_chain r) (fst m) && N.leb (cr_lo r) (snd m) && N.leb (snd m) (cr_hi r)) (d_reports st).
(* the off-ramp accepts a root only for a non-empty interval above everything committed for that source chain *)
Definition commit_ok (st : dest) (c lo hi : N) : bool :=
  N.leb lo hi && N.ltb hi max64 &&
  forallb (fun r => negb (N.eqb (cr_chain r) c) || N.ltb (cr_hi r) lo) (d_reports st).

Definition set_now (st : dest) (t : N) : dest :=
  mkDest t (d_reports st) (d_exec st) (d_blocked st) (d_global st) (d_destcursed st) (d_cursed st) (d_known st).
Definition set_reports (st : dest) (l : list creport) : dest :=
  mkDest (d_now st) l (d_exec st) (d_blocked st) (d_global st) (d_destcursed st) (d_cursed st) (d_known st).
Definition add_exec (st : dest) (ms : list msgid) : dest :=
  mkDest (d_now st) (d_reports st) (d_exec st ++ ms) (d_blocked st) (d_global st) (d_destcursed st) (d_cursed st)
         (d_known st).
Definition set_blocked (st : dest) (ms : list msgid) : dest :=
  mkDest (d_now st) (d_reports st) (d_exec st) ms (d_global st) (d_destcursed st) (d_cursed st) (d_known st).
Definition set_curse (st : dest) (g dc : bool) (srcs : list N) : dest :=
  mkDest (d_now st) (d_reports st) (d_exec st) (d_blocked st) g dc srcs (d_known st).
Definition set_known (st : dest) (cs : list N) : dest :=
  mkDest (d_now st) (d_reports st) (d_exec st) (d_blocked st) (d_global st) (d_destcursed st) (d_cursed st) cs.

(* [off]: the messages of the execution report of the cycle, when the event is a cycle; only those can land with it *)
Definition step_off (off : list msgid) (st : dest) (e : event) : dest :=
  match e with
  | ETick d => set_now st (d_now st + d)
  | ECommit c id lo hi =>
      if commit_ok st c lo hi then set_reports st (d_reports st ++ [mkCR c id lo hi (d_now st)]) else st
  | EExec ms => add_exec st (filter (committed st) ms)
  | EBlocked ms => set_blocked st ms
  | ECurse g dc srcs => set_curse st g dc srcs
  | ESources cs => set_known st cs
  | ECycle _ land => add_exec st (filter (fun m => mem_msg m off) land)
  end.
Definition step (V : N) (st : dest) (e : event) : dest := step_off (offered V st) st e.

Definition init (t0 : N) : dest := mkDest t0 [] [] [] false false [] [].
Definition state_after (V : N) (st : dest) (evs : list event) : dest := fold_left (step V) evs st.

(* the observations of the cycles of a history, in order *)
Fixpoint run_from (V : N) (st : dest) (evs : list event) : list cyc_obs :=
  match evs with
  | [] => []
  | e :: evs' =>
      match e with
      | ECycle nobs _ => [cycle_obs V st nobs]
      | _ => []
      end ++ run_from V (step V st e) evs'
  end.

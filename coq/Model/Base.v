(* Base.v — conventions shared by every model file. No proofs of properties here; only
   executable definitions (and the one-line reflection lemmas they need live in Proofs/BaseP.v). *)
From Coq Require Export List Bool Arith NArith ZArith Lia Permutation.
Export ListNotations.

(* ---------- uint64 arithmetic, wrap-around written explicitly ---------- *)
Definition two64 : N := 18446744073709551616%N.
Definition max64 : N := 18446744073709551615%N.
Definition add64 (a b : N) : N := ((a + b) mod two64)%N.
Definition sub64 (a b : N) : N := ((a + two64 - (b mod two64)) mod two64)%N.
Definition succ64 (a : N) : N := add64 a 1.
Definition mul64 (a b : N) : N := ((a * b) mod two64)%N.

(* ---------- result monad for "error, not crash" properties ---------- *)
Inductive res (A : Type) : Type :=
| Ok (a : A)
| Err
| Panic
| Spin.
Arguments Ok {A} a.
Arguments Err {A}.
Arguments Panic {A}.
Arguments Spin {A}.

Definition rbind {A B} (r : res A) (f : A -> res B) : res B :=
  match r with Ok a => f a | Err => Err | Panic => Panic | Spin => Spin end.
Definition is_ok {A} (r : res A) : bool := match r with Ok _ => true | _ => false end.
Definition res_code {A} (r : res A) : N :=
  match r with Ok _ => 0 | Err => 1 | Panic => 2 | Spin => 3 end%N.

(* ---------- boolean equality on the containers used by case files ---------- *)
Fixpoint list_eqb {A} (e : A -> A -> bool) (l1 l2 : list A) : bool :=
  match l1, l2 with
  | [], [] => true
  | x :: l1', y :: l2' => e x y && list_eqb e l1' l2'
  | _, _ => false
  end.
Definition option_eqb {A} (e : A -> A -> bool) (o1 o2 : option A) : bool :=
  match o1, o2 with
  | None, None => true
  | Some x, Some y => e x y
  | _, _ => false
  end.
Definition pair_eqb {A B} (ea : A -> A -> bool) (eb : B -> B -> bool) (p q : A * B) : bool :=
  ea (fst p) (fst q) && eb (snd p) (snd q).
Definition res_eqb {A} (e : A -> A -> bool) (r1 r2 : res A) : bool :=
  match r1, r2 with
  | Ok a, Ok b => e a b
  | Err, Err | Panic, Panic | Spin, Spin => true
  | _, _ => false
  end.

Definition memN (x : N) (l : list N) : bool := existsb (N.eqb x) l.
Definition memZ (x : Z) (l : list Z) : bool := existsb (Z.eqb x) l.

Fixpoint nodupb {A} (e : A -> A -> bool) (l : list A) : bool :=
  match l with
  | [] => true
  | x :: l' => negb (existsb (e x) l') && nodupb e l'
  end.

(* association lists standing for Go maps; iteration order = list order *)
Fixpoint alookup {V} (k : N) (m : list (N * V)) : option V :=
  match m with
  | [] => None
  | (k', v) :: m' => if N.eqb k k' then Some v else alookup k m'
  end.

(* insertion sort on a key (stable); used as the model of sort.Slice on unique keys *)
Fixpoint insert_by {A} (le : A -> A -> bool) (x : A) (l : list A) : list A :=
  match l with
  | [] => [x]
  | y :: l' => if le x y then x :: l else y :: insert_by le x l'
  end.
Fixpoint sort_by {A} (le : A -> A -> bool) (l : list A) : list A :=
  match l with
  | [] => []
  | x :: l' => insert_by le x (sort_by le l')
  end.
Definition sortN (l : list N) : list N := sort_by N.leb l.

(* ---------- the judge: run on (input, implementation output) pairs produced by the Go harness.
   Codes: 1 = model/implementation mismatch; 2 = executable property violated by the implementation's
   output; 100+k = violation inside recorded known-finding class k. ---------- *)
Section Judge.
  Context {I O : Type}.
  Variable model : I -> O.
  Variable oeqb : O -> O -> bool.
  Variable ok : I -> O -> bool.
  Variable known : I -> N.   (* 0 = not in any recorded class *)

  Fixpoint judge_from (i : N) (cs : list (I * O)) : list (N * N) :=
    match cs with
    | [] => []
    | (x, o) :: cs' =>
        let m := if oeqb (model x) o then [] else [(i, 1%N)] in
        let b := if ok x o then []
                 else [(i, if N.eqb (known x) 0 then 2%N else (100 + known x)%N)] in
        m ++ b ++ judge_from (N.succ i) cs'
    end.
  Definition judge := judge_from 0%N.
End Judge.

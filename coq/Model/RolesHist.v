(* RolesHist.v — C11 / C12 over histories: long-lived commit / execute plugins read their role map through ONE long-lived
   home-chain poller (internal/reader/home_chain.go, model: Pollers.v) whose configuration changes between rounds.
   This file ties the two models together:
     * [cfg_of_home]     the Roles configuration that corresponds to one fetched home-chain configuration;
     * [hist_cfg]        the Roles configuration a plugin holds after a sequence of poll results (through the poller's
                         state machine), [spec_cfg] the one of the most recent successful poll (read off the history);
     * [api_model]       the answers of the poller getters and of plugincommon.ChainSupport after a history,
       [api_spec]        the same answers computed with the Roles accessors from the latest configuration only;
     * [hrun]            a history of poller events interleaved with plugin rounds (Observation / ValidateObservation of
                         either plugin): every round is served from the poller state of that moment.
   Executable definitions only; the theorems are in Proofs/RolesHistP.v.
   Peer ids are identified with oracle ids (the harness uses one peer id per oracle id). *)
Require Import Verif.Model.Base Verif.Model.Roles Verif.Model.Pollers.

(* ---------- one home-chain configuration as a Roles role map ---------- *)
Definition chains_of_home (c : hcfgs) : list (N * (Z * list N)) :=
  map (fun kv => (fst kv, (Z.of_N (cc_f (snd kv)), cc_nodes (snd kv)))) c.
Definition cfg_of_home (O : list N) (d f : N) (c : hcfgs) : cfg := mkCfg O (chains_of_home c) d f.
(* the role map of a plugin instance (oracle ids O, destination d, feed chain f) that sits on a poller with views v *)
Definition cfg_of_views (O : list N) (d f : N) (v : hviews) : cfg := cfg_of_home O d f (hv_cc v).

(* ---------- poll results as the harness scripts them ---------- *)
(* one chain config on CCIPHome: (selector, (fChain, readers)) *)
Definition hentry := (N * (N * list N))%type.
(* one poll: Some l = the contract answers with l (one short page, every opaque config decodable); None = the read fails *)
Definition hpoll := option (list hentry).
Definition entries_of (l : list hentry) : list entry :=
  map (fun c => mkE (fst c) (snd (snd c)) (fst (snd c)) (Some 1%N)) l.
Definition poll_pages (p : hpoll) : list (option (list entry)) :=
  match p with None => [None] | Some l => [Some (entries_of l)] end.
(* Start, then one completed fetch per poll result *)
Definition hist_events (polls : list hpoll) : list home_ev := EStart :: map (fun p => EPoll (poll_pages p)) polls.

(* through the poller's state machine *)
Definition hist_views (polls : list hpoll) : hviews := views (home_run (hist_events polls)).
Definition hist_cfg (O : list N) (d f : N) (polls : list hpoll) : cfg := cfg_of_views O d f (hist_views polls).

(* read off the history: the most recent successful poll decides, nothing else *)
Fixpoint last_some {A} (l : list (option A)) (acc : option A) : option A :=
  match l with [] => acc | Some x :: r => last_some r (Some x) | None :: r => last_some r acc end.
Definition spec_home (polls : list hpoll) : hcfgs :=
  match last_some polls None with Some l => home_convert (entries_of l) | None => [] end.
Definition spec_cfg (O : list N) (d f : N) (polls : list hpoll) : cfg := cfg_of_home O d f (spec_home polls).

(* ---------- the home-chain API as the plugins use it ---------- *)
Inductive apiq :=
| QSupported (p : N)      (* HomeChain.GetSupportedChainsForPeer(p) *)
| QKnown                  (* HomeChain.GetKnownCCIPChains() *)
| QChainCfg (c : N)       (* HomeChain.GetChainConfig(c): (fChain, supported nodes); None = error *)
| QFChain                 (* HomeChain.GetFChain() *)
| QAll                    (* HomeChain.GetAllChainConfigs() *)
| QSupChains (o : N)      (* ChainSupport.SupportedChains(o); None = error (no peer id) *)
| QSupDest (o : N)        (* ChainSupport.SupportsDestChain(o); None = error *)
| QKnownSrc.              (* ChainSupport.KnownSourceChainsSlice() *)
Inductive apia :=
| ASet (l : list N)
| AOptSet (o : option (list N))
| ACfg (o : option (Z * list N))
| AFch (l : list (N * Z))
| AAll (l : list (N * (Z * list N)))
| AOptB (o : option bool).

Definition cc_pair (cc : chaincfg) : Z * list N := (Z.of_N (cc_f cc), cc_nodes cc).

(* answers from the poller's stored views (which getter reads which view is as in home_chain.go / chain_support.go) *)
Definition api_model (O : list N) (d : N) (v : hviews) (q : apiq) : apia :=
  match q with
  | QSupported p => ASet (get_supported_chains v p)
  | QKnown => ASet (get_known_chains v)
  | QChainCfg c => ACfg (option_map cc_pair (get_chain_config v c))
  | QFChain => AFch (map (fun kv => (fst kv, Z.of_N (snd kv))) (get_fchain v))
  | QAll => AAll (chains_of_home (get_all_chain_configs v))
  | QSupChains o => AOptSet (if memN o O then Some (get_supported_chains v o) else None)
  | QSupDest o =>
      AOptB (match get_chain_config v d with
             | None => None
             | Some cc => if memN o O then Some (memN o (cc_nodes cc)) else None
             end)
  | QKnownSrc => ASet (filter (fun c => negb (N.eqb c d)) (get_known_chains v))
  end.

(* the same answers from the Roles accessors of one role map *)
Definition api_spec (g : cfg) (q : apiq) : apia :=
  match q with
  | QSupported p => ASet (filter (reads g p) (home_chains g))
  | QKnown => ASet (home_chains g)
  | QChainCfg c => ACfg (alookup c (c_chains g))
  | QFChain => AFch (home_fchain g)
  | QAll => AAll (c_chains g)
  | QSupChains o => AOptSet (supported_chains g o)
  | QSupDest o => AOptB (supports_dest g o)
  | QKnownSrc => ASet (sources g)
  end.

(* ---------- histories of poller events and plugin rounds ---------- *)
Inductive hev :=
| HPoller (e : home_ev)                                       (* Start / a completed fetch / a read / Close *)
| HValC (retry : bool) (o : N) (ob : cobs)                    (* commit ValidateObservation on (o, ob) *)
| HValE (o : N) (ob : eobs)                                   (* execute ValidateObservation on (o, ob) *)
| HObsC (i : N) (st : rstate) (phase : N) (retry : bool)      (* commit Observation of oracle i *)
| HObsE (i : N) (st : rstate) (phase : N).                    (* execute Observation of oracle i *)
Inductive hout :=
| OVerdict (b : bool)
| OCommit (r : res cobs)
| OExec (r : res eobs).

(* what a round answers when the role map is g; None for a poller event *)
Definition round_out (g : cfg) (e : hev) : option hout :=
  match e with
  | HPoller _ => None
  | HValC retry o ob => Some (OVerdict (validate_commit g retry o ob))
  | HValE o ob => Some (OVerdict (validate_exec g o ob))
  | HObsC i st phase retry => Some (OCommit (observe_commit g i st phase retry))
  | HObsE i st phase => Some (OExec (observe_exec g i st phase))
  end.

Definition hstep (s : home_st) (e : hev) : home_st :=
  match e with HPoller e' => home_step s e' | _ => s end.

Section Hist.
  Variables (O : list N) (d f : N).
  (* the system: one answer slot per event, every round served from the poller state of that moment *)
  Fixpoint hrun_from (s : home_st) (evs : list hev) : list (option hout) :=
    match evs with
    | [] => []
    | e :: r => round_out (cfg_of_views O d f (views s)) e :: hrun_from (hstep s e) r
    end.
  Definition hrun (evs : list hev) : list (option hout) := hrun_from (pinit home_init) evs.
End Hist.

(* the poller events of a history, in order *)
Definition polls_of (evs : list hev) : list home_ev :=
  flat_map (fun e => match e with HPoller e' => [e'] | _ => [] end) evs.

(* ExecReport.v — model of execute/report/{roots.go, report.go, builder.go, data.go} and of
   execute/plugin.go:selectReport.  32-byte values (message ids, leaf hashes, roots) and sender strings are
   abstract ids [N]; the internal hash, the message hasher, the report codec and the gas estimator are Section
   variables.  No proofs in this file. *)
Require Import Verif.Model.Base Verif.Model.Merkle.

(* cciptypes.Message, as far as this code and its oracles look at it *)
Record msg := mkMsg {
  m_id : N;        (* Header.MessageID *)
  m_src : N;       (* Header.SourceChainSelector *)
  m_seq : N;       (* Header.SequenceNumber *)
  m_nonce : N;     (* Header.Nonce; 0 = out-of-order execution allowed *)
  m_sender : N;    (* typeconv.AddressBytesToString(Sender), interned *)
  m_size : N;      (* what the codec oracle charges for the body *)
  m_gas : N        (* what the gas estimator oracle charges for the message *)
}.

(* exectypes.MessageTokenData = list of (Ready, Data) *)
Definition tokdata := list (bool * N).
Definition td_ready (td : tokdata) : bool := forallb fst td.        (* IsReady *)
Definition td_bytes (td : tokdata) : list N := map snd td.          (* ToByteSlice *)

(* exectypes.CommitData (Timestamp and BlockNum are carried along untouched and not modelled) *)
Record cdata := mkCD {
  c_src : N;
  c_root : N;
  c_start : N;
  c_end : N;
  c_exec : list N;          (* ExecutedMessages *)
  c_msgs : list msg;
  c_costly : list N;        (* CostlyMessages: message ids *)
  c_td : list tokdata       (* MessageTokenData *)
}.
Definition set_exec (cd : cdata) (e : list N) : cdata :=
  mkCD (c_src cd) (c_root cd) (c_start cd) (c_end cd) e (c_msgs cd) (c_costly cd) (c_td cd).

(* cciptypes.ExecutePluginReportSingleChain *)
Record creport := mkCR {
  r_src : N;
  r_msgs : list msg;
  r_td : list (list N);     (* OffchainTokenData *)
  r_proofs : list N;
  r_flags : Z               (* ProofFlagBits *)
}.
Definition empty_creport : creport := mkCR 0 [] [] [] 0.

(* map[chain]map[sender]uint64, flattened; only looked up and updated *)
Definition nmap := list ((N * N) * N).
Fixpoint nlookup (c s : N) (m : nmap) : option N :=
  match m with
  | [] => None
  | ((c', s'), v) :: m' => if N.eqb c c' && N.eqb s s' then Some v else nlookup c s m'
  end.
Fixpoint nupdate (c s v : N) (m : nmap) : nmap :=
  match m with
  | [] => [((c, s), v)]
  | ((c', s'), v') :: m' =>
      if N.eqb c c' && N.eqb s s' then ((c', s'), v) :: m' else ((c', s'), v') :: nupdate c s v m'
  end.

(* execReportBuilder state *)
Record bstate := mkB {
  b_size : N;               (* accumulated.encodedSizeBytes *)
  b_gas : N;                (* accumulated.gas *)
  b_exp : nmap;             (* expectedNonce *)
  b_reports : list creport  (* execReports *)
}.
Definition b_init : bstate := mkB 0 0 [] [].

(* int(x) for a uint64 x on a 64-bit platform *)
Definition to_int64 (x : N) : Z :=
  if N.ltb x 9223372036854775808 then Z.of_N x else (Z.of_N x - 18446744073709551616)%Z.

Definition select {A} (l : list A) (idxs : list nat) : list A :=
  flat_map (fun i => match nth_error l i with Some x => [x] | None => [] end) idxs.
Definition mem_nat (i : nat) (l : list nat) : bool := existsb (Nat.eqb i) l.

(* ---- execute/plugin.go selectReport, for any builder [addf]: reports without messages stay pending untouched and
   are not handed to the builder; the first Add error aborts; a report stays pending while it has more messages than
   executed entries ---- *)
Fixpoint select_loop_with {S : Type} (addf : S -> cdata -> res (S * cdata)) (st : S) (cds : list cdata)
  : res (S * list cdata) :=
  match cds with
  | [] => Ok (st, [])
  | cd :: cds' =>
      match c_msgs cd with
      | [] => rbind (select_loop_with addf st cds') (fun x => Ok (fst x, cd :: snd x))
      | _ =>
          rbind (addf st cd) (fun y =>
          rbind (select_loop_with addf (fst y) cds') (fun x =>
          Ok (fst x, if Nat.ltb (length (c_exec (snd y))) (length (c_msgs (snd y)))
                     then snd y :: snd x else snd x)))
      end
  end.

Section ExecReport.
  Variable hash : N -> N -> N.               (* hashutil keccak HashInternal *)
  Variable zero : N.                         (* ZeroHash *)
  Variable leaf_hash : msg -> option N.      (* MessageHasher.Hash; None = error *)
  Variable enc_size : creport -> option N.   (* len(codec.Encode({[r]})); None = error *)
  Variable tree_gas : N -> N.                (* CalculateMerkleTreeGas(len) *)
  (* CalculateMessageMaxGas is [m_gas] *)
  Variable nonces : nmap.                    (* sendersNonce *)
  Variable max_size max_gas : N.

  (* ---- roots.go ConstructMerkleTree ---- *)
  Definition in_range (cd : cdata) (s : N) : bool := N.leb (c_start cd) s && N.leb s (c_end cd).
  Fixpoint tree_leaves (cd : cdata) (ms : list msg) : res (list N) :=
    match ms with
    | [] => Ok []
    | m :: ms' =>
        if negb (in_range cd (m_seq m)) then Err
        else if negb (N.eqb (c_src cd) (m_src m)) then Err
        else match leaf_hash m with
             | None => Err
             | Some h => rbind (tree_leaves cd ms') (fun r => Ok (h :: r))
             end
    end.
  Definition construct_tree (cd : cdata) : res (tree (H:=N)) :=
    (* numMsgs := int(End - Start + 1) in uint64 arithmetic, compared with len(Messages) *)
    let num := to_int64 (add64 (sub64 (c_end cd) (c_start cd)) 1) in
    if negb (Z.eqb num (Z.of_nat (length (c_msgs cd)))) then Err
    else rbind (tree_leaves cd (c_msgs cd)) (fun ls => new_tree hash zero ls).

  (* ---- report.go buildSingleChainReportHelper ----
     [ready] stands for the map[int]struct{} readyMessages (only membership is used); an empty set means "all". *)
  Definition build_helper (cd : cdata) (ready : list nat) : res creport :=
    let n := length (c_msgs cd) in
    let ready := match ready with [] => seq 0 n | _ => ready end in
    match ready with
    | [] => Ok empty_creport                       (* "no messages ready for execution": empty report, nil error *)
    | _ =>
        if negb (Nat.eqb (length (c_td cd)) n) then Err          (* token data length mismatch *)
        else
          rbind (construct_tree cd) (fun t =>
          if negb (N.eqb (troot zero t) (c_root cd)) then Err    (* merkle root mismatch *)
          else
            let idxs := filter (fun i => mem_nat i ready) (seq 0 n) in
            rbind (prove t idxs) (fun pf =>
            Ok (mkCR (c_src cd) (select (c_msgs cd) idxs) (map td_bytes (select (c_td cd) idxs))
                     (fst pf) (bools_to_flags (snd pf)))))
    end.

  (* ---- checkMessageNonce: returns the new expectedNonce map and whether the message may proceed ---- *)
  Definition check_nonce (exp : nmap) (cd : cdata) (m : msg) : nmap * bool :=
    if N.eqb (m_nonce m) 0 then (exp, true)
    else
      match nlookup (c_src cd) (m_sender m) nonces with
      | None => (exp, false)                       (* MissingNoncesForChain / MissingNonce *)
      | Some onchain =>
          (* expectedNonce[chain][sender] is initialised to onchain+1 when absent *)
          let e := match nlookup (c_src cd) (m_sender m) exp with Some e => e | None => add64 onchain 1 end in
          let exp1 := nupdate (c_src cd) (m_sender m) e exp in
          if negb (N.eqb (m_nonce m) e) then (exp1, false)       (* InvalidNonce *)
          else (nupdate (c_src cd) (m_sender m) (add64 e 1) exp1, true)
      end.

  (* ---- checkMessage (after repair F14a): executed -> token data -> too costly -> nonce (advances the expected
     nonce).  A message that is skipped for any reason no longer advances its sender's expectation. ---- *)
  Definition check_message (exp : nmap) (cd : cdata) (idx : nat) (m : msg) : res (nmap * bool) :=
    if memN (m_seq m) (c_exec cd) then Ok (exp, false)           (* AlreadyExecuted *)
    else
      match nth_error (c_td cd) idx with
      | None => Err                                              (* token data index out of range *)
      | Some td =>
          if negb (td_ready td) then Ok (exp, false)             (* TokenDataNotReady *)
          else if memN (m_id m) (c_costly cd) then Ok (exp, false)      (* TooCostly *)
          else
            let '(exp1, okn) := check_nonce exp cd m in
            if negb okn then Ok (exp1, false)
            else Ok (exp1, true)                                 (* ReadyToExecute *)
      end.

  (* the order before the repair: executed -> token data -> nonce -> too costly.  Kept for the refutation. *)
  Definition check_message_unfixed (exp : nmap) (cd : cdata) (idx : nat) (m : msg) : res (nmap * bool) :=
    if memN (m_seq m) (c_exec cd) then Ok (exp, false)
    else
      match nth_error (c_td cd) idx with
      | None => Err
      | Some td =>
          if negb (td_ready td) then Ok (exp, false)
          else
            let '(exp1, okn) := check_nonce exp cd m in
            if negb okn then Ok (exp1, false)
            else if memN (m_id m) (c_costly cd) then Ok (exp1, false)
            else Ok (exp1, true)
      end.
  Fixpoint check_all_unfixed (exp : nmap) (cd : cdata) (i : nat) (ms : list msg) : res (nmap * list nat) :=
    match ms with
    | [] => Ok (exp, [])
    | m :: ms' =>
        rbind (check_message_unfixed exp cd i m) (fun x =>
        rbind (check_all_unfixed (fst x) cd (S i) ms') (fun y =>
        Ok (fst y, if snd x then i :: snd y else snd y)))
    end.

  Fixpoint check_all (exp : nmap) (cd : cdata) (i : nat) (ms : list msg) : res (nmap * list nat) :=
    match ms with
    | [] => Ok (exp, [])
    | m :: ms' =>
        rbind (check_message exp cd i m) (fun x =>
        rbind (check_all (fst x) cd (S i) ms') (fun y =>
        Ok (fst y, if snd x then i :: snd y else snd y)))
    end.

  (* ---- verifyReport: Ok None = does not fit; Ok (Some (size, gas)) = fits ---- *)
  Definition gas_sum (ms : list msg) : N := fold_left (fun a m => add64 a (m_gas m)) ms 0%N.
  Definition report_gas (r : creport) : N :=
    add64 (gas_sum (r_msgs r)) (tree_gas (N.of_nat (length (r_msgs r)))).
  Definition verify_report (st : bstate) (r : creport) : res (option (N * N)) :=
    match enc_size r with
    | None => Err
    | Some sz =>
        (* maxSizeBytes := int(maxReportSizeBytes - accumulated.encodedSizeBytes); len(encoded) > maxSizeBytes *)
        if Z.ltb (to_int64 (sub64 max_size (b_size st))) (Z.of_N sz) then Ok None
        else if N.ltb (sub64 max_gas (b_gas st)) (report_gas r) then Ok None
        else Ok (Some (sz, report_gas r))
    end.

  (* ---- data.go markNewMessagesExecuted ---- *)
  Definition mark_executed (r : creport) (cd : cdata) : cdata :=
    set_exec cd (sortN (c_exec cd ++ map m_seq (r_msgs r))).

  (* ---- buildSingleChainReport ---- *)
  Inductive bres :=
  | BReport (st : bstate) (r : creport) (cd : cdata)
  | BEmpty (st : bstate)                      (* ErrEmptyReport *)
  | BErr.

  Definition finalize (st : bstate) (r : creport) (cd : cdata) (meta : N * N) : bres :=
    BReport (mkB (add64 (b_size st) (fst meta)) (add64 (b_gas st) (snd meta)) (b_exp st) (b_reports st))
            r (mark_executed r cd).

  (* the one-by-one fallback: [cur] = the set msgs, [best] = (finalReport, meta) of the last report that fitted *)
  Fixpoint greedy (st : bstate) (cd : cdata) (ready cur : list nat) (best : option (creport * (N * N)))
    : res (list nat * option (creport * (N * N))) :=
    match ready with
    | [] => Ok (cur, best)
    | i :: ready' =>
        rbind (build_helper cd (cur ++ [i])) (fun r2 =>
        rbind (verify_report st r2) (fun v =>
        match v with
        | Some meta => greedy st cd ready' (cur ++ [i]) (Some (r2, meta))
        | None => greedy st cd ready' cur best            (* delete(msgs, i) *)
        end))
    end.

  (* selection among the ready messages: the all-ready report if it fits, else the fallback.
     Ok None = nothing fits; Ok (Some (indices, report, meta)) *)
  Definition choose (st : bstate) (cd : cdata) (ready : list nat)
    : res (option (list nat * creport * (N * N))) :=
    rbind (build_helper cd ready) (fun r =>
    rbind (verify_report st r) (fun v =>
    match v with
    | Some meta => Ok (Some (ready, r, meta))
    | None =>
        rbind (greedy st cd ready [] None) (fun x =>
        match snd x with
        | Some (r2, meta2) => Ok (Some (fst x, r2, meta2))
        | None => Ok None                                 (* len(msgs) == 0 *)
        end)
    end)).

  Definition build_single (st : bstate) (cd : cdata) : bres :=
    match check_all (b_exp st) cd 0 (c_msgs cd) with
    | Ok (exp1, ready) =>
        let st1 := mkB (b_size st) (b_gas st) exp1 (b_reports st) in
        match ready with
        | [] => BEmpty st1
        | _ =>
            match choose st1 cd ready with
            | Ok (Some (_, r, meta)) => finalize st1 r cd meta
            | Ok None => BEmpty st1
            | _ => BErr
            end
        end
    | _ => BErr
    end.

  (* ---- bookkeeping used to state the F14 input class (what is left of it after repair F14a: the size / gas
     fallback drops a sequenced message after the nonce chain was fixed): the indices whose message advanced the
     expected nonce during the checkMessage pass — after the repair these are exactly the ready sequenced messages —
     and the indices finally placed in the report ---- *)
  Definition advances (exp : nmap) (cd : cdata) (idx : nat) (m : msg) : bool :=
    negb (memN (m_seq m) (c_exec cd)) &&
    match nth_error (c_td cd) idx with Some td => td_ready td | None => false end &&
    negb (memN (m_id m) (c_costly cd)) &&
    negb (N.eqb (m_nonce m) 0) && snd (check_nonce exp cd m).
  Fixpoint adv_all (exp : nmap) (cd : cdata) (i : nat) (ms : list msg) : list nat :=
    match ms with
    | [] => []
    | m :: ms' =>
        match check_message exp cd i m with
        | Ok (exp1, _) => (if advances exp cd i m then [i] else []) ++ adv_all exp1 cd (S i) ms'
        | _ => []
        end
    end.
  Definition included (st : bstate) (cd : cdata) : list nat :=
    match check_all (b_exp st) cd 0 (c_msgs cd) with
    | Ok (exp1, ready) =>
        match ready with
        | [] => []
        | _ => match choose (mkB (b_size st) (b_gas st) exp1 (b_reports st)) cd ready with
               | Ok (Some (idxs, _, _)) => idxs
               | _ => []
               end
        end
    | _ => []
    end.
  (* What is left of F14 after repair F14a, as an input class: the size / gas fallback drops a ready sequenced
     message (nonce <> 0) — its nonce was already counted by checkMessageNonce, so its successors may be reported
     without it.  (False when Add fails: the whole outcome is abandoned then.) *)
  Definition ready_of (st : bstate) (cd : cdata) : list nat :=
    match check_all (b_exp st) cd 0 (c_msgs cd) with Ok (_, r) => r | _ => [] end.
  Definition sequenced_at (cd : cdata) (i : nat) : bool :=
    match nth_error (c_msgs cd) i with Some m => negb (N.eqb (m_nonce m) 0) | None => false end.
  Definition fallback_drop (st : bstate) (cd : cdata) : bool :=
    match build_single st cd with
    | BErr => false
    | _ => existsb (fun i => sequenced_at cd i && negb (mem_nat i (included st cd))) (ready_of st cd)
    end.

  (* ---- builder.go Add: returns the new builder state and the (possibly updated) commit data ---- *)
  Definition add (st : bstate) (cd : cdata) : res (bstate * cdata) :=
    match build_single st cd with
    | BEmpty st1 => Ok (st1, cd)
    | BErr => Err
    | BReport st1 r cd1 =>
        Ok (mkB (b_size st1) (b_gas st1) (b_exp st1) (b_reports st1 ++ [r]), cd1)
    end.
  Definition build (st : bstate) : list creport := b_reports st.

  (* buildSingleChainReport / Add with the checkMessage order before repair F14a *)
  Definition build_single_unfixed (st : bstate) (cd : cdata) : bres :=
    match check_all_unfixed (b_exp st) cd 0 (c_msgs cd) with
    | Ok (exp1, ready) =>
        let st1 := mkB (b_size st) (b_gas st) exp1 (b_reports st) in
        match ready with
        | [] => BEmpty st1
        | _ =>
            match choose st1 cd ready with
            | Ok (Some (_, r, meta)) => finalize st1 r cd meta
            | Ok None => BEmpty st1
            | _ => BErr
            end
        end
    | _ => BErr
    end.
  Definition add_unfixed (st : bstate) (cd : cdata) : res (bstate * cdata) :=
    match build_single_unfixed st cd with
    | BEmpty st1 => Ok (st1, cd)
    | BErr => Err
    | BReport st1 r cd1 =>
        Ok (mkB (b_size st1) (b_gas st1) (b_exp st1) (b_reports st1 ++ [r]), cd1)
    end.

  (* ---- execute/plugin.go selectReport with this builder (loop body: select_loop_with above) ---- *)
  Definition select_loop : bstate -> list cdata -> res (bstate * list cdata) := select_loop_with add.
  Definition select_report (cds : list cdata) : res (list creport * list cdata) :=
    rbind (select_loop b_init cds) (fun x => Ok (build (fst x), snd x)).

  (* the sequence of Add calls as the harness drives it: stops at the first error *)
  Fixpoint add_all (st : bstate) (cds : list cdata) : list (res (bstate * cdata)) :=
    match cds with
    | [] => []
    | cd :: cds' =>
        match add st cd with
        | Ok (st1, cd1) => Ok (st1, cd1) :: add_all st1 cds'
        | e => [e]
        end
    end.
End ExecReport.

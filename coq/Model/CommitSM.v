(* CommitSM.v — model of the commit plugin's merkle-root round state machine:
     commit/merkleroot/types.go:Outcome.NextState                    (next_state)
     commit/merkleroot/outcome.go:getOutcome                         (get_outcome)
     commit/merkleroot/outcome.go:reportRangesOutcome                (select_outcome; intervals from CommitMerkle.report_ranges)
     commit/merkleroot/outcome.go:buildReport                        (build_report)
     commit/merkleroot/outcome.go:checkForReportTransmission         (check_transmission)
     commit/merkleroot/rmn/translatestruct.go:NewECDSASigsFromPB / NewLaneUpdatesFromPB   (parse_sigs / parse_lanes)
   The model follows the code as repaired by fixes/F10.patch (nil / malformed bundle parts are errors), F11.patch
   (outcome type and signatures decided after the RMN filter) and F27.patch (the retry branch is taken before the
   consensus computation); the pre-repair functions are kept under *_unfixed names.
   The consensus result over the round's observations is an input (None = getConsensusObservation failed). *)
Require Import Verif.Model.Base Verif.Model.SeqRange Verif.Model.CommitMerkle.

(* ---------- data ---------- *)
Definition root := (N * (N * N) * N * N)%type.        (* chain, interval, on-ramp address id, merkle root id *)
Definition root_chain (r : root) : N := fst (fst (fst r)).
Definition root_eqb (x y : root) : bool :=
  let '(k, (s, e), a, r) := x in let '(k', (s', e'), a', r') := y in
  N.eqb k k' && N.eqb s s' && N.eqb e e' && N.eqb a a' && N.eqb r r'.

(* RMN remote config: interned identity of the whole struct (0 <-> IsEmpty()) and its F *)
Definition rmn_cfg := (N * N)%type.
Definition cfg_empty : rmn_cfg := (0, 0)%N.
Definition cfg_is_empty (c : rmn_cfg) : bool := N.eqb (fst c) 0.
Definition cfg_eqb : rmn_cfg -> rmn_cfg -> bool := pair_eqb N.eqb N.eqb.

(* the leader's signature bundle as it arrives (protobuf pointers may be nil, byte strings may have any length) *)
Inductive sig_pb := SigNil | SigBad | SigOk (id : N).
Inductive lane_pb :=
| LaneNil | LaneNoSource | LaneNoInterval
| LaneBadRoot                                     (* len(Root) <> 32 *)
| LaneOk (k mn mx addr rt : N).
Record bundle := mkBundle { b_sigs : list sig_pb; b_lanes : list lane_pb }.
Record query := mkQuery { q_retry : bool; q_sigs : option bundle }.

Record outcome := mkOutcome {
  o_type : Z;                           (* OutcomeType (Go int; any value can come back from the wire) *)
  o_ranges : list chain_range;          (* RangesSelectedForReport *)
  o_roots : list root;                  (* RootsToReport *)
  o_off : list seq_chain;               (* OffRampNextSeqNums *)
  o_attempts : N;                       (* ReportTransmissionCheckAttempts (uint) *)
  o_sigs : list N;                      (* RMNReportSignatures *)
  o_cfg : rmn_cfg                       (* RMNRemoteCfg *)
}.
Definition empty_outcome : outcome := mkOutcome 0 [] [] [] 0 [] cfg_empty.

(* consensusObservation: MerkleRoots values, OnRampMaxSeqNums, OffRampNextSeqNums (maps, iteration order = list
   order), RMNRemoteConfig[destChain] (zero value when absent) *)
Record cons := mkCons {
  c_roots : list root;
  c_on : list seq_chain;
  c_off : list seq_chain;
  c_cfg : rmn_cfg
}.

(* ---------- NextState ---------- *)
Inductive state := Selecting | Building | Waiting.
Definition state_eqb (a b : state) : bool :=
  match a, b with Selecting, Selecting | Building, Building | Waiting, Waiting => true | _, _ => false end.

Definition T_selected : Z := 1.  Definition T_generated : Z := 2.  Definition T_empty : Z := 3.
Definition T_inflight : Z := 4.  Definition T_transmitted : Z := 5. Definition T_failed : Z := 6.

Definition next_state (t : Z) : state :=
  if Z.eqb t 1 then Building
  else if Z.eqb t 2 then Waiting
  else if Z.eqb t 3 then Selecting
  else if Z.eqb t 4 then Waiting
  else if Z.eqb t 5 then Selecting
  else if Z.eqb t 6 then Selecting
  else Selecting.

(* ---------- reportRangesOutcome ---------- *)
Definition select_outcome_with (lim : N -> N -> N -> N * N) (c : cons) (n : N) : outcome :=
  let '(rs, os) := report_ranges_with lim (c_on c) (c_off c) n in
  mkOutcome T_selected rs [] os 0 []
            (if cfg_is_empty (c_cfg c) then cfg_empty else c_cfg c).
Definition select_outcome := select_outcome_with limit.

(* ---------- bundle parsing (repaired: nil parts are errors) ---------- *)
Fixpoint parse_sigs (l : list sig_pb) : option (list N) :=
  match l with
  | [] => Some []
  | SigOk id :: l' => match parse_sigs l' with Some r => Some (id :: r) | None => None end
  | _ :: _ => None
  end.
Fixpoint parse_lanes (l : list lane_pb) : option (list root) :=
  match l with
  | [] => Some []
  | LaneOk k mn mx addr rt :: l' =>
      match parse_lanes l' with Some r => Some ((k, (mn, mx), addr, rt) :: r) | None => None end
  | _ :: _ => None
  end.

(* ---------- buildReport ---------- *)
Definition root_le (a b : root) : bool := N.leb (root_chain a) (root_chain b).

(* F11 repair: type and signatures are decided after the filter *)
Definition finish_report (prev : outcome) (roots : list root) (sigs : list N) : outcome :=
  match roots with
  | [] => mkOutcome T_empty [] [] (o_off prev) 0 [] (o_cfg prev)
  | _ => mkOutcome T_generated [] roots (o_off prev) 0 sigs (o_cfg prev)
  end.

Definition build_report (q : query) (c : cons) (prev : outcome) : outcome :=
  let roots := sort_by root_le (c_roots c) in
  match q_sigs q with
  | None => finish_report prev roots []
  | Some b =>
      match parse_sigs (b_sigs b) with
      | None => empty_outcome
      | Some sigs =>
          match parse_lanes (b_lanes b) with
          | None => empty_outcome
          | Some signed =>
              (* only roots equal to a signed lane update on chain, interval, root and address are reported *)
              finish_report prev (filter (fun r => existsb (root_eqb r) signed) roots) sigs
          end
      end
  end.

(* before F11.patch: the type was chosen before the filter and the signatures were always copied *)
Definition build_report_unfixed11 (q : query) (c : cons) (prev : outcome) : outcome :=
  let roots := sort_by root_le (c_roots c) in
  let ty := match roots with [] => T_empty | _ => T_generated end in
  match q_sigs q with
  | None => mkOutcome ty [] roots (o_off prev) 0 [] (o_cfg prev)
  | Some b =>
      match parse_sigs (b_sigs b) with
      | None => empty_outcome
      | Some sigs =>
          match parse_lanes (b_lanes b) with
          | None => empty_outcome
          | Some signed =>
              mkOutcome ty [] (filter (fun r => existsb (root_eqb r) signed) roots) (o_off prev) 0 sigs (o_cfg prev)
          end
      end
  end.

(* before F10.patch: nil parts of the bundle were dereferenced (Panic), a root shorter than 32 bytes panicked the
   slice-to-array conversion; only the crash behaviour is modelled here, for the refutation theorem *)
Definition lane_panics (l : lane_pb) : bool :=
  match l with LaneNil | LaneNoSource | LaneNoInterval | LaneBadRoot => true | LaneOk _ _ _ _ _ => false end.
Definition build_report_unfixed10 (q : query) (c : cons) (prev : outcome) : res outcome :=
  match q_sigs q with
  | None => Ok (build_report q c prev)
  | Some b =>
      if existsb (fun s => match s with SigNil => true | _ => false end) (b_sigs b) then Panic
      else match parse_sigs (b_sigs b) with
           | None => Ok empty_outcome
           | Some _ => if existsb lane_panics (b_lanes b) then Panic else Ok (build_report q c prev)
           end
  end.

(* ---------- checkForReportTransmission ---------- *)
Definition off_updated (prev_off cur_off : list seq_chain) : bool :=
  existsb (fun p : seq_chain =>
             match alookup (fst p) cur_off with
             | Some cur => negb (N.eqb (snd p) cur)
             | None => false
             end) prev_off.

Definition check_transmission (max : N) (prev : outcome) (c : cons) : outcome :=
  if off_updated (o_off prev) (c_off c) then mkOutcome T_transmitted [] [] [] 0 [] cfg_empty
  else if N.leb max (add64 (o_attempts prev) 1) then mkOutcome T_failed [] [] [] 0 [] cfg_empty
  else mkOutcome T_inflight [] [] (o_off prev) (add64 (o_attempts prev) 1) [] cfg_empty.

(* ---------- getOutcome ---------- *)
Definition get_outcome_with (lim : N -> N -> N -> N * N) (max n : N) (prev : outcome) (q : query) (co : option cons) : outcome :=
  let st := next_state (o_type prev) in
  if state_eqb st Building && q_retry q then prev
  else match co with
       | None => empty_outcome
       | Some c =>
           match st with
           | Selecting => select_outcome_with lim c n
           | Building => build_report q c prev
           | Waiting => check_transmission max prev c
           end
       end.
Definition get_outcome := get_outcome_with limit.

(* before F27.patch the consensus was computed first, so a retry round (whose valid observations are all empty and
   therefore never reach consensus on fChain) returned the empty outcome instead of the previous one *)
Definition get_outcome_unfixed27 (max n : N) (prev : outcome) (q : query) (co : option cons) : outcome :=
  match co with
  | None => empty_outcome
  | Some c =>
      match next_state (o_type prev) with
      | Selecting => select_outcome c n
      | Building => if q_retry q then prev else build_report q c prev
      | Waiting => check_transmission max prev c
      end
  end.

(* a run of the state machine over a list of rounds *)
Definition round_in := (query * option cons)%type.
Definition run_step (max n : N) (prev : outcome) (r : round_in) : outcome := get_outcome max n prev (fst r) (snd r).
Definition run (max n : N) (prev : outcome) (rs : list round_in) : outcome := fold_left (run_step max n) rs prev.

(* PanicSites2.v — second batch of (guard, use) pairs for C13, in the res monad of Base.v
   (Ok v | Err rejected | Panic Go runtime panic | Spin loop without bound).
   Each site is a pair: the USE as Go executes it (index / slice / dereference / division / loop, with the runtime's
   checks explicit) under an [_unguarded] name, and the function as it stands in the repository, i.e. the use behind
   its GUARD (length check, nil check, decode error, validation rule).  docs/c13_sites.md lists file:line for each.
   Sites (Go function -> definition):
     zip family   : for i := range xs { ... ys[i] ... } behind len(xs) == len(ys)
                    1 merkleroot.ValidateMerkleRootsState            validate_roots_state
                    2 observerImpl.ObserveOffRampNextSeqNums         observe_offramp_next
                    3 tokenprice processor.ObserveFeedTokenPrices    observe_feed_prices
                    4 ccipChainReader.getAllOffRampSourceChainsConfig all_source_configs
                    5 report.buildSingleChainReportHelper            report_token_data
                    6 tokendata.merge                                token_merge
                    7 priceReader.GetFeeQuoterTokenUpdates           fee_quoter_updates      (repaired, F72)
     report.checkMessage / execReportBuilder.Add                     check_message, builder_add
     rmn.NewECDSASigFromPB / NewLaneUpdatesFromPB                    ecdsa_sig_from_pb, lane_update_from_pb
     merkleroot.verifyQuery / buildReport on the query's bundle      verify_query, build_report_bundle
     mathslib.Deviates                                               deviates
     exectypes.MessageTokenData.Append                               append_at
     execute.mergeTokenObservations (writes into made maps)          merge_tok_write
     rmn.validateRootLengths + Bytes32(lu.Root)                      root32
     rmn.gotSufficientObservationResponses values[len-1]             max_count
     typeconv.KeepNRightBytes                                        keep_n_right
     reader.MessageSentEvent.unpackID / NewSourceTokenDataPayload    unpack_id, source_token_payload
     costlymessages MessageExecCostUSD18                             exec_cost
     ccipChainReader.GetChainFeePriceUpdate + chainfee.FromPackedFee packed_fee
     costlymessages MessageFeeUSD18                                  msg_fee                 (repaired, F70)
     execute.filterOutExecutedMessages inner loop                    filter_one              (repaired, F71)
     priceReader.getRawTokenPriceE18Normalized                       raw_price               (repaired, F73)
     ccipChainReader.GetChainsFeeComponents                          fee_components          (repaired, F74)
   No proofs here. *)
Require Import Verif.Model.Base Verif.Model.PanicSites.

(* ---------- primitives: what the Go runtime checks ---------- *)
(* l[i], i a Go int *)
Definition gidx {A} (l : list A) (i : Z) : res A :=
  if Z.ltb i 0 then Panic
  else match nth_error l (Z.to_nat i) with Some x => Ok x | None => Panic end.
(* *p / p.f on a possibly nil pointer *)
Definition deref {A} (p : option A) : res A := match p with Some x => Ok x | None => Panic end.
Definition is_some {A} (p : option A) : bool := match p with Some _ => true | None => false end.

(* for i := range xs { use xs[i], ys[i] }  — i is the running index *)
Fixpoint zip_from {A B} (xs : list A) (ys : list B) (i : nat) : res (list (A * B)) :=
  match xs with
  | [] => Ok []
  | x :: xs' => rbind (gidx ys (Z.of_nat i)) (fun y =>
                rbind (zip_from xs' ys (S i)) (fun r => Ok ((x, y) :: r)))
  end.
Definition zip_loop {A B} (xs : list A) (ys : list B) : res (list (A * B)) := zip_from xs ys 0.
Definition len_eq {A B} (xs : list A) (ys : list B) : bool := Nat.eqb (length xs) (length ys).

(* ---------- the zip family ---------- *)
Section Zip.
  Context {A B : Type}.
  (* 1: loop over the reader's answers, chainSlice[i]; mismatch is an error *)
  Definition validate_roots_state (chains : list A) (answers : list B) : res (list (B * A)) :=
    if len_eq answers chains then zip_loop answers chains else Err.
  (* 2, 3: loop over the chains / tokens asked about, answers[i]; mismatch is logged and nothing is observed *)
  Definition observe_offramp_next (chains : list A) (answers : list B) : res (list (A * B)) :=
    if len_eq answers chains then zip_loop chains answers else Ok [].
  Definition observe_feed_prices (tokens : list A) (prices : list B) : res (list (A * B)) :=
    if len_eq prices tokens then zip_loop tokens prices else Ok [].
  (* 4 *)
  Definition all_source_configs (selectors : list A) (configs : list B) : res (list (A * B)) :=
    if len_eq configs selectors then zip_loop selectors configs else Err.
  (* 5 *)
  Definition report_token_data (msgs : list A) (toks : list B) : res (list (A * B)) :=
    if len_eq toks msgs then zip_loop msgs toks else Err.
  (* 6 *)
  Definition token_merge (from : list A) (base : list B) : res (list (A * B)) :=
    if len_eq from base then zip_loop from base else Err.
  (* 7: before the repair the loop ran without the length check *)
  Definition fee_quoter_updates (tokens : list A) (updates : list B) : res (list (A * B)) :=
    if len_eq updates tokens then zip_loop tokens updates else Err.
  Definition fee_quoter_updates_unfixed (tokens : list A) (updates : list B) : res (list (A * B)) :=
    zip_loop tokens updates.
End Zip.

(* ---------- report.checkMessage and the builder's loop over it ---------- *)
Section CheckMessage.
  Context {M T : Type}.
  Definition check_message (msgs : list M) (toks : list T) (idx : Z) : res (M * T) :=
    if Z.geb idx (Z.of_nat (length msgs)) then Err
    else rbind (gidx msgs idx) (fun m =>
         if Z.geb idx (Z.of_nat (length toks)) then Err
         else rbind (gidx toks idx) (fun t => Ok (m, t))).
  Definition check_message_unguarded (msgs : list M) (toks : list T) (idx : Z) : res (M * T) :=
    rbind (gidx msgs idx) (fun m => rbind (gidx toks idx) (fun t => Ok (m, t))).
  (* for i := 0; i < len(report.Messages); i++ { checkMessage(i) } *)
  Fixpoint check_all (msgs : list M) (toks : list T) (k : nat) (i : nat) : res unit :=
    match k with
    | O => Ok tt
    | S k' => rbind (check_message msgs toks (Z.of_nat i)) (fun _ => check_all msgs toks k' (S i))
    end.
  (* buildSingleChainReport on a report whose messages are all ready: every checkMessage, then the helper *)
  Definition builder_add (msgs : list M) (toks : list T) : res (list (M * T)) :=
    rbind (check_all msgs toks (length msgs) 0) (fun _ => report_token_data msgs toks).
End CheckMessage.

(* ---------- protobuf translation of the query's RMN bundle ---------- *)
Definition pb_sig := option (list N * list N).          (* *rmnpb.EcdsaSignature: nil | (R, S) *)
Definition ecdsa_sig_from_pb (sig : pb_sig) : res (list N * list N) :=
  match sig with
  | None => Err
  | Some (r, s) =>
      if negb (Nat.eqb (length r) 32 && Nat.eqb (length s) 32) then Err
      else rbind (gslice r 0 32) (fun r' => rbind (gslice s 0 32) (fun s' => Ok (r', s')))
  end.
Definition ecdsa_sig_from_pb_unguarded (sig : pb_sig) : res (list N * list N) :=
  rbind (deref sig) (fun rs => rbind (gslice (fst rs) 0 32) (fun r' => rbind (gslice (snd rs) 0 32) (fun s' => Ok (r', s')))).

Record pb_lane := mkPbLane { pl_source : option N; pl_interval : option (N * N); pl_root : list N }.
Definition lane_out := (N * (N * N) * list N)%type.
Definition lane_update_from_pb (lu : option pb_lane) : res lane_out :=
  match lu with
  | None => Err
  | Some l =>
      match pl_source l, pl_interval l with
      | Some s, Some iv =>
          if negb (Nat.eqb (length (pl_root l)) 32) then Err
          else rbind (gslice (pl_root l) 0 32) (fun r => Ok (s, iv, r))
      | _, _ => Err
      end
  end.
Definition lane_update_from_pb_unguarded (lu : option pb_lane) : res lane_out :=
  rbind (deref lu) (fun l => rbind (gslice (pl_root l) 0 32) (fun r =>
  rbind (deref (pl_source l)) (fun s => rbind (deref (pl_interval l)) (fun iv => Ok (s, iv, r))))).

Fixpoint map_res {A B} (f : A -> res B) (l : list A) : res (list B) :=
  match l with
  | [] => Ok []
  | x :: l' => rbind (f x) (fun y => rbind (map_res f l') (fun r => Ok (y :: r)))
  end.
Record pb_bundle := mkBundle { b_sigs : list pb_sig; b_lanes : list (option pb_lane) }.
Definition parse_bundle (b : pb_bundle) : res (list (list N * list N) * list lane_out) :=
  rbind (map_res ecdsa_sig_from_pb (b_sigs b)) (fun ss =>
  rbind (map_res lane_update_from_pb (b_lanes b)) (fun ls => Ok (ss, ls))).

(* merkleroot.shouldSkipRMNVerification: Ok true = skip, Ok false = verify, Err *)
Definition skip_rmn_verification (building retry has_sigs cfg_empty : bool) : res bool :=
  if negb building && negb has_sigs then Ok true
  else if building && retry then Ok true
  else if building && negb retry && negb has_sigs then Err
  else if building && cfg_empty then Err
  else if negb building && has_sigs then Err
  else Ok false.
(* the same rules without "signatures are required in the BuildingReport state but not provided" *)
Definition skip_rmn_verification_weak (building retry has_sigs cfg_empty : bool) : res bool :=
  if negb building && negb has_sigs then Ok true
  else if building && retry then Ok true
  else if building && cfg_empty then Err
  else if negb building && has_sigs then Err
  else Ok false.
(* verifyQuery with RMN enabled: q.RMNSignatures.Signatures is the first use of the pointer; the crypto check and the
   address lookups return errors or nil (oracles), [verified] is their verdict *)
Definition verify_query_with (skipf : bool -> bool -> bool -> bool -> res bool)
    (building retry cfg_empty verified : bool) (q : option pb_bundle) : res unit :=
  rbind (skipf building retry (is_some q) cfg_empty) (fun skip =>
    if skip then Ok tt
    else rbind (deref q) (fun b => rbind (parse_bundle b) (fun _ =>
         if cfg_empty then Err else if verified then Ok tt else Err))).
Definition verify_query := verify_query_with skip_rmn_verification.
Definition verify_query_unguarded := verify_query_with skip_rmn_verification_weak.
(* buildReport: "if q.RMNSignatures != nil"; a bundle that does not parse yields the empty outcome, not an error *)
Definition build_report_bundle (q : option pb_bundle) : res bool :=
  match q with
  | None => Ok true
  | Some b => match parse_bundle b with Ok _ => Ok true | Err => Ok false | Panic => Panic | Spin => Spin end
  end.

(* ---------- mathslib.Deviates on *big.Int ---------- *)
(* BitLen / Cmp / Sub on a nil pointer panic; Div by zero panics *)
Definition zdiv_res (a b : Z) : res Z := if Z.eqb b 0 then Panic else Ok (Z.div a b).
Definition deviates (x1 x2 : option Z) (ppb : Z) : res bool :=
  rbind (deref x1) (fun a => rbind (deref x2) (fun b =>
    if Z.eqb a 0 || Z.eqb b 0 then Ok (negb (Z.eqb a b))
    else let hi := Z.max a b in let lo := Z.min a b in
         rbind (zdiv_res ((hi - lo) * 1000000000) lo) (fun d => Ok (Z.ltb ppb d)))).
Definition deviates_unguarded (x1 x2 : option Z) (ppb : Z) : res bool :=
  rbind (deref x1) (fun a => rbind (deref x2) (fun b =>
    let hi := Z.max a b in let lo := Z.min a b in
    rbind (zdiv_res ((hi - lo) * 1000000000) lo) (fun d => Ok (Z.ltb ppb d)))).
(* the values compared are medians of validated observations (PanicSites.median_res) or products of them *)
Definition deviates_of_medians (xs ys : list (option Z)) (ppb : Z) : res bool :=
  rbind (median_res xs) (fun a => rbind (median_res ys) (fun b => deviates a b ppb)).

(* ---------- exectypes.MessageTokenData.Append ---------- *)
Definition set_at {A} (l : list A) (i : nat) (x : A) : list A := firstn i l ++ x :: skipn (S i) l.
Definition append_at {A} (dflt : A) (l : list A) (index : Z) (x : A) : res (list A) :=
  let l' := if Z.geb index (Z.of_nat (length l))
            then l ++ repeat dflt (Z.to_nat (index + 1) - length l) else l in
  rbind (gidx l' index) (fun _ => Ok (set_at l' (Z.to_nat index) x)).
Definition append_at_unguarded {A} (l : list A) (index : Z) (x : A) : res (list A) :=
  rbind (gidx l index) (fun _ => Ok (set_at l (Z.to_nat index) x)).

(* ---------- execute.mergeTokenObservations: writes into inner maps ---------- *)
(* outer map: chain -> inner map or nil (None); an assignment into a nil inner map panics *)
Definition tokmap := list (N * option (list (N * N))).
Definition ensure_inner (m : tokmap) (k : N) : tokmap :=
  match alookup k m with Some _ => m | None => (k, Some []) :: m end.
Definition write_inner (m : tokmap) (k s v : N) : res tokmap :=
  match alookup k m with
  | Some (Some inner) => Ok ((k, Some ((s, v) :: inner)) :: m)
  | _ => Panic                                  (* results[selector][seq] = v with results[selector] == nil *)
  end.
(* one observation entry (selector, seq): "no F defined" error, make the inner map if missing, write *)
Definition merge_tok_write (fchain : list N) (m : tokmap) (k s v : N) : res tokmap :=
  if negb (memN k fchain) then Err else write_inner (ensure_inner m k) k s v.
Definition merge_tok_write_unguarded (m : tokmap) (k s v : N) : res tokmap := write_inner m k s v.
Fixpoint merge_tok_all (fchain : list N) (m : tokmap) (entries : list (N * N * N)) : res tokmap :=
  match entries with
  | [] => Ok m
  | (k, s, v) :: r => rbind (merge_tok_write fchain m k s v) (fun m' => merge_tok_all fchain m' r)
  end.
Definition inner_made (m : tokmap) : bool := forallb (fun e => is_some (snd e)) m.

(* ---------- RMN controller ---------- *)
(* cciptypes.Bytes32(lu.Root): slice-to-array conversion, panics when the slice is shorter than the array *)
Definition to_bytes32 (root : list N) : res (list N) :=
  if Nat.ltb (length root) 32 then Panic else Ok (firstn 32 root).
Definition root32 (root : list N) : res (list N) :=
  if negb (Nat.eqb (length root) 32) then Err else to_bytes32 root.      (* validateRootLengths first *)
(* values := maps.Values(countsPerRoot); sort; values[len(values)-1] behind "!ok || len(countsPerRoot) == 0" *)
Definition max_count (counts : list Z) : res (option Z) :=
  match counts with
  | [] => Ok None
  | _ => rbind (gidx (sort_by Z.leb counts) (Z.of_nat (length counts) - 1)) (fun v => Ok (Some v))
  end.
Definition max_count_unguarded (counts : list Z) : res Z :=
  gidx (sort_by Z.leb counts) (Z.of_nat (length counts) - 1).
(* typeconv.KeepNRightBytes(b, n uint): b[uint(len(b))-n:] *)
(* b[lo:] with an unsigned 64-bit lo *)
Definition gslice_fromN {A} (l : list A) (lo : N) : res (list A) :=
  if N.leb lo (N.of_nat (length l)) then Ok (skipn (N.to_nat lo) l) else Panic.
Definition keep_n_right (b : list N) (n : N) : res (list N) :=
  if N.leb (N.of_nat (length b)) n then Ok b
  else gslice_fromN b (sub64 (N.of_nat (length b)) n).
(* without the check the unsigned subtraction wraps and the slice bound is far beyond len(b) *)
Definition keep_n_right_unguarded (b : list N) (n : N) : res (list N) :=
  gslice_fromN b (sub64 (N.of_nat (length b)) n).

(* ---------- USDC reader ---------- *)
Definition unpack_id (arg0 : list N) : res (list N) :=
  if Nat.ltb (length arg0) 32 then Err else gslice arg0 0 32.
Definition source_token_payload (extra : list N) : res (list N * list N) :=
  if Nat.ltb (length extra) 64 then Err
  else rbind (gslice extra 24 32) (fun nonce => rbind (gslice extra 60 64) (fun dom => Ok (nonce, dom))).
Definition source_token_payload_unguarded (extra : list N) : res (list N * list N) :=
  rbind (gslice extra 24 32) (fun nonce => rbind (gslice extra 60 64) (fun dom => Ok (nonce, dom))).

(* ---------- costly messages ---------- *)
(* big.Int.Mul with a nil operand panics *)
Definition zmul_res (a b : option Z) : res Z := rbind (deref a) (fun x => rbind (deref b) (fun y => Ok (x * y)%Z)).
(* MessageExecCostUSD18: len(messages) == 0, then the fee components, then messages[0].Header.DestChainSelector,
   the native price of that chain (a map lookup: missing = error) and the two multiplications *)
Definition exec_cost (dests : list N) (exec_fee da_fee : option Z) (native : list (N * Z)) : res (list Z) :=
  match dests with
  | [] => Ok []
  | _ =>
      if negb (is_some exec_fee) then Err else if negb (is_some da_fee) then Err
      else rbind (gidx dests 0) (fun d =>
           match alookup d native with
           | None => Err
           | Some p => rbind (zmul_res exec_fee (Some p)) (fun e =>
                       rbind (zmul_res da_fee (Some p)) (fun a => Ok (map (fun _ => (e + a)%Z) dests)))
           end)
  end.
Definition exec_cost_unguarded (dests : list N) (exec_fee da_fee : option Z) (native : list (N * Z)) : res (list Z) :=
  rbind (gidx dests 0) (fun d =>
    match alookup d native with
    | None => Err
    | Some p => rbind (zmul_res exec_fee (Some p)) (fun e =>
                rbind (zmul_res da_fee (Some p)) (fun a => Ok (map (fun _ => (e + a)%Z) dests)))
    end).
(* MessageFeeUSD18 per message: linkPrice * FeeValueJuels / 1e18; after the repair a missing value is a fee of 0 *)
Definition msg_fee (link : Z) (juels : option Z) : res Z :=
  match juels with
  | None => Ok 0%Z
  | Some j => Ok (Z.div (link * j) 1000000000000000000)
  end.
Definition msg_fee_unfixed (link : Z) (juels : option Z) : res Z :=
  rbind (zmul_res (Some link) juels) (fun p => Ok (Z.div p 1000000000000000000)).

(* ---------- fee quoter update: reader guard, then chainfee.FromPackedFee ---------- *)
Definition from_packed_fee (v : option Z) : res (Z * Z) :=
  rbind (deref v) (fun p => Ok (Z.land p (Z.ones 112), Z.shiftr p 112)).      (* And / Rsh on nil panic *)
(* GetChainFeePriceUpdate keeps an answer only if timestamp != 0, value != nil, value != 0 *)
Definition packed_fee (ts : N) (v : option Z) : res (option (Z * Z)) :=
  match v with
  | None => Ok None
  | Some p => if N.eqb ts 0 || Z.eqb p 0 then Ok None else rbind (from_packed_fee v) (fun r => Ok (Some r))
  end.

(* ---------- execute.filterOutExecutedMessages: one report [lo, hi], one executed range [a, b] ---------- *)
(* the loop  for ; s <= b; s++ { if s > hi { break }; append s }  over uint64: closed form of which run is appended.
   It cannot end when b = hi = 2^64-1: s <= b never fails and s never passes hi. *)
Definition s_loop_unfixed (s0 b hi : N) : res (option (N * N)) :=
  if N.ltb b s0 then Ok None
  else if N.ltb hi s0 then Ok None
  else if N.ltb hi b then Ok (Some (s0, hi))
  else if N.eqb b max64 then Spin
  else Ok (Some (s0, b)).
(* after the repair (break after appending 2^64-1) *)
Definition s_loop (s0 b hi : N) : res (option (N * N)) :=
  if N.ltb b s0 then Ok None
  else if N.ltb hi s0 then Ok None
  else if N.ltb hi b then Ok (Some (s0, hi))
  else Ok (Some (s0, b)).
Definition filter_one_with (loop : N -> N -> N -> res (option (N * N))) (lo hi a b : N) : res (option (N * N)) :=
  if N.ltb b lo then Ok None                                   (* executed range is below the report *)
  else if N.leb a lo && N.leb hi b then Ok None                (* fully executed: skipped *)
  else loop (N.max a lo) b hi.
Definition filter_one := filter_one_with s_loop.
Definition filter_one_unfixed := filter_one_with s_loop_unfixed.

(* ---------- price feed answer ---------- *)
(* answer.Mul / answer.Div on the nil answer panic; with 18 decimals the nil value is handed on and the next
   multiplication (calculateUsdPer1e18TokenAmount) panics *)
Definition normalize_price (answer : Z) (decimals : N) : Z :=
  if N.ltb decimals 18 then (answer * 10 ^ (18 - Z.of_N decimals))%Z
  else if N.ltb 18 decimals then Z.div answer (10 ^ (Z.of_N decimals - 18))
  else answer.
Definition raw_price (answer : option Z) (decimals : N) : res Z :=
  match answer with
  | None => Err
  | Some a => Ok (normalize_price a decimals)
  end.
Definition raw_price_unfixed (answer : option Z) (decimals : N) : res Z :=
  rbind (deref answer) (fun a => Ok (normalize_price a decimals)).

(* ---------- chain writer answer ---------- *)
(* feeComponents[chain] = *feeComponent; after the repair a nil answer is skipped *)
Definition fee_components {C} (answers : list (N * option C)) : res (list (N * C)) :=
  Ok (flat_map (fun e => match snd e with Some c => [(fst e, c)] | None => [] end) answers).
Definition fee_components_unfixed {C} (answers : list (N * option C)) : res (list (N * C)) :=
  map_res (fun e => rbind (deref (snd e)) (fun c => Ok (fst e, c))) answers.

(* C02Hist.v — the round-level view of the merkle-root Processor used by the C02 history correspondence:
     commit/merkleroot/observation.go:Processor.getObservation            (get_observation)
     commit/merkleroot/observation.go:ObserveOffRampNextSeqNums           (observe_offramp)
     commit/merkleroot/observation.go:ObserveLatestOnRampSeqNums          (observe_onramp)
     commit/merkleroot/observation.go:ObserveFChain                       (observe_fchain)
   and the composition "consensus of this round's observations, then getOutcome" (the consensus itself is the C01 model,
   composed in Check/C02_check.v). Everything a round reads from outside the Processor (chain support, curse info,
   off-ramp / on-ramp readers, message reader, hasher, address binding, home chain) is an argument: the model is
   memoryless in them, a long-lived instance that keeps any of it between rounds differs from the model in some round. *)
Require Import Verif.Model.Base Verif.Model.Consensus Verif.Model.SeqRange Verif.Model.CommitMerkle Verif.Model.CommitSM.

(* ObserveOffRampNextSeqNums: nil unless the oracle reads the destination, the source chains are known, the curse
   info was read and neither a global nor a destination curse is up; cursed source chains are left out; the
   off-ramp answer must have one number per chain asked for *)
Definition observe_offramp (supports_dest : option bool) (known : option (list N)) (curse : option (bool * list N))
           (next : list N -> option (list N)) : list seq_chain :=
  match supports_dest with
  | Some true =>
      match known with
      | None => []
      | Some all =>
          match curse with
          | None => []
          | Some (blocked, cursed) =>
              if blocked then []
              else let src := sortN (filter (fun k => negb (memN k cursed)) all) in
                   match src with
                   | [] => []
                   | _ => match next src with
                          | None => []
                          | Some ans => if Nat.eqb (length ans) (length src) then combine src ans else []
                          end
                   end
          end
      end
  | _ => []
  end.

(* ObserveLatestOnRampSeqNums: known source chains the oracle supports, sorted; one failing or zero answer voids the
   whole observation; latest = expected next - 1 *)
Definition observe_onramp (known supported : option (list N)) (expected : N -> option N) : list seq_chain :=
  match known, supported with
  | Some all, Some sup =>
      let src := sortN (dedup N.eqb (filter (fun k => memN k sup) all)) in
      if forallb (fun k => match expected k with Some v => negb (N.eqb v 0) | None => false end) src
      then map (fun k => (k, match expected k with Some v => sub64 v 1 | None => 0%N end)) src
      else []
  | _, _ => []
  end.

Definition observe_fchain (fch : option (list (N * Z))) : list (N * Z) :=
  match fch with Some m => m | None => [] end.

(* what one round's Observation carries (the RMN remote config is C05's) *)
Record observation := mkObservation {
  ob_roots : list root_obs;
  ob_on : list seq_chain;
  ob_off : list seq_chain;
  ob_fchain : list (N * Z)
}.
Definition empty_observation : observation := mkObservation [] [] [] [].

Section Round.
  Variable h : N -> N -> N.
  Variable zero : N.
  (* the environment as it is in THIS round *)
  Variable supported : option (list N).
  Variable known : option (list N).
  Variable supports_dest : option bool.
  Variable curse : option (bool * list N).
  Variable next : list N -> option (list N).
  Variable expected : N -> option N.
  Variable reader : N -> N * N -> option (list msg).
  Variable addr : N -> option N.
  Variable fch : option (list (N * Z)).

  (* Processor.getObservation: the previous outcome enters through its type (NextState) and, in the building state,
     through the intervals it recorded *)
  Definition get_observation (prev : outcome) (retry : bool) : observation :=
    match next_state (o_type prev) with
    | Selecting =>
        mkObservation [] (observe_onramp known supported expected)
                      (observe_offramp supports_dest known curse next) (observe_fchain fch)
    | Building =>
        if retry then empty_observation
        else mkObservation (observe_roots h zero supported (o_ranges prev) reader addr) [] [] (observe_fchain fch)
    | Waiting =>
        mkObservation [] [] (observe_offramp supports_dest known curse next) (observe_fchain fch)
    end.
End Round.

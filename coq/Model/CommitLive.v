(* CommitLive.v — one round of the merkle-root processor as the composition of the two models it is made of:
     commit/merkleroot/outcome.go:getOutcome = getConsensusObservation (CommitConsensus.get_consensus)
                                               followed by the state machine (CommitSM.get_outcome),
   and a history = a list of rounds (query of the leader, validated attributed observations), folded from a previous
   outcome. The consensus observation of the C01 model (maps keyed by chain) is converted to the record the C03 model
   consumes (roots as map values, field order of MerkleRootChain); the RMN remote config of the destination is taken
   through [cfg_of] (the C04 correspondence runs with RMN disabled: [fun _ => cfg_empty]). *)
Require Import Verif.Model.Base Verif.Model.Consensus Verif.Model.CommitConsensus.
Require Verif.Model.CommitSM.

Definition conv_root (v : root_t) : CommitSM.root := let '(c, a, (s, e), r) := v in (c, (s, e), a, r).

Definition conv_cons (cfg_of : cons -> CommitSM.rmn_cfg) (c : cons) : CommitSM.cons :=
  CommitSM.mkCons (map (fun kv => conv_root (snd kv)) (c_roots c)) (c_onramp c) (c_offramp c) (cfg_of c).

(* None = getConsensusObservation returned an error; [gc] = the consensus function (the repaired one, or the one
   before fixes/F26.patch for the refutation theorem) *)
Definition round_cons_with (gc : Z -> N -> list aobs -> res cons)
           (cfg_of : cons -> CommitSM.rmn_cfg) (F : Z) (dest : N) (aos : list aobs) : option CommitSM.cons :=
  match gc F dest aos with Ok c => Some (conv_cons cfg_of c) | _ => None end.
Definition round_cons := round_cons_with get_consensus.

(* a round as the processor sees it: the leader's query and the validated attributed observations *)
Definition round := (CommitSM.query * list aobs)%type.

Definition to_round_in (cfg_of : cons -> CommitSM.rmn_cfg) (F : Z) (dest : N) (r : round) : CommitSM.round_in :=
  (fst r, round_cons cfg_of F dest (snd r)).
Definition sys_rounds (cfg_of : cons -> CommitSM.rmn_cfg) (F : Z) (dest : N) (rs : list round) : list CommitSM.round_in :=
  map (to_round_in cfg_of F dest) rs.

Definition sys_step (cfg_of : cons -> CommitSM.rmn_cfg) (F : Z) (dest max n : N) (prev : CommitSM.outcome) (r : round)
  : CommitSM.outcome := CommitSM.run_step max n prev (to_round_in cfg_of F dest r).
Definition sys_run (cfg_of : cons -> CommitSM.rmn_cfg) (F : Z) (dest max n : N) (prev : CommitSM.outcome) (rs : list round)
  : CommitSM.outcome := CommitSM.run max n prev (sys_rounds cfg_of F dest rs).

(* the same history function over the consensus computation as it was before fixes/F26.patch *)
Definition sys_run_unfixed (cfg_of : cons -> CommitSM.rmn_cfg) (F : Z) (dest max n : N) (prev : CommitSM.outcome)
           (rs : list round) : CommitSM.outcome :=
  CommitSM.run max n prev (map (fun r : round => (fst r, round_cons_with get_consensus_unfixed cfg_of F dest (snd r))) rs).

(* CommitRmnGate.v — model of the RMN gates of the commit plugin:
     commit/merkleroot/observation.go:Observation / initializeRMNController / verifyQuery / shouldSkipRMNVerification
                                                                                   (verify_args, observation)
     commit/report.go:Reports (the merkle-root part)                                (report_of)
     commit/report.go:ShouldAcceptAttestedReport                                    (Transmit.commit_should_accept)
   buildReport (the signed-root filter) is in CommitSM.v. The signature check itself (RMNCrypto) is an oracle. *)
Require Import Verif.Model.Base Verif.Model.SeqRange Verif.Model.CommitMerkle Verif.Model.CommitSM
               Verif.Model.Transmit.

(* the parts of the previous outcome's RMNRemoteCfg that verifyQuery uses *)
Record cfg_detail := mkDetail {
  cd_signers : list N;        (* OnchainPublicKey of every signer, in config order *)
  cd_contract : N;            (* ContractAddress *)
  cd_digest : N;              (* ConfigDigest *)
  cd_version : N              (* RmnReportVersion *)
}.

(* the RMNReport handed to RMNCrypto.VerifyReportSignatures: version digest, destination selector, RMN remote
   contract address, off-ramp address, RMN home config digest, lane updates (the chain id is a function of the
   selector) *)
Definition rmn_report := (N * N * N * N * N * list root)%type.
(* one call of VerifyReportSignatures: signatures, report, signer addresses *)
Definition verify_call := (list N * rmn_report * list N)%type.

(* Observation up to the signature check. Result: Ok None = no verification needed, Ok (Some call) = the crypto
   oracle is asked this, Err = observation refused.
   enabled: offchainCfg.RMNEnabled; st: state of the round; cfg_e: previous outcome's RMNRemoteCfg.IsEmpty();
   init: 0 = controller already initialised with this digest, 1 = initialisation succeeds, 2 = fails;
   chain_known: chainsel.ChainBySelector(dest) exists; offramp: GetContractAddress(OffRamp, dest), None = error *)
Definition verify_args (enabled : bool) (st : state) (cfg_e : bool) (d : cfg_detail) (dest : N)
           (init : N) (chain_known : bool) (offramp : option N) (q : query) : res (option verify_call) :=
  (* initializeRMNController *)
  if enabled && negb cfg_e && N.eqb init 2 then Err
  else if negb enabled then Ok None
  else
    let building := state_eqb st Building in
    (* shouldSkipRMNVerification, in its order *)
    match q_sigs q with
    | None =>
        if negb building then Ok None
        else if q_retry q then Ok None
        else Err                                  (* signatures required in the building round *)
    | Some b =>
        if building && q_retry q then Ok None
        else if building && cfg_e then Err
        else if negb building then Err            (* signatures not expected in this state *)
        else if negb chain_known then Err
        else match offramp with
             | None => Err
             | Some off =>
                 match parse_sigs (b_sigs b) with
                 | None => Err
                 | Some sigs =>
                     if cfg_e then Err
                     else match parse_lanes (b_lanes b) with
                          | None => Err
                          | Some lanes =>
                              Ok (Some (sigs, (cd_version d, dest, cd_contract d, off, cd_digest d, lanes), cd_signers d))
                          end
                 end
             end
    end.

Section Crypto.
  Variable verify_sigs : verify_call -> bool.      (* RMNCrypto.VerifyReportSignatures returned nil *)

  (* Processor.Observation returns an observation (Ok tt) or an error *)
  Definition observation (enabled : bool) (st : state) (cfg_e : bool) (d : cfg_detail) (dest : N)
             (init : N) (chain_known : bool) (offramp : option N) (q : query) : res unit :=
    match verify_args enabled st cfg_e d dest init chain_known offramp q with
    | Ok None => Ok tt
    | Ok (Some call) => if verify_sigs call then Ok tt else Err
    | Err => Err
    | Panic => Panic
    | Spin => Spin
    end.
End Crypto.

(* ---------- Plugin.Reports, merkle-root part: what goes into the report and its info ----------
   tp, gp: number of token / gas price updates of the other processors. None = empty report, nothing emitted. *)
Definition report_of (o : outcome) (tp gp : N) : option (list root * list N * N) :=
  match o_roots o, o_sigs o with
  | [], [] => if N.eqb tp 0 && N.eqb gp 0 then None else Some ([], [], if Z.eqb (o_type o) T_generated then snd (o_cfg o) else 0%N)
  | roots, sigs => Some (roots, sigs, if Z.eqb (o_type o) T_generated then snd (o_cfg o) else 0%N)
  end.

(* ShouldAcceptAttestedReport before fixes/F28.patch: LtFPlusOne(int(RemoteF), len(sigs)) with Go int (64 bit)
   conversion and int addition: the threshold f+1 wraps for RemoteF >= 2^63-1 *)
Definition to_int64 (x : Z) : Z := ((x + 9223372036854775808) mod 18446744073709551616 - 9223372036854775808)%Z.
Definition lt_f_plus_one_int (remoteF sigs : N) : bool :=
  Z.ltb (Z.of_N sigs) (to_int64 (to_int64 (Z.of_N remoteF) + 1)).
Definition rmn_gate_rejects_unfixed (rmn_enabled : bool) (roots sigs remoteF : N) : bool :=
  rmn_enabled && negb (N.eqb roots 0) && lt_f_plus_one_int remoteF sigs.
(* after the patch: uint64(len(sigs)) <= RemoteF, which is Transmit.commit_should_accept's N.ltb sigs (remoteF+1) *)
Definition rmn_gate_rejects (rmn_enabled : bool) (roots sigs remoteF : N) : bool :=
  rmn_enabled && negb (N.eqb roots 0) && N.ltb sigs (remoteF + 1).

(* CommitRmnGate.v — model of the RMN gates of the commit plugin:
     commit/merkleroot/observation.go:Observation / initializeRMNController / verifyQuery / shouldSkipRMNVerification
                                                                                   (verify_args, observation)
     commit/report.go:Reports (the merkle-root part)                                (report_of)
     commit/report.go:ShouldAcceptAttestedReport                                    (Transmit.commit_should_accept)
   buildReport (the signed-root filter) is in CommitSM.v. The signature check itself (RMNCrypto) is an oracle. *)
Require Import Verif.Model.Base Verif.Model.SeqRange Verif.Model.CommitMerkle Verif.Model.CommitSM
               Verif.Model.Transmit.

(* the parts of the previous outcome's RMNRemoteCfg that verifyQuery uses *)
Record cfg_detail := mkDetail {
  cd_signers : list N;        (* OnchainPublicKey of every signer, in config order *)
  cd_contract : N;            (* ContractAddress *)
  cd_digest : N;              (* ConfigDigest *)
  cd_version : N              (* RmnReportVersion *)
}.

(* the RMNReport handed to RMNCrypto.VerifyReportSignatures: version digest, destination selector, RMN remote
   contract address, off-ramp address, RMN home config digest, lane updates (the chain id is a function of the
   selector) *)
Definition rmn_report := (N * N * N * N * N * list root)%type.
(* one call of VerifyReportSignatures: signatures, report, signer addresses *)
Definition verify_call := (list N * rmn_report * list N)%type.

(* Observation up to the signature check. Result: Ok None = no verification needed, Ok (Some call) = the crypto
   oracle is asked this, Err = observation refused.
   enabled: offchainCfg.RMNEnabled; st: state of the round; cfg_e: previous outcome's RMNRemoteCfg.IsEmpty();
   init: 0 = controller already initialised with this digest, 1 = initialisation succeeds, 2 = fails;
   chain_known: chainsel.ChainBySelector(dest) exists; offramp: GetContractAddress(OffRamp, dest), None = error *)
Definition verify_args (enabled : bool) (st : state) (cfg_e : bool) (d : cfg_detail) (dest : N)
           (init : N) (chain_known : bool) (offramp : option N) (q : query) : res (option verify_call) :=
  (* initializeRMNController *)
  if enabled && negb cfg_e && N.eqb init 2 then Err
  else if negb enabled then Ok None
  else
    let building := state_eqb st Building in
    (* shouldSkipRMNVerification, in its order *)
    match q_sigs q with
    | None =>
        if negb building then Ok None
        else if q_retry q then Ok None
        else Err                                  (* signatures required in the building round *)
    | Some b =>
        if building && q_retry q then Ok None
        else if building && cfg_e then Err
        else if negb building then Err            (* signatures not expected in this state *)
        else if negb chain_known then Err
        else match offramp with
             | None => Err
             | Some off =>
                 match parse_sigs (b_sigs b) with
                 | None => Err
                 | Some sigs =>
                     if cfg_e then Err
                     else match parse_lanes (b_lanes b) with
                          | None => Err
                          | Some lanes =>
                              Ok (Some (sigs, (cd_version d, dest, cd_contract d, off, cd_digest d, lanes), cd_signers d))
                          end
                 end
             end
    end.

Section Crypto.
  Variable verify_sigs : verify_call -> bool.      (* RMNCrypto.VerifyReportSignatures returned nil *)

  (* Processor.Observation returns an observation (Ok tt) or an error *)
  Definition observation (enabled : bool) (st : state) (cfg_e : bool) (d : cfg_detail) (dest : N)
             (init : N) (chain_known : bool) (offramp : option N) (q : query) : res unit :=
    match verify_args enabled st cfg_e d dest init chain_known offramp q with
    | Ok None => Ok tt
    | Ok (Some call) => if verify_sigs call then Ok tt else Err
    | Err => Err
    | Panic => Panic
    | Spin => Spin
    end.
End Crypto.

(* ---------- Plugin.Reports, merkle-root part: what goes into the report and its info ----------
   tp, gp: number of token / gas price updates of the other processors. None = empty report, nothing emitted. *)
Definition report_of (o : outcome) (tp gp : N) : option (list root * list N * N) :=
  match o_roots o, o_sigs o with
  | [], [] => if N.eqb tp 0 && N.eqb gp 0 then None else Some ([], [], if Z.eqb (o_type o) T_generated then snd (o_cfg o) else 0%N)
  | roots, sigs => Some (roots, sigs, if Z.eqb (o_type o) T_generated then snd (o_cfg o) else 0%N)
  end.

(* ShouldAcceptAttestedReport before fixes/F28.patch: LtFPlusOne(int(RemoteF), len(sigs)) with Go int (64 bit)
   conversion and int addition: the threshold f+1 wraps for RemoteF >= 2^63-1 *)
Definition to_int64 (x : Z) : Z := ((x + 9223372036854775808) mod 18446744073709551616 - 9223372036854775808)%Z.
Definition lt_f_plus_one_int (remoteF sigs : N) : bool :=
  Z.ltb (Z.of_N sigs) (to_int64 (to_int64 (Z.of_N remoteF) + 1)).
Definition rmn_gate_rejects_unfixed (rmn_enabled : bool) (roots sigs remoteF : N) : bool :=
  rmn_enabled && negb (N.eqb roots 0) && lt_f_plus_one_int remoteF sigs.
(* after the patch: uint64(len(sigs)) <= RemoteF, which is Transmit.commit_should_accept's N.ltb sigs (remoteF+1) *)
Definition rmn_gate_rejects (rmn_enabled : bool) (roots sigs remoteF : N) : bool :=
  rmn_enabled && negb (N.eqb roots 0) && N.ltb sigs (remoteF + 1).

(* ====================================================================================================
   The processor chain of one round: Query (leader) -> Observation (every oracle) -> ValidateObservation ->
   Outcome.  commit/merkleroot/query.go:Query, observation.go:getObservation, validate_observation.go (retry rule)
   ==================================================================================================== *)

(* what the scripted RMN controller answers to ComputeReportSignatures *)
Inductive ctrl_ans := CtrlSigs (b : bundle) | CtrlTimeout | CtrlErr.
(* one FixedDestLaneUpdateRequest: source chain, on-ramp address, MinMsgNr, MaxMsgNr *)
Definition lane_req := (N * N * N * N)%type.

(* the requests are built from the previous outcome's RangesSelectedForReport, in order, with the on-ramp address
   bound for each chain; an address lookup error aborts before the controller is asked *)
Fixpoint query_requests (ranges : list chain_range) (onramp : N -> option N) : option (list lane_req) :=
  match ranges with
  | [] => Some []
  | (k, (s, e)) :: rs =>
      match onramp k with
      | None => None
      | Some a => match query_requests rs onramp with Some l => Some ((k, a, s, e) :: l) | None => None end
      end
  end.

(* Processor.Query: the query, and the request handed to the controller if it was asked *)
Definition query_model (enabled : bool) (st : state) (cfg_e : bool) (init : N) (offramp : option N)
           (ranges : list chain_range) (onramp : N -> option N) (ctrl : ctrl_ans)
  : res query * option (list lane_req) :=
  if negb enabled then (Ok (mkQuery false None), None)
  else if negb (state_eqb st Building) then (Ok (mkQuery false None), None)
  else if cfg_e then (Err, None)
  else if N.eqb init 2 then (Err, None)
  else match offramp with
       | None => (Err, None)
       | Some _ =>
           match query_requests ranges onramp with
           | None => (Err, None)
           | Some reqs =>
               match ctrl with
               | CtrlSigs b => (Ok (mkQuery false (Some b)), Some reqs)
               | CtrlTimeout => (Ok (mkQuery true None), Some reqs)      (* rmn.ErrTimeout -> retry next round *)
               | CtrlErr => (Err, Some reqs)
               end
           end
       end.

(* a merkle-root processor observation as far as its content matters here *)
Record obs := mkObs {
  ob_roots : list root; ob_on : list seq_chain; ob_off : list seq_chain; ob_cfg : rmn_cfg;
  ob_f : bool                      (* FChain non-empty *)
}.
Definition obs_empty : obs := mkObs [] [] [] cfg_empty false.
Definition obs_is_empty (o : obs) : bool :=
  match ob_roots o, ob_on o, ob_off o with
  | [], [], [] => cfg_is_empty (ob_cfg o) && negb (ob_f o)
  | _, _, _ => false
  end.

(* what the observer returns when asked: merkle roots for the PREVIOUS OUTCOME'S selected ranges, on-ramp latest,
   off-ramp next, RMN remote config, fChain *)
Record world := mkWorld {
  w_roots : list root; w_on : list seq_chain; w_off : list seq_chain; w_cfg : rmn_cfg; w_f : bool
}.

(* getObservation *)
Definition get_observation (st : state) (q : query) (w : world) : obs :=
  match st with
  | Selecting => mkObs [] (w_on w) (w_off w) (w_cfg w) (w_f w)
  | Building => if q_retry q then obs_empty else mkObs (w_roots w) [] [] cfg_empty (w_f w)
  | Waiting => mkObs [] [] (w_off w) cfg_empty (w_f w)
  end.

Section CryptoFull.
  Variable verify_sigs : verify_call -> bool.
  (* Processor.Observation: result and the observation value returned with it (commit.Plugin.Observation logs an error
     and encodes the returned value all the same, so the value returned next to an error matters: it is empty) *)
  Definition observation_full (enabled : bool) (st : state) (cfg_e : bool) (d : cfg_detail) (dest : N)
             (init : N) (chain_known : bool) (offramp : option N) (q : query) (w : world) : res unit * obs :=
    match observation verify_sigs enabled st cfg_e d dest init chain_known offramp q with
    | Ok tt => (Ok tt, get_observation st q w)
    | r => (r, obs_empty)
    end.
End CryptoFull.

(* ValidateObservation, the rule that depends on the query: in an announced retry only empty observations are valid
   (the role checks on the content are property C11/C12) *)
Definition validate_retry (q : query) (o : obs) : bool := negb (q_retry q && negb (obs_is_empty o)).

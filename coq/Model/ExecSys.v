(* ExecSys.v — the execute plugin as ONE system: a whole OCR round of one DON
   (execute/outcome.go: Plugin.Outcome, getCommitReportsOutcome, getMessagesOutcome, observedSeqNumsInRange,
   getFilterOutcome; execute/plugin_functions.go: getConsensusObservation; execute/exectypes/outcome.go: NewOutcome,
   IsEmpty) composed from the function-level models:
     ExecMerge   validation and the five f+1 merges           (C07)
     ExecReport  selectReport + the report builder             (C08)
     PanicSites  state decoding + PluginState.Next, the per-report loop of getMessagesOutcome   (C13)
   and the three-round cycle / any history of rounds as a fold.  No proofs in this file.

   Items.  The merges identify an item by sha3 of its "%v" rendering; MinObservation.GetValid returns the valid items
   in ascending order of that id.  An observed commit report / message therefore carries [key] = that id (the harness
   passes its first eight bytes), next to the fields the rest of the code looks at.  [to_obs] projects an observation
   to the item types of ExecMerge (key, source chain, root, interval, executed list / key, sequence number, message id), the merges
   of ExecMerge run on the projection and the merged items are taken back from the observations (first item with that
   projection: MinObservation keeps the first data it was given for an id).
   Timestamps: only the order matters (getCommitReportsOutcome sorts by Timestamp): [xc_ts].
   Not modelled: contract discovery (the harness runs it; its observations are empty), the nil outcome of a plugin
   whose contracts are not initialised (NewPlugin sets contractsInitialized in every Outcome call before it is read). *)
Require Import Verif.Model.Base Verif.Model.Consensus Verif.Model.Merkle Verif.Model.ExecReport.
Require Verif.Model.ExecMerge Verif.Model.PanicSites.
Module EM := Verif.Model.ExecMerge.
Module PS := Verif.Model.PanicSites.

(* ---------- observations with full items ---------- *)
Record xmsg := mkXM { xm_key : N; xm_msg : msg }.
Record xcommit := mkXC { xc_key : N; xc_ts : N; xc_cd : cdata }.
Record sobs := mkSO {
  so_commits : list (N * list xcommit);            (* CommitReports: chain key -> reports *)
  so_msgs : list (N * list (N * xmsg));            (* Messages: chain key -> seq key -> message *)
  so_tokens : list (N * list (N * list EM.tok));   (* TokenData: chain key -> seq key -> slots *)
  so_costly : list N;                              (* CostlyMessages *)
  so_nonces : list (N * list (N * N))              (* Nonces: chain -> sender -> nonce *)
}.
Definition sao := (N * sobs)%type.                 (* (oracle, observation) *)

Definition to_commit (x : xcommit) : EM.commit :=
  EM.mkCommit (xc_key x) (c_src (xc_cd x)) (c_root (xc_cd x)) (c_start (xc_cd x)) (c_end (xc_cd x)) (c_exec (xc_cd x)).
Definition to_msg (x : xmsg) : EM.msg := EM.mkMsg (xm_key x) (m_seq (xm_msg x)) (m_id (xm_msg x)).
Definition to_obs (o : sobs) : EM.obs :=
  EM.mkObs (map (fun kl => (fst kl, map to_commit (snd kl))) (so_commits o))
           (map (fun kl => (fst kl, map (fun sm => (fst sm, to_msg (snd sm))) (snd kl))) (so_msgs o))
           (so_tokens o) (so_costly o) (so_nonces o).
Definition to_aos (aos : list sao) : list EM.ao := map (fun a => (fst a, to_obs (snd a))) aos.

(* every full item filed under chain key k, in the order the validators are fed *)
Definition xcommits_at (k : N) (aos : list sao) : list xcommit :=
  flat_map (fun a => EM.entries k (so_commits (snd a))) aos.
Definition xmsgs_at (k : N) (aos : list sao) : list xmsg :=
  flat_map (fun a => map snd (EM.entries k (so_msgs (snd a)))) aos.
Definition rich_commit (k : N) (aos : list sao) (c : EM.commit) : list xcommit :=
  match find (fun x => EM.commit_eqb (to_commit x) c) (xcommits_at k aos) with Some x => [x] | None => [] end.
Definition rich_msg (k : N) (aos : list sao) (m : EM.msg) : list xmsg :=
  match find (fun x => EM.msg_eqb (to_msg x) m) (xmsgs_at k aos) with Some x => [x] | None => [] end.

(* GetValid order: ascending id *)
Definition by_ckey (l : list xcommit) : list xcommit := sort_by (fun a b => N.leb (xc_key a) (xc_key b)) l.
Definition by_mkey (l : list xmsg) : list xmsg := sort_by (fun a b => N.leb (xm_key a) (xm_key b)) l.

(* the consensus observation with full items *)
Record xmerged := mkXG {
  xg_commits : list (N * list xcommit);            (* chain key -> valid reports, GetValid order *)
  xg_msgs : list (N * list xmsg);                  (* chain key -> valid messages, GetValid order *)
  xg_tokens : list (N * list (N * list EM.tok));
  xg_costly : list N;
  xg_nonces : list EM.nonce_t
}.
Definition rich (g : EM.merged) (aos : list sao) : xmerged :=
  mkXG (map (fun kl => (fst kl, by_ckey (flat_map (rich_commit (fst kl) aos) (snd kl)))) (EM.g_commits g))
       (map (fun kl => (fst kl, by_mkey (flat_map (rich_msg (fst kl) aos) (snd kl)))) (EM.g_msgs g))
       (EM.g_tokens g) (EM.g_costly g) (EM.g_nonces g).
Definition x_consensus (bigF : Z) (dest : N) (fchain : list (N * Z)) (aos : list sao) : res xmerged :=
  rbind (EM.get_consensus bigF dest fchain (to_aos aos)) (fun g => Ok (rich g aos)).
(* before the repair of F75: commit reports agreed at the f of the chain key they are filed under *)
Definition x_consensus_unfixed (bigF : Z) (dest : N) (fchain : list (N * Z)) (aos : list sao) : res xmerged :=
  rbind (EM.get_consensus_unfixed bigF dest fchain (to_aos aos)) (fun g => Ok (rich g aos)).

(* ---------- outcomes ---------- *)
(* states as in PanicSites: 0 Unknown, 1 Initialized, 2 GetCommitReports, 3 GetMessages, 4 Filter *)
Record outcome := mkOut {
  o_state : N;
  o_pending : list cdata;       (* PendingCommitReports *)
  o_report : list creport       (* Report.ChainReports *)
}.
Definition out_init : outcome := mkOut 0 [] [].

(* exectypes.NewOutcome: both lists stably sorted *)
Definition cd_le (a b : cdata) : bool :=
  if N.eqb (c_src a) (c_src b) then N.leb (c_start a) (c_start b) else N.ltb (c_src a) (c_src b).
Definition new_outcome (st : N) (pend : list cdata) (reps : list creport) : outcome :=
  mkOut st (sort_by cd_le pend) (sort_by (fun a b => N.leb (r_src a) (r_src b)) reps).
Definition is_empty (o : outcome) : bool :=
  match o_pending o, o_report o with [], [] => true | _, _ => false end.

(* ---- dropConflictingReports (repair of F76): an agreed report is dropped when ANOTHER agreed report of the same source
   chain has the same root or an overlapping interval.  Every report conflicts with itself, so "another one at a
   different position" is "two or more conflicting entries in the list". ---- *)
Definition conflicts (a b : cdata) : bool :=
  N.eqb (c_src a) (c_src b) &&
  (N.eqb (c_root a) (c_root b) || (N.leb (c_start a) (c_end b) && N.leb (c_start b) (c_end a))).
Definition conflict_count (a : xcommit) (l : list xcommit) : nat :=
  length (filter (fun b => conflicts (xc_cd a) (xc_cd b)) l).
Definition drop_conflicting (l : list xcommit) : list xcommit :=
  filter (fun a => Nat.leb (conflict_count a l) 1) l.

(* ---- getCommitReportsOutcome: chains ascending, per chain in GetValid order, conflicting reports dropped, then stably
   by timestamp ---- *)
Definition commit_reports_outcome (m : xmerged) : outcome :=
  let flat := flat_map snd (sort_by (fun a b => N.leb (fst a) (fst b)) (xg_commits m)) in
  let byts := sort_by (fun a b => N.leb (xc_ts a) (xc_ts b)) (drop_conflicting flat) in
  new_outcome 2 (map xc_cd byts) [].
(* before the repair of F76 *)
Definition commit_reports_outcome_unfixed (m : xmerged) : outcome :=
  let flat := flat_map snd (sort_by (fun a b => N.leb (fst a) (fst b)) (xg_commits m)) in
  let byts := sort_by (fun a b => N.leb (xc_ts a) (xc_ts b)) flat in
  new_outcome 2 (map xc_cd byts) [].

(* ---- getMessagesOutcome ---- *)
(* observation.Messages[chain]: the valid messages written into a map keyed by Header.SequenceNumber in GetValid
   order, so the last one with a sequence number stays *)
Definition chain_msgs (m : xmerged) (k : N) : list xmsg := EM.entries k (xg_msgs m).
Definition msg_at (m : xmerged) (k s : N) : option xmsg :=
  find (fun x => N.eqb (m_seq (xm_msg x)) s) (rev (chain_msgs m k)).
Definition chain_toks (m : xmerged) (k : N) : list (N * list EM.tok) :=
  match alookup k (xg_tokens m) with Some l => l | None => [] end.
Definition tok_at (m : xmerged) (k s : N) : option (list EM.tok) := alookup s (chain_toks m k).
Definition to_td (l : list EM.tok) : tokdata := map (fun t => (EM.t_ready t, EM.t_data t)) l.

(* observedSeqNumsInRange: the sequence numbers of the report's range with a message or token data, ascending *)
Definition observed_keys (m : xmerged) (k : N) : list N :=
  EM.dedupN (map (fun x => m_seq (xm_msg x)) (chain_msgs m k) ++ map fst (chain_toks m k)).
Definition enrich (m : xmerged) (cd : cdata) : res cdata :=
  let k := c_src cd in
  rbind (PS.range_loop (observed_keys m k) (c_start cd) (c_end cd)) (fun seqs =>
  let msgs := flat_map (fun j => match msg_at m k j with Some x => [xm_msg x] | None => [] end) seqs in
  let costly := flat_map (fun x => if memN (m_id x) (xg_costly m) then [m_id x] else []) msgs in
  (* report.MessageTokenData is appended to, not reset *)
  let td := c_td cd ++ flat_map (fun j => match tok_at m k j with Some t => [to_td t] | None => [] end) seqs in
  Ok (mkCD (c_src cd) (c_root cd) (c_start cd) (c_end cd) (c_exec cd) msgs costly td)).
Fixpoint rmap {A B} (f : A -> res B) (l : list A) : res (list B) :=
  match l with
  | [] => Ok []
  | x :: l' => rbind (f x) (fun y => rbind (rmap f l') (fun r => Ok (y :: r)))
  end.
Definition messages_outcome (m : xmerged) (prev : outcome) : res outcome :=
  rbind (rmap (enrich m) (o_pending prev)) (fun cds => Ok (new_outcome 3 cds [])).

Section ExecSys.
  (* the oracles of the report builder (ExecReport) and the id order of nonce triples *)
  Variable hash : N -> N -> N.
  Variable zero : N.
  Variable leaf_hash : msg -> option N.
  Variable enc_size : creport -> option N.
  Variable tree_gas : N -> N.
  Variable max_size : N.                     (* maxReportLength *)
  Variable max_gas : N.                      (* offchainCfg.BatchGasLimit *)
  Variable nonce_key : EM.nonce_t -> N.      (* id of a NonceTriplet *)

  (* observation.Nonces: the valid triples written into map[source]map[sender] in GetValid order *)
  Definition nonce_map (ns : list EM.nonce_t) : nmap :=
    fold_left (fun acc t => nupdate (fst (fst t)) (snd (fst t)) (snd t) acc)
              (sort_by (fun a b => N.leb (nonce_key a) (nonce_key b)) ns) [].

  (* ---- getFilterOutcome: the builder gets the merged nonces; the report is built over the PREVIOUS outcome's
     pending reports ---- *)
  Definition filter_outcome (m : xmerged) (prev : outcome) : res outcome :=
    rbind (select_report hash zero leaf_hash enc_size tree_gas (nonce_map (xg_nonces m)) max_size max_gas
                         (o_pending prev))
          (fun x => Ok (new_outcome 4 (snd x) (fst x))).

  (* ---- Plugin.Outcome ---- *)
  Definition exec_round (bigF : Z) (dest : N) (fchain : list (N * Z)) (prev : outcome) (aos : list sao) : res outcome :=
    rbind (PS.exec_decode_state (o_state prev)) (fun s0 =>
    rbind (x_consensus bigF dest fchain aos) (fun m =>
    rbind (PS.exec_next s0) (fun st =>
    rbind (if N.eqb st 2 then Ok (commit_reports_outcome m)
           else if N.eqb st 3 then messages_outcome m prev
           else filter_outcome m prev) (fun o =>
    Ok (if is_empty o then mkOut 1 [] [] else o))))).

  (* Plugin.Outcome before the repairs of F75 (threshold of commit reports) and F76 (conflicting reports kept) *)
  Definition exec_round_unfixed (bigF : Z) (dest : N) (fchain : list (N * Z)) (prev : outcome) (aos : list sao) : res outcome :=
    rbind (PS.exec_decode_state (o_state prev)) (fun s0 =>
    rbind (x_consensus_unfixed bigF dest fchain aos) (fun m =>
    rbind (PS.exec_next s0) (fun st =>
    rbind (if N.eqb st 2 then Ok (commit_reports_outcome_unfixed m)
           else if N.eqb st 3 then messages_outcome m prev
           else filter_outcome m prev) (fun o =>
    Ok (if is_empty o then mkOut 1 [] [] else o))))).

  (* ---- histories: one entry per OCR round = (fChain of the home chain in that round, the attributed observations).
     A round whose Outcome fails commits nothing: the next round sees the same previous outcome. ---- *)
  Definition round_in := (list (N * Z) * list sao)%type.
  Definition exec_step (bigF : Z) (dest : N) (prev : outcome) (r : round_in) : outcome :=
    match exec_round bigF dest (fst r) prev (snd r) with Ok o => o | _ => prev end.
  Definition exec_run (bigF : Z) (dest : N) (prev : outcome) (rs : list round_in) : outcome :=
    fold_left (exec_step bigF dest) rs prev.
  Definition exec_run_unfixed (bigF : Z) (dest : N) (prev : outcome) (rs : list round_in) : outcome :=
    fold_left (fun o r => match exec_round_unfixed bigF dest (fst r) o (snd r) with Ok o' => o' | _ => o end) rs prev.
  (* what every round answered, and the observable: the reports of the Filter rounds *)
  Fixpoint exec_trace (bigF : Z) (dest : N) (prev : outcome) (rs : list round_in) : list (res outcome) :=
    match rs with
    | [] => []
    | r :: rs' => exec_round bigF dest (fst r) prev (snd r) :: exec_trace bigF dest (exec_step bigF dest prev r) rs'
    end.
  Definition exec_reports (bigF : Z) (dest : N) (prev : outcome) (rs : list round_in) : list (list creport) :=
    flat_map (fun r => match r with Ok o => if N.eqb (o_state o) 4 then [o_report o] else [] | _ => [] end)
             (exec_trace bigF dest prev rs).
End ExecSys.

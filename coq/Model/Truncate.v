(* Truncate.v — model of execute/plugin_functions.go: truncateObservation / truncateLastCommit / truncateChain /
   removeCostlyMessages (the code after the repair of F20) and of the two functions as they were before it
   ([_unfixed], with the delete-while-ranging slice surgery written out).

   Observation as far as truncation is concerned:
     commit reports  chain -> list of reports (a Go map; key presence and list order matter)
     messages        flat list of (chain key, sequence-number key, message id)   } nested Go maps flattened: an
     token data      flat list of (chain key, sequence-number key)               } empty inner map is not distinguished
     nonces          chain keys that have an entry                                } from an absent key
     costly ids      list (a Go slice, order kept)
   The encoded size is an arbitrary function [size] (Section variable): nothing is assumed of it.
   After the first iteration the chain to cut is the first key of a fresh maps.Keys call, i.e. Go map order: an
   arbitrary choice function [pick].  No proofs in this file. *)
Require Import Verif.Model.Base.

Record tcommit := mkTC { tc_id : N; tc_lo : N; tc_hi : N }.
Definition tmsg := (N * N * N)%type.       (* chain, seq, message id *)
Record tobs := mkTObs {
  t_commits : list (N * list tcommit);
  t_msgs : list tmsg;
  t_toks : list (N * N);
  t_costly : list N;
  t_nonces : list N
}.

Definition tkeys {V} (m : list (N * V)) : list N := map fst m.
(* m[k] = v for an existing key; delete(m, k) *)
Definition aset {V} (k : N) (v : V) (m : list (N * V)) : list (N * V) :=
  map (fun kv => if N.eqb (fst kv) k then (k, v) else kv) m.
Definition aremove {V} (k : N) (m : list (N * V)) : list (N * V) :=
  filter (fun kv => negb (N.eqb (fst kv) k)) m.

Definition in_range (d : tcommit) (s : N) : bool := N.leb (tc_lo d) s && N.leb s (tc_hi d).   (* SeqNumRange.Contains *)
Definition dummy : tcommit := mkTC 0 0 0.

(* removeCostlyMessages *)
Definition remove_costly (ids : list N) (costly : list N) : list N := filter (fun x => negb (memN x ids)) costly.

(* the messages of chain c that the report d covers *)
Definition hit (c : N) (d : tcommit) (m : tmsg) : bool := N.eqb (fst (fst m)) c && in_range d (snd (fst m)).

(* token data is deleted together with a deleted message, i.e. only under sequence numbers that have a message *)
Definition has_msg (msgs : list tmsg) (c s : N) : bool :=
  existsb (fun m => N.eqb (fst (fst m)) c && N.eqb (snd (fst m)) s) msgs.

Definition truncate_last_commit (o : tobs) (c : N) : tobs :=
  match alookup c (t_commits o) with
  | None | Some [] => o
  | Some l =>
      let lastc := last l dummy in
      mkTObs (aset c (removelast l) (t_commits o))
             (filter (fun m => negb (hit c lastc m)) (t_msgs o))
             (filter (fun t => negb (N.eqb (fst t) c && in_range lastc (snd t) && has_msg (t_msgs o) c (snd t))) (t_toks o))
             (remove_costly (map snd (filter (hit c lastc) (t_msgs o))) (t_costly o))
             (t_nonces o)
  end.

Definition truncate_chain (o : tobs) (c : N) : tobs :=
  match alookup c (t_commits o) with
  | None => o
  | Some _ =>
      mkTObs (aremove c (t_commits o))
             (filter (fun m => negb (N.eqb (fst (fst m)) c)) (t_msgs o))
             (filter (fun t => negb (N.eqb (fst t) c)) (t_toks o))
             (remove_costly (map snd (filter (fun m => N.eqb (fst (fst m)) c) (t_msgs o))) (t_costly o))
             (filter (fun k => negb (N.eqb k c)) (t_nonces o))
  end.

(* ---------- before the repair: `for i, x := range s { if p(x) { s = append(s[:i], s[i+1:]...) } }` ----------
   The range clause fixes the slice header (length L) once; every removal shifts the tail of the SAME backing
   array one place left and shortens the live slice; the loop keeps reading indexes 0..L-1 of the backing array.
   s[i+1:] panics when i+1 exceeds the live length.  [arr] = backing array (L cells), [len] = live length. *)
Fixpoint del_loop (p : N -> bool) (k : nat) (i : nat) (arr : list N) (len : nat) : res (list N) :=
  match k with
  | O => Ok (firstn len arr)
  | S k' =>
      if p (nth i arr 0%N) then
        if Nat.ltb len (S i) then Panic
        else del_loop p k' (S i) (firstn i arr ++ skipn (S i) (firstn len arr) ++ skipn (len - 1) arr) (len - 1)
      else del_loop p k' (S i) arr len
  end.
Definition del_while_ranging (p : N -> bool) (l : list N) : res (list N) := del_loop p (length l) 0 l (length l).

Definition truncate_chain_unfixed (o : tobs) (c : N) : res tobs :=
  match alookup c (t_commits o) with
  | None => Ok o
  | Some _ =>
      (* message ids of ALL chains are collected *)
      rbind (del_while_ranging (fun x => memN x (map snd (t_msgs o))) (t_costly o)) (fun costly =>
      Ok (mkTObs (aremove c (t_commits o))
                 (filter (fun m => negb (N.eqb (fst (fst m)) c)) (t_msgs o))
                 (filter (fun t => negb (N.eqb (fst t) c)) (t_toks o))
                 costly
                 (filter (fun k => negb (N.eqb k c)) (t_nonces o))))
  end.

Fixpoint del_each (ids : list N) (costly : list N) : res (list N) :=
  match ids with
  | [] => Ok costly
  | id :: ids' => rbind (del_while_ranging (N.eqb id) costly) (del_each ids')
  end.
Definition truncate_last_commit_unfixed (o : tobs) (c : N) : res tobs :=
  match alookup c (t_commits o) with
  | None | Some [] => Ok o
  | Some l =>
      let lastc := last l dummy in
      rbind (del_each (map snd (filter (hit c lastc) (t_msgs o))) (t_costly o)) (fun costly =>
      Ok (mkTObs (aset c (removelast l) (t_commits o))
                 (filter (fun m => negb (hit c lastc m)) (t_msgs o))
                 (filter (fun t => negb (N.eqb (fst t) c && in_range lastc (snd t) && has_msg (t_msgs o) c (snd t))) (t_toks o))
                 costly
                 (t_nonces o)))
  end.

(* ---------- the specification: everything is a function of the original observation and the commit
   reports that are left ---------- *)
Definition covered (ds : list tcommit) (s : N) : bool := existsb (fun d => in_range d s) ds.
(* an entry filed under (chain c, sequence number s) survives iff chain c never had commit reports, or it still
   has some and s lies in the range of none of the reports cut from its tail *)
Definition alive (cm0 cm : list (N * list tcommit)) (c s : N) : bool :=
  match alookup c cm0 with
  | None => true
  | Some l => match alookup c cm with
              | None => false
              | Some l' => negb (covered (skipn (length l') l) s)
              end
  end.
Definition chain_alive (cm0 cm : list (N * list tcommit)) (c : N) : bool :=
  match alookup c cm0 with
  | None => true
  | Some _ => match alookup c cm with None => false | Some _ => true end
  end.
Definition alive_msg cm0 cm (m : tmsg) : bool := alive cm0 cm (fst (fst m)) (snd (fst m)).
Definition project (o0 : tobs) (cm : list (N * list tcommit)) : tobs :=
  mkTObs cm
    (filter (alive_msg (t_commits o0) cm) (t_msgs o0))
    (filter (fun t => alive (t_commits o0) cm (fst t) (snd t)) (t_toks o0))
    (remove_costly (map snd (filter (fun m => negb (alive_msg (t_commits o0) cm m)) (t_msgs o0))) (t_costly o0))
    (filter (chain_alive (t_commits o0) cm) (t_nonces o0)).
(* every chain that is left keeps a prefix of its original report list *)
Definition prefixes (cm0 cm : list (N * list tcommit)) : Prop :=
  forall c l', alookup c cm = Some l' -> exists l, alookup c cm0 = Some l /\ l' = firstn (length l') l.
(* precondition of the token-data clause: the observation holds token data only for messages it holds (true of what
   getMessagesObservation builds: token data is observed for the observed messages) *)
Definition toks_have_msgs (o : tobs) : Prop :=
  forall t, In t (t_toks o) -> has_msg (t_msgs o) (fst t) (snd t) = true.
Definition consistent (o0 o : tobs) : Prop :=
  o = project o0 (t_commits o) /\ prefixes (t_commits o0) (t_commits o).

(* ---------- truncateObservation ---------- *)
Definition step (o : tobs) (c : N) : tobs :=
  match alookup c (t_commits o) with
  | Some l => if Nat.ltb 1 (length l) then truncate_last_commit o c else truncate_chain o c
  | None => truncate_chain o c     (* len(nil) = 0 *)
  end.
Definition step_unfixed (o : tobs) (c : N) : res tobs :=
  match alookup c (t_commits o) with
  | Some l => if Nat.ltb 1 (length l) then truncate_last_commit_unfixed o c else truncate_chain_unfixed o c
  | None => truncate_chain_unfixed o c
  end.

(* number of loop iterations that can still happen: each one removes a report or a chain key *)
Definition measure (o : tobs) : nat :=
  fold_right (fun kv n => (Nat.max 1 (length (snd kv)) + n)%nat) O (t_commits o).

Section Loop.
  Variable size : tobs -> N.                 (* len(observation.Encode()) *)
  Variable max : Z.                          (* maxSize (Go int) *)
  Variable pick : nat -> tobs -> N.          (* chains[0] of maps.Keys(...) in iteration n >= 1 *)
  Variable stepf : tobs -> N -> res tobs.

  Definition too_big (o : tobs) : bool := Z.ltb max (Z.of_N (size o)).

  (* the chain the for-range-break construct works on in iteration n *)
  Definition chain_for (n : nat) (o : tobs) : option N :=
    match tkeys (t_commits o) with
    | [] => None
    | ks => Some (if Nat.eqb n 0 then hd 0%N (sortN ks) else pick n o)
    end.

  Fixpoint loop (fuel : nat) (n : nat) (o : tobs) : res tobs :=
    if too_big o then
      match fuel with
      | O => Spin
      | S fuel' =>
          rbind (match chain_for n o with Some c => stepf o c | None => Ok o end) (fun o' =>
          match t_commits o' with
          | [] => Err                         (* "no more data to truncate" *)
          | _ => loop fuel' (S n) o'
          end)
      end
    else Ok o.
End Loop.

Definition truncate (size : tobs -> N) (max : Z) (pick : nat -> tobs -> N) (o : tobs) : res tobs :=
  loop size max pick (fun o c => Ok (step o c)) (S (measure o)) 0 o.
Definition truncate_unfixed (size : tobs -> N) (max : Z) (pick : nat -> tobs -> N) (o : tobs) : res tobs :=
  loop size max pick step_unfixed (S (measure o)) 0 o.

(* Codec.v — model of the wire encodings (C20).
   Text level: the custom JSON marshalers of pkg/types/ccipocr3/common_types.go (Bytes, UnknownAddress, Bytes32,
   BigInt), strconv.FormatUint / ParseUint as used for SeqNum / ChainSelector (plain numbers, `,string` fields, map
   keys), math/big's own JSON form.  Text = list of byte values (N), exactly the bytes handed to UnmarshalJSON.
   Structure level: a JSON syntax tree and generic encode / decode over a universe of Go type descriptors that
   follows encoding/json's rules (field names, null = no-op, unknown keys ignored, case-insensitive keys, later
   duplicate wins / merges, map keys sorted as strings).  The JSON text grammar (tokenising, string escapes) is
   Model/JsonText.v; float, time.Time and base64 leaves are opaque leaves kept as their token.
   Sorting level: Outcome.Sort of commit/merkleroot/types.go and newSortedOutcome of execute/exectypes/outcome.go. *)
Require Import Verif.Model.Base.

Notation text := (list N) (only parsing).

(* ---------- hex (encoding/hex) ---------- *)
Definition hexdigit (d : N) : N := if N.ltb d 10 then (48 + d)%N else (87 + d)%N.
Definition hexval (c : N) : option N :=
  if N.leb 48 c && N.leb c 57 then Some (c - 48)%N
  else if N.leb 97 c && N.leb c 102 then Some (c - 87)%N
  else if N.leb 65 c && N.leb c 70 then Some (c - 55)%N
  else None.
Fixpoint hex_enc (bs : list N) : text :=
  match bs with
  | [] => []
  | b :: r => hexdigit (b / 16) :: hexdigit (b mod 16) :: hex_enc r
  end.
(* hex.DecodeString: pairs of digits, either case; odd length or a non-digit is an error *)
Fixpoint hex_dec (s : text) : option (list N) :=
  match s with
  | [] => Some []
  | [_] => None
  | h :: l :: r =>
      match hexval h, hexval l, hex_dec r with
      | Some a, Some b, Some t => Some ((16 * a + b)%N :: t)
      | _, _, _ => None
      end
  end.

Definition quote : N := 34.
Definition pre0x : text := [48; 120]%N.
Definition null_tok : text := [110; 117; 108; 108]%N.
Definition text_eqb : text -> text -> bool := list_eqb N.eqb.
(* v[1 : len(v)-1] *)
Definition strip (v : text) : text := removelast (tl v).
Definition has0x (v : text) : bool :=
  match v with
  | a :: b :: _ => N.eqb a 48 && N.eqb b 120
  | _ => false
  end.

(* ---------- Bytes / UnknownAddress ---------- *)
(* value: None = nil slice, Some l = non-nil slice *)
Definition bytes_val := option (list N).
Definition bytes_content (b : bytes_val) : list N := match b with Some l => l | None => [] end.
(* Bytes.String *)
Definition bytes_string (b : bytes_val) : text := pre0x ++ hex_enc (bytes_content b).
(* Bytes.MarshalJSON *)
Definition bytes_enc (b : bytes_val) : text := quote :: bytes_string b ++ [quote].
(* NewBytesFromString; the result is always a non-nil slice *)
Definition bytes_from_string (s : text) : option (list N) :=
  if Nat.ltb (length s) 2 then None
  else if has0x s then hex_dec (skipn 2 s) else None.
(* Bytes.UnmarshalJSON on the raw token *)
Definition bytes_dec (tok : text) : option (list N) :=
  if Nat.ltb (length tok) 2 then None
  else let v := strip tok in
       if has0x v then hex_dec (skipn 2 v) else None.
Definition bytes_norm (b : bytes_val) : bytes_val := Some (bytes_content b).

(* ---------- Bytes32 ---------- *)
(* copy(dst, src): overwrite a prefix of dst, length of dst unchanged *)
Fixpoint copy_over (dst src : list N) : list N :=
  match dst, src with
  | [], _ => []
  | _ :: _, [] => dst
  | _ :: dr, s :: sr => s :: copy_over dr sr
  end.
Definition zero32 : list N := repeat 0%N 32.
Definition bytes32_string (b : list N) : text := pre0x ++ hex_enc b.
Definition bytes32_enc (b : list N) : text := quote :: bytes32_string b ++ [quote].
(* Bytes32.UnmarshalJSON: no prefix check; decodes v[1:len-1][2:]; copies over the previous content *)
Definition bytes32_dec (prev : list N) (tok : text) : option (list N) :=
  if Nat.ltb (length tok) 4 then None
  else match hex_dec (skipn 2 (strip tok)) with
       | Some bs => Some (copy_over prev bs)
       | None => None
       end.
(* NewBytes32FromString: prefix checked, fresh array *)
Definition bytes32_from_string (s : text) : option (list N) :=
  if Nat.ltb (length s) 2 then None
  else if has0x s then
    match hex_dec (skipn 2 s) with Some bs => Some (copy_over zero32 bs) | None => None end
  else None.

(* ---------- decimal numbers ---------- *)
Definition is_digit (c : N) : bool := N.leb 48 c && N.leb c 57.
Fixpoint digits_fuel (fuel : nat) (n : N) (acc : text) : text :=
  match fuel with
  | O => acc
  | S f => if N.ltb n 10 then (48 + n)%N :: acc
           else digits_fuel f (n / 10) ((48 + n mod 10)%N :: acc)
  end.
(* strconv.FormatUint(n, 10) = SeqNum.String; also big.Int.String of a non-negative value *)
Definition dec_enc (n : N) : text := digits_fuel (S (N.to_nat (N.log2 n))) n [].
Fixpoint parse_acc (a : N) (s : text) : option N :=
  match s with
  | [] => Some a
  | c :: r => if is_digit c then parse_acc (10 * a + (c - 48)) r else None
  end.
(* one or more decimal digits, leading zeros allowed *)
Definition parse_digits (s : text) : option N :=
  match s with [] => None | _ => parse_acc 0 s end.

(* strconv.ParseUint(s, 10, bits): no sign, leading zeros accepted, range checked.
   Used for map keys, for the content of `,string` fields and for number tokens stored into unsigned fields. *)
Definition uint_parse (maxv : N) (s : text) : option N :=
  match parse_digits s with
  | Some n => if N.leb n maxv then Some n else None
  | None => None
  end.
(* literalStore into an unsigned field: null leaves the value as it was *)
Definition uint_dec (maxv prev : N) (s : text) : option N :=
  if text_eqb s null_tok then Some prev else uint_parse maxv s.

(* strconv.ParseInt(s, 10, 64) / FormatInt *)
Definition int_enc (z : Z) : text :=
  (if Z.ltb z 0 then [45%N] else []) ++ dec_enc (Z.abs_N z).
Definition min_int64 : Z := (-9223372036854775808)%Z.
Definition max_int64 : Z := 9223372036854775807%Z.
Definition signed_parse (plus_ok : bool) (s : text) : option Z :=
  match s with
  | [] => None
  | c :: r =>
      if N.eqb c 45 then match parse_digits r with Some n => Some (- Z.of_N n)%Z | None => None end
      else if plus_ok && N.eqb c 43 then match parse_digits r with Some n => Some (Z.of_N n) | None => None end
      else match parse_digits s with Some n => Some (Z.of_N n) | None => None end
  end.
Definition int_parse (s : text) : option Z :=
  match signed_parse true s with
  | Some z => if Z.leb min_int64 z && Z.leb z max_int64 then Some z else None
  | None => None
  end.
Definition int_dec (prev : Z) (s : text) : option Z :=
  if text_eqb s null_tok then Some prev else int_parse s.

(* ---------- BigInt (custom marshaler: quoted decimal, nil = null) ---------- *)
Definition bigint_enc (b : option Z) : text :=
  match b with
  | None => null_tok
  | Some z => quote :: int_enc z ++ [quote]
  end.
(* BigInt.UnmarshalJSON on the raw token: "null" leaves the receiver untouched; otherwise first and last byte are
   dropped and big.Int.SetString(_, 10) decides (optional sign, digits, nothing else) *)
Definition bigint_dec (prev : option Z) (tok : text) : option (option Z) :=
  if text_eqb tok null_tok then Some prev
  else if Nat.ltb (length tok) 2 then None
  else match signed_parse true (strip tok) with
       | Some z => Some (Some z)
       | None => None
       end.

(* *big.Int with math/big's own marshaler (a JSON number).  Token must already be valid JSON (scanner), so the
   base-0 prefixes / underscores big.Int.SetString(_, 0) would accept cannot occur in it. *)
Definition bigptr_enc (b : option Z) : text :=
  match b with None => null_tok | Some z => int_enc z end.
Definition bigptr_dec (tok : text) : option (option Z) :=
  if text_eqb tok null_tok then Some None
  else match signed_parse false tok with Some z => Some (Some z) | None => None end.

(* ====================================================================================================== *)
(* ---------- structure level: JSON syntax tree, Go type descriptors, generic encode / decode ---------- *)
Inductive json :=
| JNull | JTrue | JFalse
| JNum (s : text)                 (* number literal, as written *)
| JStr (s : text)                 (* string content after unescaping (escapes: Model/JsonText.v) *)
| JArr (l : list json)
| JObj (l : list (text * json)).  (* members in textual order, duplicates possible *)

(* the raw token a custom UnmarshalJSON receives; only scalar tokens are modelled *)
Definition raw_tok (j : json) : option text :=
  match j with
  | JNull => Some null_tok
  | JTrue => Some [116; 114; 117; 101]%N
  | JFalse => Some [102; 97; 108; 115; 101]%N
  | JNum s => Some s
  | JStr s => Some (quote :: s ++ [quote])
  | _ => None
  end.

Inductive ty :=
| TUint (maxv : N)            (* unsigned kinds (uint8..uint64, uint, ChainSelector, SeqNum): JSON number *)
| TUintS (maxv : N)           (* the same with the `,string` option *)
| TInt                        (* int / int64 *)
| TBool
| TString                     (* string kinds *)
| TBytes                      (* Bytes, UnknownAddress *)
| TBytes32
| TBigInt                     (* ccipocr3.BigInt *)
| TBigPtr                     (* *big.Int, math/big's marshaler *)
| TOpaque (z : json)          (* time.Time, float64, Duration, []byte: leaf kept as its token; z = token of the zero value *)
| TSlice (e : ty)
| TArray (n : nat) (e : ty)
| TMap (kmax : option N) (e : ty)   (* Some maxv: unsigned key kind; None: string key kind *)
| TPtr (e : ty)
| TStruct (fs : list (text * ty)).

Inductive val :=
| VU (n : N) | VZ (z : Z) | VBool (b : bool) | VStr (s : text)
| VBytes (b : bytes_val) | VB32 (l : list N) | VBig (z : option Z)
| VOpq (j : json)
| VList (l : option (list val))            (* None = nil slice *)
| VArr (l : list val)
| VMap (m : option (list (text * val)))    (* None = nil map; keys in their JSON string form, ascending *)
| VPtr (p : option val)
| VRec (l : list val).

Fixpoint zero (t : ty) : val :=
  match t with
  | TUint _ | TUintS _ => VU 0
  | TInt => VZ 0
  | TBool => VBool false
  | TString => VStr []
  | TBytes => VBytes None
  | TBytes32 => VB32 zero32
  | TBigInt | TBigPtr => VBig None
  | TOpaque z => VOpq z
  | TSlice _ => VList None
  | TArray n e => VArr (repeat (zero e) n)
  | TMap _ _ => VMap None
  | TPtr _ => VPtr None
  | TStruct fs => VRec (map (fun f => zero (snd f)) fs)
  end.

(* bytewise string order (strings.Compare) *)
Fixpoint text_ltb (a b : text) : bool :=
  match a, b with
  | [], [] => false
  | [], _ :: _ => true
  | _ :: _, [] => false
  | x :: a', y :: b' => if N.ltb x y then true else if N.eqb x y then text_ltb a' b' else false
  end.

Fixpoint enc (t : ty) (v : val) {struct t} : json :=
  match t, v with
  | TUint _, VU n => JNum (dec_enc n)
  | TUintS _, VU n => JStr (dec_enc n)
  | TInt, VZ z => JNum (int_enc z)
  | TBool, VBool b => if b then JTrue else JFalse
  | TString, VStr s => JStr s
  | TBytes, VBytes b => JStr (bytes_string b)
  | TBytes32, VB32 l => JStr (bytes32_string l)
  | TBigInt, VBig None => JNull
  | TBigInt, VBig (Some z) => JStr (int_enc z)
  | TBigPtr, VBig None => JNull
  | TBigPtr, VBig (Some z) => JNum (int_enc z)
  | TOpaque _, VOpq j => j
  | TSlice e, VList None => JNull
  | TSlice e, VList (Some l) => JArr (map (enc e) l)
  | TArray _ e, VArr l => JArr (map (enc e) l)
  | TMap _ e, VMap None => JNull
  | TMap _ e, VMap (Some m) => JObj (map (fun kv => (fst kv, enc e (snd kv))) m)
  | TPtr e, VPtr None => JNull
  | TPtr e, VPtr (Some x) => enc e x
  | TStruct fs, VRec vs =>
      JObj ((fix go (fs : list (text * ty)) (vs : list val) : list (text * json) :=
               match fs, vs with
               | f :: fs', x :: vs' => (fst f, enc (snd f) x) :: go fs' vs'
               | _, _ => []
               end) fs vs)
  | _, _ => JNull
  end.

(* ASCII case folding of member names (encoding/json matches keys case-insensitively) *)
Definition lower (c : N) : N := if N.leb 65 c && N.leb c 90 then (c + 32)%N else c.
Definition key_match (name k : text) : bool := text_eqb (map lower name) (map lower k).

(* sorted association list on text keys: insert or replace *)
Fixpoint sinsert {V} (k : text) (v : V) (m : list (text * V)) : list (text * V) :=
  match m with
  | [] => [(k, v)]
  | (k', v') :: m' =>
      if text_ltb k k' then (k, v) :: m
      else if text_eqb k k' then (k, v) :: m'
      else (k', v') :: sinsert k v m'
  end.

Definition obind {A B} (o : option A) (f : A -> option B) : option B :=
  match o with Some a => f a | None => None end.

Definition is_container (j : json) : bool :=
  match j with JArr _ | JObj _ => true | _ => false end.

(* json.Unmarshal into a value that currently holds [prev].  None = Unmarshal returns an error. *)
Fixpoint dec (t : ty) (prev : val) (j : json) {struct t} : option val :=
  match t with
  | TUint m =>
      match j with
      | JNull => Some prev
      | JNum s => option_map VU (uint_parse m s)
      | _ => None
      end
  | TUintS m =>
      match j with
      | JNull => Some prev
      | JStr s => option_map VU (uint_dec m (match prev with VU p => p | _ => 0%N end) s)
      | _ => None
      end
  | TInt =>
      match j with
      | JNull => Some prev
      | JNum s => option_map VZ (int_parse s)
      | _ => None
      end
  | TBool =>
      match j with
      | JNull => Some prev
      | JTrue => Some (VBool true)
      | JFalse => Some (VBool false)
      | _ => None
      end
  | TString =>
      match j with
      | JNull => Some prev
      | JStr s => Some (VStr s)
      | _ => None
      end
  | TBytes =>
      obind (raw_tok j) (fun tok => option_map (fun l => VBytes (Some l)) (bytes_dec tok))
  | TBytes32 =>
      obind (raw_tok j) (fun tok =>
        option_map VB32 (bytes32_dec (match prev with VB32 p => p | _ => zero32 end) tok))
  | TBigInt =>
      obind (raw_tok j) (fun tok =>
        option_map VBig (bigint_dec (match prev with VBig p => p | _ => None end) tok))
  | TBigPtr =>
      match j with
      | JNull => Some (VBig None)
      | JNum s => option_map VBig (bigptr_dec s)
      | _ => None
      end
  | TOpaque _ =>
      match j with
      | JNull => Some prev
      | JArr _ | JObj _ => None
      | _ => Some (VOpq j)
      end
  | TSlice e =>
      match j with
      | JNull => Some (VList None)
      | JArr js =>
          let ps := match prev with VList (Some l) => l | _ => [] end in
          option_map (fun l => VList (Some l))
            ((fix go (js : list json) (ps : list val) : option (list val) :=
                match js with
                | [] => Some []
                | x :: js' =>
                    match dec e (match ps with p :: _ => p | [] => zero e end) x, go js' (tl ps) with
                    | Some v, Some r => Some (v :: r)
                    | _, _ => None
                    end
                end) js ps)
      | _ => None
      end
  | TArray n e =>
      match j with
      | JNull => Some prev
      | JArr js =>
          let ps := match prev with VArr l => l | _ => [] end in
          option_map VArr
            ((fix go (n : nat) (js : list json) (ps : list val) : option (list val) :=
                match n with
                | O => Some []
                | S n' =>
                    match js with
                    | [] => Some (repeat (zero e) n)
                    | x :: js' =>
                        match dec e (match ps with p :: _ => p | [] => zero e end) x, go n' js' (tl ps) with
                        | Some v, Some r => Some (v :: r)
                        | _, _ => None
                        end
                    end
                end) n js ps)
      | _ => None
      end
  | TMap km e =>
      match j with
      | JNull => Some (VMap None)
      | JObj kvs =>
          let m0 := match prev with VMap (Some m) => m | _ => [] end in
          option_map (fun m => VMap (Some m))
            (fold_left (fun acc kj =>
               match acc with
               | None => None
               | Some m =>
                   match (match km with
                          | Some maxv => option_map dec_enc (uint_parse maxv (fst kj))
                          | None => Some (fst kj)
                          end), dec e (zero e) (snd kj) with
                   | Some k, Some v => Some (sinsert k v m)
                   | _, _ => None
                   end
               end) kvs (Some m0))
      | _ => None
      end
  | TPtr e =>
      match j with
      | JNull => Some (VPtr None)
      | _ => option_map (fun x => VPtr (Some x))
               (dec e (match prev with VPtr (Some p) => p | _ => zero e end) j)
      end
  | TStruct fs =>
      match j with
      | JNull => Some prev
      | JObj kvs =>
          let ps := match prev with VRec l => l | _ => [] end in
          option_map VRec
            ((fix go (fs : list (text * ty)) (ps : list val) : option (list val) :=
                match fs with
                | [] => Some []
                | f :: fs' =>
                    match fold_left (fun acc kj =>
                            if key_match (fst f) (fst kj)
                            then match acc with Some p => dec (snd f) p (snd kj) | None => None end
                            else acc) kvs (Some (match ps with p :: _ => p | [] => zero (snd f) end)),
                          go fs' (tl ps) with
                    | Some v, Some r => Some (v :: r)
                    | _, _ => None
                    end
                end) fs ps)
      | _ => None
      end
  end.

(* what a decode of an honest encoding re-creates: everything, except that a nil Bytes comes back empty *)
Fixpoint norm (t : ty) (v : val) {struct t} : val :=
  match t, v with
  | TBytes, VBytes b => VBytes (bytes_norm b)
  | TSlice e, VList (Some l) => VList (Some (map (norm e) l))
  | TArray _ e, VArr l => VArr (map (norm e) l)
  | TMap _ e, VMap (Some m) => VMap (Some (map (fun kv => (fst kv, norm e (snd kv))) m))
  | TPtr e, VPtr (Some x) => VPtr (Some (norm e x))
  | TStruct fs, VRec vs =>
      VRec ((fix go (fs : list (text * ty)) (vs : list val) : list val :=
               match fs, vs with
               | f :: fs', x :: vs' => norm (snd f) x :: go fs' vs'
               | _, _ => []
               end) fs vs)
  | _, _ => v
  end.

Fixpoint strictly_asc_text (l : list text) : bool :=
  match l with
  | a :: ((b :: _) as r) => text_ltb a b && strictly_asc_text r
  | _ => true
  end.
Definition byte_list (l : list N) : bool := forallb (fun b => N.ltb b 256) l.
Definition scalar_token (z j : json) : bool :=
  match j with
  | JArr _ | JObj _ => false
  | JNull => match z with JNull => true | _ => false end
  | _ => true
  end.

(* well-typed values (ranges, lengths, canonical map representation) *)
Fixpoint wt (t : ty) (v : val) {struct t} : bool :=
  match t, v with
  | TUint m, VU n | TUintS m, VU n => N.leb n m
  | TInt, VZ z => Z.leb min_int64 z && Z.leb z max_int64
  | TBool, VBool _ => true
  | TString, VStr _ => true
  | TBytes, VBytes b => byte_list (bytes_content b)
  | TBytes32, VB32 l => Nat.eqb (length l) 32 && byte_list l
  | TBigInt, VBig _ | TBigPtr, VBig _ => true
  | TOpaque z, VOpq j => scalar_token z j
  | TSlice e, VList None => true
  | TSlice e, VList (Some l) => forallb (wt e) l
  | TArray n e, VArr l => Nat.eqb (length l) n && forallb (wt e) l
  | TMap km e, VMap None => true
  | TMap km e, VMap (Some m) =>
      strictly_asc_text (map fst m) &&
      forallb (fun kv =>
        match km with
        | Some maxv => match uint_parse maxv (fst kv) with
                       | Some k => text_eqb (dec_enc k) (fst kv)
                       | None => false
                       end
        | None => true
        end && wt e (snd kv)) m
  | TPtr e, VPtr None => true
  | TPtr e, VPtr (Some x) => wt e x && negb (match enc e x with JNull => true | _ => false end)
  | TStruct fs, VRec vs =>
      (fix go (fs : list (text * ty)) (vs : list val) : bool :=
         match fs, vs with
         | [], [] => true
         | f :: fs', x :: vs' => wt (snd f) x && go fs' vs'
         | _, _ => false
         end) fs vs
  | _, _ => false
  end.

(* type descriptors encoding/json treats unambiguously: member names distinct even after case folding *)
Fixpoint wf_ty (t : ty) : bool :=
  match t with
  | TSlice e | TArray _ e | TMap _ e | TPtr e => wf_ty e
  | TStruct fs =>
      nodupb text_eqb (map (fun f => map lower (fst f)) fs) &&
      (fix go (fs : list (text * ty)) : bool :=
         match fs with [] => true | f :: fs' => wf_ty (snd f) && go fs' end) fs
  | _ => true
  end.

(* ---------- boolean equality for case files ---------- *)
Fixpoint json_eqb (a b : json) {struct a} : bool :=
  match a, b with
  | JNull, JNull | JTrue, JTrue | JFalse, JFalse => true
  | JNum s, JNum s' | JStr s, JStr s' => text_eqb s s'
  | JArr l, JArr l' =>
      (fix go (l l' : list json) : bool :=
         match l, l' with
         | [], [] => true
         | x :: r, y :: r' => json_eqb x y && go r r'
         | _, _ => false
         end) l l'
  | JObj l, JObj l' =>
      (fix go (l l' : list (text * json)) : bool :=
         match l, l' with
         | [], [] => true
         | x :: r, y :: r' => text_eqb (fst x) (fst y) && json_eqb (snd x) (snd y) && go r r'
         | _, _ => false
         end) l l'
  | _, _ => false
  end.

Fixpoint val_eqb (a b : val) {struct a} : bool :=
  match a, b with
  | VU n, VU n' => N.eqb n n'
  | VZ z, VZ z' => Z.eqb z z'
  | VBool x, VBool y => Bool.eqb x y
  | VStr s, VStr s' => text_eqb s s'
  | VBytes x, VBytes y => option_eqb text_eqb x y
  | VB32 l, VB32 l' => text_eqb l l'
  | VBig x, VBig y => option_eqb Z.eqb x y
  | VOpq j, VOpq j' => json_eqb j j'
  | VList None, VList None => true
  | VList (Some l), VList (Some l') | VArr l, VArr l' | VRec l, VRec l' =>
      (fix go (l l' : list val) : bool :=
         match l, l' with
         | [], [] => true
         | x :: r, y :: r' => val_eqb x y && go r r'
         | _, _ => false
         end) l l'
  | VMap None, VMap None => true
  | VMap (Some m), VMap (Some m') =>
      (fix go (l l' : list (text * val)) : bool :=
         match l, l' with
         | [], [] => true
         | x :: r, y :: r' => text_eqb (fst x) (fst y) && val_eqb (snd x) (snd y) && go r r'
         | _, _ => false
         end) m m'
  | VPtr None, VPtr None => true
  | VPtr (Some x), VPtr (Some y) => val_eqb x y
  | _, _ => false
  end.

(* ====================================================================================================== *)
(* ---------- sorting level ---------- *)
(* merkleroot.Outcome.Sort: three lists, each ordered by chain selector (payload kept abstract) *)
Definition sort_by_chain {P} (l : list (N * P)) : list (N * P) :=
  sort_by (fun a b => N.leb (fst a) (fst b)) l.
Record mr_lists (P Q R : Type) := MrLists {
  mr_ranges : list (N * P); mr_roots : list (N * Q); mr_offramp : list (N * R) }.
Arguments MrLists {P Q R}.
Arguments mr_ranges {P Q R}.
Arguments mr_roots {P Q R}.
Arguments mr_offramp {P Q R}.
Definition mr_sort {P Q R} (o : mr_lists P Q R) : mr_lists P Q R :=
  MrLists (sort_by_chain (mr_ranges o)) (sort_by_chain (mr_roots o)) (sort_by_chain (mr_offramp o)).

(* exectypes.newSortedOutcome: pending commit data by (source chain, range start), chain reports by source chain.
   an item is (source, start, payload) *)
Definition cd_le {P} (a b : N * N * P) : bool :=
  if negb (N.eqb (fst (fst a)) (fst (fst b))) then N.leb (fst (fst a)) (fst (fst b))
  else N.leb (snd (fst a)) (snd (fst b)).
Definition exec_sort_commits {P} (l : list (N * N * P)) : list (N * N * P) := sort_by cd_le l.
Definition exec_sort_reports {P} (l : list (N * P)) : list (N * P) := sort_by_chain l.

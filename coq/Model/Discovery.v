(* Discovery.v — model of internal/plugincommon/discovery/processor.go: aggregateObservations and Outcome
   (the ContractAddresses handed to CCIPReader.Sync). Addresses are ids interned from their raw bytes;
   id 0 stands for every address for which isZero holds (nil, empty, all zero bytes). *)
Require Import Verif.Model.Base Verif.Model.Consensus Verif.Model.CommitConsensus.

(* dt.Observation: FChain and Addresses[contract] are Go maps (keys unique) *)
Record dobs := mkDobs {
  d_fchain_obs : list (N * Z);
  d_onramp : list (N * N);
  d_nonce : list (N * N);
  d_rmn : list (N * N);
  d_feeq : list (N * N);
  d_router : list (N * N) }.

Definition nonzero (m : list (N * N)) : list (N * N) := filter (fun kv => negb (N.eqb (snd kv) 0)) m.
(* nonce manager / RMN remote: only the entry under the destination chain is read *)
Definition only_dest (dest : N) (m : list (N * N)) : list (N * N) :=
  match alookup dest m with
  | Some a => if N.eqb a 0 then [] else [(dest, a)]
  | None => []
  end.

Definition onramp_dkv (o : dobs) := nonzero (d_onramp o).
Definition feeq_dkv (o : dobs) := nonzero (d_feeq o).
Definition router_dkv (o : dobs) := nonzero (d_router o).
Definition nonce_dkv (dest : N) (o : dobs) := only_dest dest (d_nonce o).
Definition rmn_dkv (dest : N) (o : dobs) := only_dest dest (d_rmn o).

Record dcons := mkDcons {
  dc_onramp : list (N * N);
  dc_nonce : list (N * N);
  dc_rmn : list (N * N);
  dc_feeq : list (N * N);
  dc_router : list (N * N) }.

Definition d_fchain_cons (F : Z) (aos : list (N * dobs)) : list (N * Z) :=
  consensus_map Z.eqb (fun _ : N => Some (two_f_plus_1 F)) (agg_map d_fchain_obs aos).

(* Outcome after the repair of F03: on-ramp consensus only when the destination's f is agreed *)
Definition discovery_outcome (F : Z) (dest : N) (aos : list (N * dobs)) : dcons :=
  let fch := d_fchain_cons F aos in
  let thr := thr_2f1 fch in
  mkDcons
    (match alookup dest fch with
     | None => []
     | Some fd => consensus_map N.eqb (fun _ : N => Some (two_f_plus_1 fd)) (agg_map onramp_dkv aos)
     end)
    (consensus_map N.eqb thr (agg_map (nonce_dkv dest) aos))
    (consensus_map N.eqb thr (agg_map (rmn_dkv dest) aos))
    (consensus_map N.eqb thr (agg_map feeq_dkv aos))
    (consensus_map N.eqb thr (agg_map router_dkv aos)).

(* the function before the repair: fChain[dest] of a Go map defaults to 0, threshold 2*0+1 = 1 *)
Definition discovery_outcome_unfixed (F : Z) (dest : N) (aos : list (N * dobs)) : dcons :=
  let fch := d_fchain_cons F aos in
  let thr := thr_2f1 fch in
  let fd := match alookup dest fch with Some f => f | None => 0%Z end in
  mkDcons
    (consensus_map N.eqb (fun _ : N => Some (two_f_plus_1 fd)) (agg_map onramp_dkv aos))
    (consensus_map N.eqb thr (agg_map (nonce_dkv dest) aos))
    (consensus_map N.eqb thr (agg_map (rmn_dkv dest) aos))
    (consensus_map N.eqb thr (agg_map feeq_dkv aos))
    (consensus_map N.eqb thr (agg_map router_dkv aos)).

(* ContractDiscoveryProcessor.ValidateObservation. A contract name is present in Addresses iff its map is non-empty
   in the generated observations; fee quoter / router entries need the entry's chain, the destination-side contracts
   (on-ramp, nonce manager, RMN remote) need the destination among the observer's supported chains. *)
Definition disc_validate (roles : roles_t) (known : list N) (dest : N) (ao : N * dobs) : bool :=
  let o := fst ao in
  let ob := snd ao in
  memN o known &&
  forallb (fun k => memN k (supported roles o)) (map fst (d_feeq ob) ++ map fst (d_router ob)) &&
  (match d_onramp ob ++ d_nonce ob ++ d_rmn ob with [] => true | _ => memN dest (supported roles o) end).

(* Prices.v — model of the price paths of the commit plugin:
   internal/libs/mathslib/calc.go (Deviates, CalculateUsdPerUnitGas), commit/chainfee/types.go (To/FromPackedFee,
   ChainFeeUpdateAggregator), consensus.TimestampedBigAggregator / Median, commit/chainfee/{validate_observation,outcome}.go,
   commit/tokenprice/{validate_observation,outcome,processor}.go.
   big.Int = Z; time.Time = Z (Unix nanoseconds), Duration = Z nanoseconds, After = "<" the other way round;
   nullable big integers = option Z (validation, after the repair of F09, rejects every None). *)
Require Import Verif.Model.Base Verif.Model.Consensus Verif.Model.CommitConsensus.

(* ---------- mathslib ---------- *)
(* big.Int.Div is Euclidean division (remainder in [0, |b|)) *)
Definition ediv (a b : Z) : Z := if Z.ltb 0 b then (a / b)%Z else (- (a / (- b)))%Z.

Definition ppb_unit : Z := 1000000000%Z.
Definition deviates (x1 x2 ppb : Z) : bool :=
  if Z.eqb x1 0 || Z.eqb x2 0 then negb (Z.eqb x1 x2)
  else
    let hi := if Z.ltb x1 x2 then x2 else x1 in
    let lo := if Z.ltb x1 x2 then x1 else x2 in
    Z.ltb ppb (ediv ((hi - lo) * ppb_unit) lo).

Definition e18 : Z := 1000000000000000000%Z.
Definition usd_per_unit_gas (gas_price usd_per_fee_coin : Z) : Z := ediv (gas_price * usd_per_fee_coin) e18.

(* ---------- fee packing ---------- *)
Definition to_packed (da exec : Z) : Z := Z.lor (Z.shiftl da 112) exec.
Definition ones112 : Z := (2 ^ 112 - 1)%Z.
(* FromPackedFee returns (ExecutionFeePriceUSD, DataAvFeePriceUSD) *)
Definition from_packed (p : Z) : Z * Z := (Z.land p ones112, Z.shiftr p 112).

(* ---------- aggregators ---------- *)
(* ChainFeeUpdateAggregator over (exec usd, da usd, timestamp): component-wise medians *)
Definition update_t := (Z * Z * Z)%type.
Definition update_agg (us : list update_t) : update_t :=
  (medianZ (map (fun u => fst (fst u)) us), medianZ (map (fun u => snd (fst u)) us), medianZ (map snd us)).
(* TimestampedBigAggregator over (timestamp, value) *)
Definition tsbig_agg (us : list (Z * Z)) : Z * Z := (medianZ (map fst us), medianZ (map snd us)).
(* the FeeComponents aggregator over (ExecutionFee, DataAvailabilityFee) *)
Definition feecomp_agg (cs : list (Z * Z)) : Z * Z := (medianZ (map fst cs), medianZ (map snd cs)).

(* GetConsensusMapAggregator compares len(values) < int(thresh): a threshold >= 2^63 turns negative and never binds *)
Definition agg_thr (t : N) : N := if N.ltb t 9223372036854775808 then t else 0%N.
(* Go int arithmetic (64 bit, wraps) *)
Definition int64s (z : Z) : Z := ((z + 9223372036854775808) mod 18446744073709551616 - 9223372036854775808)%Z.

Definition oz (o : option Z) : Z := match o with Some z => z | None => 0%Z end.
Definition is_some {A} (o : option A) : bool := match o with Some _ => true | None => false end.

(* ================= chain fee processor ================= *)
(* raw observation as decoded from the wire *)
Record cf_raw := mkCfRaw {
  cfr_feecomp : list (N * (option Z * option Z));       (* chain -> (ExecutionFee, DataAvailabilityFee) *)
  cfr_native : list (N * option Z);                     (* chain -> native token price *)
  cfr_updates : list (N * (option Z * option Z * Z));   (* chain -> (exec usd, da usd, timestamp) *)
  cfr_fchain : list (N * Z);
  cfr_ts : Z }.

(* chainfee.processor.ValidateObservation (after the repair of F09; [_unfixed] = without its last clause) *)
Definition cf_validate_unfixed (roles : roles_t) (known : list N) (dest : N) (ao : N * cf_raw) : bool :=
  let o := fst ao in
  let ob := snd ao in
  forallb (fun e => Z.ltb 0 (snd e)) (cfr_fchain ob) &&
  memN o known &&
  forallb (fun k => memN k (supported roles o)) (map fst (cfr_feecomp ob) ++ map fst (cfr_native ob)) &&
  (match cfr_updates ob with [] => true | _ => memN dest (supported roles o) end) &&
  forallb (fun e => match snd e with
                    | (Some ex, Some da) => Z.ltb 0 ex && Z.leb 0 da
                    | _ => false
                    end) (cfr_feecomp ob) &&
  forallb (fun e => match snd e with Some p => Z.ltb 0 p | None => false end) (cfr_native ob).
Definition cf_validate (roles : roles_t) (known : list N) (dest : N) (ao : N * cf_raw) : bool :=
  cf_validate_unfixed roles known dest ao &&
  forallb (fun e => is_some (fst (fst (snd e))) && is_some (snd (fst (snd e)))) (cfr_updates (snd ao)).

(* the observation as Outcome reads it *)
Record cf_obs := mkCfObs {
  cf_feecomp : list (N * (Z * Z));
  cf_native : list (N * Z);
  cf_updates : list (N * update_t);
  cf_fchain : list (N * Z);
  cf_ts : Z }.
Definition cf_clean (r : cf_raw) : cf_obs :=
  mkCfObs (map (fun e => (fst e, (oz (fst (snd e)), oz (snd (snd e))))) (cfr_feecomp r))
          (map (fun e => (fst e, oz (snd e))) (cfr_native r))
          (map (fun e => (fst e, (oz (fst (fst (snd e))), oz (snd (fst (snd e))), snd (snd e)))) (cfr_updates r))
          (cfr_fchain r) (cfr_ts r).

Record cf_cons := mkCfCons {
  cc_fchain : list (N * Z);
  cc_feecomp : list (N * (Z * Z));
  cc_native : list (N * Z);
  cc_updates : list (N * update_t);
  cc_ts : Z }.

Definition fchain_cons {O} (get : O -> list (N * Z)) (F : Z) (aos : list (N * O)) : list (N * Z) :=
  consensus_map Z.eqb (fun _ : N => Some (two_f_plus_1 F)) (agg_map get aos).
Definition key_thr (fch : list (N * Z)) (k : N) : option N := option_map agg_thr (thr_2f1 fch k).
Definition const_thr (f : Z) (_ : N) : option N := Some (agg_thr (two_f_plus_1 f)).

(* chainfee getConsensusObservation *)
Definition cf_consensus (F : Z) (dest : N) (aos : list (N * cf_obs)) : res cf_cons :=
  let fch := fchain_cons cf_fchain F aos in
  match alookup dest fch with
  | None => Err
  | Some fd =>
      if Z.ltb (Z.of_nat (length aos)) (int64s (2 * fd + 1)) then Err
      else
        Ok (mkCfCons fch
              (consensus_agg (key_thr fch) feecomp_agg (agg_map cf_feecomp aos))
              (consensus_agg (key_thr fch) medianZ (agg_map cf_native aos))
              (consensus_agg (const_thr fd) update_agg (agg_map cf_updates aos))
              (medianZ (map (fun ao => cf_ts (snd ao)) aos)))
  end.

(* USD prices per chain: chains with agreed fee components AND an agreed native token price *)
Definition cf_usd (c : cf_cons) : list (N * (Z * Z)) :=
  flat_map (fun kv =>
      match alookup (fst kv) (cc_native c) with
      | None => []
      | Some p => [(fst kv, (usd_per_unit_gas (fst (snd kv)) p, usd_per_unit_gas (snd (snd kv)) p))]
      end) (cc_feecomp c).

(* getGasPricesToUpdate; usd : chain -> (exec usd, da usd); feeinfo : chain -> (exec ppb, da ppb) *)
Definition gas_selected (freq : Z) (feeinfo : list (N * (Z * Z))) (updates : list (N * update_t)) (now : Z)
           (k : N) (ex da : Z) : bool :=
  match alookup k updates with
  | None => true
  | Some (uex, uda, uts) =>
      if Z.ltb (uts + freq) now then true
      else match alookup k feeinfo with
           | None => false
           | Some (eppb, dppb) => deviates ex uex eppb || deviates da uda dppb
           end
  end.
Definition gas_to_update (freq : Z) (feeinfo : list (N * (Z * Z))) (usd : list (N * (Z * Z)))
           (updates : list (N * update_t)) (now : Z) : list (N * Z) :=
  flat_map (fun kv =>
      let '(k, (ex, da)) := kv in
      if gas_selected freq feeinfo updates now k ex da then [(k, to_packed da ex)] else []) usd.

Definition sort_keys {V} (m : list (N * V)) : list (N * V) := sort_by (fun a b => N.leb (fst a) (fst b)) m.

(* chainfee.processor.Outcome: gas prices sorted by chain selector *)
Definition cf_outcome (freq : Z) (feeinfo : list (N * (Z * Z))) (F : Z) (dest : N) (aos : list (N * cf_obs))
  : res (list (N * Z)) :=
  match cf_consensus F dest aos with
  | Ok c =>
      match cc_feecomp c with
      | [] => Ok []
      | _ => Ok (sort_keys (gas_to_update freq feeinfo (cf_usd c) (cc_updates c) (cc_ts c)))
      end
  | Err => Err
  | Panic => Panic
  | Spin => Spin
  end.

(* the same with the aggregator as it was before the repair of F08 *)
Definition cf_consensus_unfixed (F : Z) (dest : N) (aos : list (N * cf_obs)) : res cf_cons :=
  let fch := fchain_cons cf_fchain F aos in
  match alookup dest fch with
  | None => Err
  | Some fd =>
      if Z.ltb (Z.of_nat (length aos)) (int64s (2 * fd + 1)) then Err
      else
        Ok (mkCfCons fch
              (consensus_agg_unfixed (key_thr fch) feecomp_agg (agg_map cf_feecomp aos))
              (consensus_agg_unfixed (key_thr fch) medianZ (agg_map cf_native aos))
              (consensus_agg_unfixed (const_thr fd) update_agg (agg_map cf_updates aos))
              (medianZ (map (fun ao => cf_ts (snd ao)) aos)))
  end.
Definition cf_outcome_unfixed (freq : Z) (feeinfo : list (N * (Z * Z))) (F : Z) (dest : N) (aos : list (N * cf_obs))
  : res (list (N * Z)) :=
  match cf_consensus_unfixed F dest aos with
  | Ok c =>
      match cc_feecomp c with
      | [] => Ok []
      | _ => Ok (sort_keys (gas_to_update freq feeinfo (cf_usd c) (cc_updates c) (cc_ts c)))
      end
  | Err => Err
  | Panic => Panic
  | Spin => Spin
  end.

(* ================= token price processor ================= *)
(* tokens are ids whose numeric order is the Go string order of the token ids (harness: fixed-width hex) *)
Record tp_raw := mkTpRaw {
  tpr_feed : list (N * option Z);              (* FeedTokenPrices slice: (token, price) *)
  tpr_updates : list (N * (Z * option Z));     (* FeeQuoterTokenUpdates: token -> (timestamp, value) *)
  tpr_fchain : list (N * Z);
  tpr_ts : Z }.

(* tokenprice.processor.ValidateObservation (after the repair of F09; [_unfixed] = without its last clause) *)
Definition tp_validate_unfixed (roles : roles_t) (known : list N) (feedchain dest : N) (ao : N * tp_raw) : bool :=
  let o := fst ao in
  let ob := snd ao in
  forallb (fun e => Z.ltb 0 (snd e)) (tpr_fchain ob) &&
  memN o known &&
  (match tpr_feed ob with [] => true | _ => memN feedchain (supported roles o) end) &&
  (match tpr_updates ob with [] => true | _ => memN dest (supported roles o) end) &&
  nodupb N.eqb (map fst (tpr_feed ob)) &&
  forallb (fun e => is_some (snd e)) (tpr_feed ob).
Definition tp_validate (roles : roles_t) (known : list N) (feedchain dest : N) (ao : N * tp_raw) : bool :=
  tp_validate_unfixed roles known feedchain dest ao &&
  forallb (fun e => is_some (snd (snd e))) (tpr_updates (snd ao)).

Record tp_obs := mkTpObs {
  tp_feed : list (N * Z);
  tp_updates : list (N * (Z * Z));
  tp_fchain : list (N * Z);
  tp_ts : Z }.
Definition tp_clean (r : tp_raw) : tp_obs :=
  mkTpObs (map (fun e => (fst e, oz (snd e))) (tpr_feed r))
          (map (fun e => (fst e, (fst (snd e), oz (snd (snd e))))) (tpr_updates r))
          (tpr_fchain r) (tpr_ts r).

Record tp_cons := mkTpCons {
  tc_fchain : list (N * Z);
  tc_feed : list (N * Z);
  tc_updates : list (N * (Z * Z));
  tc_ts : Z }.

(* tokenprice getConsensusObservation *)
Definition tp_consensus (feedchain : N) (F : Z) (dest : N) (aos : list (N * tp_obs)) : res tp_cons :=
  let fch := fchain_cons tp_fchain F aos in
  match alookup dest fch with
  | None => Err
  | Some fd =>
      match alookup feedchain fch with
      | None => Err
      | Some ff =>
          Ok (mkTpCons fch
                (consensus_agg (const_thr ff) medianZ (agg_map tp_feed aos))
                (consensus_agg (const_thr fd) tsbig_agg (agg_map tp_updates aos))
                (medianZ (map (fun ao => tp_ts (snd ao)) aos)))
      end
  end.

(* selectTokensForUpdate before the final sort; tokeninfo : token -> deviation ppb *)
Definition token_selected (freq : Z) (tokeninfo : list (N * Z)) (updates : list (N * (Z * Z))) (now : Z)
           (t : N) (price : Z) : bool :=
  match alookup t updates with
  | None => true
  | Some (uts, uval) =>
      match alookup t tokeninfo with
      | None => false
      | Some ppb => Z.ltb (uts + freq) now || deviates price uval ppb
      end
  end.
Definition tokens_to_update (freq : Z) (tokeninfo : list (N * Z)) (c : tp_cons) : list (N * Z) :=
  flat_map (fun kv => if token_selected freq tokeninfo (tc_updates c) (tc_ts c) (fst kv) (snd kv) then [kv] else [])
           (tc_feed c).

(* tokenprice.processor.Outcome *)
Definition tp_outcome (freq : Z) (tokeninfo : list (N * Z)) (feedchain : N) (F : Z) (dest : N)
           (aos : list (N * tp_obs)) : res (list (N * Z)) :=
  if Z.eqb freq 0 then Ok []
  else match tp_consensus feedchain F dest aos with
       | Ok c => Ok (sort_keys (tokens_to_update freq tokeninfo c))
       | Err => Err
       | Panic => Panic
       | Spin => Spin
       end.

(* Roles.v — role assignment (home-chain chain configs), the observation fields the validators look at, and the
   ValidateObservation functions of both plugins exactly as wired by commit/validate_observation.go and
   execute/plugin.go (C12).  The second half models the role behaviour of the Observation functions including the
   reader-existence guards of pkg/reader/ccip.go (C11).  Verdicts are booleans: true = nil error. *)
Require Import Verif.Model.Base.

(* ---------- configuration: home-chain view + oracleIDToP2PID key set ---------- *)
Record cfg := mkCfg {
  c_oracles : list N;                   (* oracle ids that have a peer id (keys of oracleIDToP2PID) *)
  c_chains : list (N * (Z * list N));   (* home chain: chain selector -> (fChain, oracles designated to read it) *)
  c_dest : N;                           (* destination chain of the plugin instance *)
  c_feed : N                            (* offchainCfg.PriceFeedChainSelector *)
}.

Definition known_oracle (g : cfg) (o : N) : bool := memN o (c_oracles g).

(* supportedChains.Contains(c) for a known oracle (GetSupportedChainsForPeer) *)
Definition reads (g : cfg) (o c : N) : bool :=
  match alookup c (c_chains g) with
  | Some (_, ns) => memN o ns
  | None => false
  end.

(* "o is designated on the home chain to read c" *)
Definition designated (g : cfg) (o c : N) : bool := known_oracle g o && reads g o c.

(* role set of an oracle; None = lookup error (oracle id without peer id) *)
Definition home_chains (g : cfg) : list N := map fst (c_chains g).
Definition supported_chains (g : cfg) (o : N) : option (list N) :=
  if known_oracle g o then Some (filter (reads g o) (home_chains g)) else None.

(* ChainSupport.SupportsDestChain: GetChainConfig(dest) fails when dest is not configured *)
Definition supports_dest (g : cfg) (o : N) : option bool :=
  match alookup (c_dest g) (c_chains g) with
  | None => None
  | Some (_, ns) => if known_oracle g o then Some (memN o ns) else None
  end.

Definition home_fchain (g : cfg) : list (N * Z) := map (fun p => (fst p, fst (snd p))) (c_chains g).

(* ---------- observation fields (only what validation inspects) ---------- *)
Definition fchain_ok (fc : list (N * Z)) : bool := forallb (fun p => Z.ltb 0 (snd p)) fc.

Record rmncfg := mkRmn {
  rc_addr_empty : bool;            (* len(ContractAddress) == 0 *)
  rc_digest_zero : bool;           (* ConfigDigest == zero *)
  rc_signers : list (bool * N);    (* (OnchainPublicKey empty, NodeIndex) *)
  rc_f : N;
  rc_version_zero : bool;          (* ConfigVersion == 0 *)
  rc_repver_zero : bool            (* RmnReportVersion == zero *)
}.
Definition rmn_empty (r : rmncfg) : bool :=
  rc_addr_empty r && rc_digest_zero r && match rc_signers r with [] => true | _ => false end &&
  N.eqb (rc_f r) 0 && rc_version_zero r && rc_repver_zero r.
Definition rmn_none : rmncfg := mkRmn true true [] 0 true true.

(* validateRMNRemoteConfig apart from the role test *)
Definition rmn_wellformed (r : rmncfg) : bool :=
  negb (rc_digest_zero r) && negb (rc_repver_zero r) &&
  negb (N.ltb (N.of_nat (length (rc_signers r))) (add64 (rc_f r) 1)) &&
  negb (rc_addr_empty r) &&
  forallb (fun s => negb (fst s)) (rc_signers r) && nodupb N.eqb (map snd (rc_signers r)).

Record mobs := mkMobs {            (* merkleroot.Observation *)
  m_roots : list N;                (* ChainSel of each MerkleRootChain, in order *)
  m_onramp : list N;               (* ChainSel of OnRampMaxSeqNums *)
  m_offramp : list N;              (* ChainSel (source) of OffRampNextSeqNums *)
  m_rmn : rmncfg;
  m_fchain : list (N * Z)
}.
Definition is_nil {A} (l : list A) : bool := match l with [] => true | _ => false end.
Definition mobs_empty (m : mobs) : bool :=
  is_nil (m_roots m) && is_nil (m_onramp m) && is_nil (m_offramp m) && rmn_empty (m_rmn m) && is_nil (m_fchain m).

Record tobs := mkTobs {            (* tokenprice.Observation *)
  t_feed : list (N * bool);        (* FeedTokenPrices: (token id, price is nil) *)
  t_fq : list N;                   (* FeeQuoterTokenUpdates keys *)
  t_fchain : list (N * Z)
}.

Record fobs := mkFobs {            (* chainfee.Observation *)
  f_comp : list (N * (option Z * option Z));   (* FeeComponents: chain -> (ExecutionFee, DataAvailabilityFee) *)
  f_native : list (N * option Z);              (* NativeTokenPrices *)
  f_upd : list N;                              (* ChainFeeUpdates keys *)
  f_fchain : list (N * Z)
}.

(* discovery: contract name code -> chains with an address.
   0 OnRamp, 1 OffRamp, 2 NonceManager, 3 RMNRemote (read on the destination); 4 FeeQuoter, 5 Router (read on the
   chain itself); anything else: unknown contract name *)
Definition dobs := list (N * list N).
Definition dname_dest (n : N) : bool := N.leb n 3.
Definition dname_own (n : N) : bool := N.eqb n 4 || N.eqb n 5.

Record cobs := mkCobs {            (* commit.Observation *)
  co_m : mobs; co_t : tobs; co_f : fobs; co_d : dobs; co_fchain : list (N * Z)
}.

(* ---------- validators ---------- *)
Definition validate_rmn (sd : bool) (r : rmncfg) : bool :=
  rmn_empty r || (sd && rmn_wellformed r).

Definition validate_keyed (rd : N -> bool) (l : list N) : bool := forallb rd l && nodupb N.eqb l.
Definition validate_offramp (sd : bool) (l : list N) : bool := is_nil l || (sd && nodupb N.eqb l).

(* merkleroot.Processor.ValidateObservation; retry = q.RetryRMNSignatures *)
Definition validate_merkle (g : cfg) (retry : bool) (o : N) (m : mobs) : bool :=
  if retry && negb (mobs_empty m) then false
  else if negb (fchain_ok (m_fchain m)) then false
  else if negb (known_oracle g o) then false
  else match supports_dest g o with
       | None => false
       | Some sd =>
           validate_keyed (reads g o) (m_roots m) && validate_keyed (reads g o) (m_onramp m) &&
           validate_offramp sd (m_offramp m) && validate_rmn sd (m_rmn m)
       end.

Definition validate_feed_prices (l : list (N * bool)) : bool :=
  nodupb N.eqb (map fst l) && forallb (fun p => negb (snd p)) l.

(* tokenprice.processor.ValidateObservation after the repair of F05: FChain keys are home-chain data and are not
   role-checked; feed prices need the feed chain, fee-quoter updates the destination *)
Definition validate_token (g : cfg) (o : N) (t : tobs) : bool :=
  fchain_ok (t_fchain t) && known_oracle g o &&
  (is_nil (t_feed t) || reads g o (c_feed g)) && (is_nil (t_fq t) || reads g o (c_dest g)) &&
  validate_feed_prices (t_feed t).
(* as it was: every FChain key must be a chain the observer reads, the data fields are not role-checked *)
Definition validate_token_unfixed (g : cfg) (o : N) (t : tobs) : bool :=
  fchain_ok (t_fchain t) && known_oracle g o && forallb (fun p => reads g o (fst p)) (t_fchain t) &&
  validate_feed_prices (t_feed t).

Definition pos_z (z : option Z) : bool := match z with Some v => Z.ltb 0 v | None => false end.
Definition nonneg_z (z : option Z) : bool := match z with Some v => Z.leb 0 v | None => false end.

(* chainfee.processor.ValidateObservation; chain-fee updates are destination data (repair of F06) *)
Definition validate_chainfee (g : cfg) (o : N) (f : fobs) : bool :=
  fchain_ok (f_fchain f) && known_oracle g o &&
  forallb (reads g o) (map fst (f_comp f) ++ map fst (f_native f)) &&
  (is_nil (f_upd f) || reads g o (c_dest g)) &&
  forallb (fun p => pos_z (fst (snd p)) && nonneg_z (snd (snd p))) (f_comp f) &&
  forallb (fun p => pos_z (snd p)) (f_native f).
(* as it was: ChainFeeUpdates not role-checked *)
Definition validate_chainfee_unfixed (g : cfg) (o : N) (f : fobs) : bool :=
  fchain_ok (f_fchain f) && known_oracle g o &&
  forallb (reads g o) (map fst (f_comp f) ++ map fst (f_native f)) &&
  forallb (fun p => pos_z (fst (snd p)) && nonneg_z (snd (snd p))) (f_comp f) &&
  forallb (fun p => pos_z (snd p)) (f_native f).

(* discovery.ContractDiscoveryProcessor.ValidateObservation *)
Definition validate_disc_entry (g : cfg) (o : N) (e : N * list N) : bool :=
  if dname_own (fst e) then forallb (reads g o) (snd e)
  else if dname_dest (fst e) then reads g o (c_dest g)
  else false.
Definition validate_discovery (g : cfg) (o : N) (d : dobs) : bool :=
  known_oracle g o && forallb (validate_disc_entry g o) d.

(* commit.Plugin.ValidateObservation (query, observation and previous outcome decodable), with the discovery
   validator wired in (repair of F04) *)
Definition validate_commit (g : cfg) (retry : bool) (o : N) (ob : cobs) : bool :=
  fchain_ok (co_fchain ob) && validate_merkle g retry o (co_m ob) && validate_token g o (co_t ob) &&
  validate_chainfee g o (co_f ob) && validate_discovery g o (co_d ob).
(* as it was: discovery observations never validated, token-price FChain role-checked, token-price data fields and
   chain-fee updates not role-checked *)
Definition validate_commit_unfixed (g : cfg) (retry : bool) (o : N) (ob : cobs) : bool :=
  fchain_ok (co_fchain ob) && validate_merkle g retry o (co_m ob) && validate_token_unfixed g o (co_t ob) &&
  validate_chainfee_unfixed g o (co_f ob).

(* ---------- execute ---------- *)
Record cdata := mkCdata { cd_root : N; cd_start : N; cd_end : N; cd_exec : list N }.
Definition overlaps (a b : cdata) : bool := N.leb (cd_start a) (cd_end b) && N.leb (cd_start b) (cd_end a).
(* validateObservedSequenceNumbers for one chain: [seen] = reports already visited, latest first *)
Fixpoint seqnums_chain (seen : list cdata) (l : list cdata) : bool :=
  match l with
  | [] => true
  | d :: l' =>
      negb (existsb (fun s => N.eqb (cd_root s) (cd_root d)) seen) &&
      negb (existsb (fun s => overlaps s d) seen) &&
      forallb (fun s => N.leb (cd_start d) s && N.leb s (cd_end d)) (cd_exec d) &&
      seqnums_chain (d :: seen) l'
  end.
Definition seqnums_ok (cr : list (N * list cdata)) : bool := forallb (fun p => seqnums_chain [] (snd p)) cr.

Record eobs := mkEobs {            (* exectypes.Observation *)
  e_commit : list (N * list cdata);     (* CommitReports: source chain -> reports *)
  e_msgs : list (N * N);                (* Messages: source chain -> number of messages *)
  e_keys_ok : bool;                     (* every message is filed under its own header sequence number *)
  e_tokens : list (N * N);              (* TokenData: source chain -> number of entries *)
  e_costly : N;                         (* len(CostlyMessages) *)
  e_nonces : list (N * N);              (* Nonces: source chain -> number of senders *)
  e_d : dobs
}.

Definition nonempty_keys (l : list (N * N)) : list N := map fst (filter (fun p => negb (N.eqb (snd p) 0)) l).

(* validateObserverReadingEligibility *)
Definition validate_eligibility (g : cfg) (o : N) (msgs : list (N * N)) : bool :=
  forallb (fun p => N.eqb (snd p) 0 || reads g o (fst p)) msgs.

(* validateObserverDataEligibility (repair of F07 for three of its four classes): token data needs the source chain
   it is filed under, nonces and costly-message flags need the destination.  Commit reports stay unchecked: the
   GetMessages observation repeats the pending reports of the previous outcome whatever the observer's role is. *)
Definition validate_data_eligibility (g : cfg) (o : N) (ob : eobs) : bool :=
  validate_eligibility g o (e_tokens ob) &&
  (reads g o (c_dest g) || (is_nil (nonempty_keys (e_nonces ob)) && N.eqb (e_costly ob) 0)).

(* validateObservedChains (repair of F13d): every key of CommitReports, Messages and TokenData — empty inner maps
   included — must be a chain with a configured F on the home chain *)
Definition chains_known (g : cfg) (ob : eobs) : bool :=
  forallb (fun c => memN c (home_chains g)) (map fst (e_commit ob) ++ map fst (e_msgs ob) ++ map fst (e_tokens ob)).

(* execute.Plugin.ValidateObservation (observation decodable): eligibility of messages and of the other chain data,
   sequence numbers, validateMessageKeys, validateObservedChains, and the discovery validator wired in (repair of F04) *)
Definition validate_exec (g : cfg) (o : N) (ob : eobs) : bool :=
  known_oracle g o && validate_eligibility g o (e_msgs ob) && validate_data_eligibility g o ob &&
  seqnums_ok (e_commit ob) && e_keys_ok ob && validate_discovery g o (e_d ob) && chains_known g ob.
(* as it was before the repairs of F04 and F07 *)
Definition validate_exec_unfixed (g : cfg) (o : N) (ob : eobs) : bool :=
  known_oracle g o && validate_eligibility g o (e_msgs ob) && seqnums_ok (e_commit ob) && e_keys_ok ob.

(* ---------- field classes and the chain each piece of data is read from ---------- *)
Inductive fclass :=
| FRoots | FOnRamp | FMessages | FFeeComp | FNative | FFeedPrice             (* source-chain data *)
| FOffRamp | FRmnCfg | FCommitReports | FNonces | FFqUpdate | FChainFeeUpd | FDiscovered   (* destination data *)
| FTokenData | FCostly.                                                         (* execute, not in the text's list *)

Definition fclass_code (c : fclass) : N :=
  match c with
  | FRoots => 1 | FOnRamp => 2 | FMessages => 3 | FFeeComp => 4 | FNative => 5 | FFeedPrice => 6
  | FOffRamp => 7 | FRmnCfg => 8 | FCommitReports => 9 | FNonces => 10 | FFqUpdate => 11 | FChainFeeUpd => 12
  | FDiscovered => 13 | FTokenData => 14 | FCostly => 15
  end%N.
Definition fclass_eqb (a b : fclass) : bool := N.eqb (fclass_code a) (fclass_code b).

(* class whose role check is missing in the code (recorded finding F07: commit reports in execute observations) *)
Definition known_class (c : fclass) : bool :=
  match c with
  | FCommitReports => true
  | _ => false
  end.

Definition tag (c : fclass) (l : list N) : list (fclass * N) := map (fun x => (c, x)) l.
Definition tag1 (c : fclass) (present : bool) (ch : N) : list (fclass * N) := if present then [(c, ch)] else [].

Definition dfields (g : cfg) (d : dobs) : list (fclass * N) :=
  flat_map (fun e => if dname_own (fst e) then tag FDiscovered (snd e)
                     else if dname_dest (fst e) then [(FDiscovered, c_dest g)] else []) d.

(* every non-empty field of a commit observation with the chain its data comes from *)
Definition cfields (g : cfg) (ob : cobs) : list (fclass * N) :=
  tag FRoots (m_roots (co_m ob)) ++ tag FOnRamp (m_onramp (co_m ob)) ++
  tag1 FOffRamp (negb (is_nil (m_offramp (co_m ob)))) (c_dest g) ++
  tag1 FRmnCfg (negb (rmn_empty (m_rmn (co_m ob)))) (c_dest g) ++
  tag1 FFeedPrice (negb (is_nil (t_feed (co_t ob)))) (c_feed g) ++
  tag1 FFqUpdate (negb (is_nil (t_fq (co_t ob)))) (c_dest g) ++
  tag FFeeComp (map fst (f_comp (co_f ob))) ++ tag FNative (map fst (f_native (co_f ob))) ++
  tag1 FChainFeeUpd (negb (is_nil (f_upd (co_f ob)))) (c_dest g) ++
  dfields g (co_d ob).

Definition efields (g : cfg) (ob : eobs) : list (fclass * N) :=
  tag FMessages (nonempty_keys (e_msgs ob)) ++
  tag1 FCommitReports (existsb (fun p => negb (is_nil (snd p))) (e_commit ob)) (c_dest g) ++
  tag1 FNonces (negb (is_nil (nonempty_keys (e_nonces ob)))) (c_dest g) ++
  tag FTokenData (nonempty_keys (e_tokens ob)) ++
  tag1 FCostly (negb (N.eqb (e_costly ob) 0)) (c_dest g) ++
  dfields g (e_d ob).

(* ---------- well-formedness that validation demands independently of roles ---------- *)
Definition wf_disc (d : dobs) : bool := forallb (fun e => dname_own (fst e) || dname_dest (fst e)) d.
Definition wf_commit (retry : bool) (ob : cobs) : bool :=
  fchain_ok (co_fchain ob) &&
  negb (retry && negb (mobs_empty (co_m ob))) && fchain_ok (m_fchain (co_m ob)) &&
  nodupb N.eqb (m_roots (co_m ob)) && nodupb N.eqb (m_onramp (co_m ob)) && nodupb N.eqb (m_offramp (co_m ob)) &&
  (rmn_empty (m_rmn (co_m ob)) || rmn_wellformed (m_rmn (co_m ob))) &&
  fchain_ok (t_fchain (co_t ob)) && validate_feed_prices (t_feed (co_t ob)) &&
  fchain_ok (f_fchain (co_f ob)) &&
  forallb (fun p => pos_z (fst (snd p)) && nonneg_z (snd (snd p))) (f_comp (co_f ob)) &&
  forallb (fun p => pos_z (snd p)) (f_native (co_f ob)) &&
  wf_disc (co_d ob).
Definition wf_exec (ob : eobs) : bool := seqnums_ok (e_commit ob) && e_keys_ok ob && wf_disc (e_d ob).

Definition dest_configured (g : cfg) : bool :=
  match alookup (c_dest g) (c_chains g) with Some _ => true | None => false end.

(* ====================================================================================================
   C11 — what an honest oracle observes, as a function of its role and of the reader state.
   Representation invariant: [c_chains] is listed in ascending chain-selector order (it stands for a Go map whose
   keys the code sorts: KnownSourceChainsSlice, NonCursedSourceChains); every list the model produces is ascending,
   the harness sorts the implementation's slices / map keys the same way.
   An oracle has a contract reader and a chain writer exactly for the chains of its role ([reads g i c]).
   RMN is disabled in the off-chain config (initializeRMNController / verifyQuery return nil), the token-price
   reader is present, the discovery processor is enabled, observations stay below the size limit (no truncation).
   ==================================================================================================== *)

(* reader calls that can fail independently: [rs_fail st kind chain] *)
Definition K_DISC : N := 1.       (* off-ramp config reads of DiscoverContracts (destination) *)
Definition K_ONRAMP_DYN : N := 2. (* on-ramp dynamic config (per own source chain) *)
Definition K_ONRAMP_DCC : N := 3. (* on-ramp dest-chain config (per own source chain) *)
Definition K_CURSE : N := 4.      (* GetRmnCurseInfo (destination) *)
Definition K_NEXTSEQ : N := 5.    (* NextSeqNum (destination) *)
Definition K_EXPNEXT : N := 6.    (* GetExpectedNextSequenceNumber (per source chain) *)
Definition K_RMN : N := 7.        (* GetRMNRemoteConfig (destination) *)
Definition K_MSGS : N := 8.       (* MsgsBetweenSeqNums (per source chain) *)
Definition K_FEECOMP : N := 9.    (* chain writer GetFeeComponents (per chain) *)
Definition K_NATIVE : N := 10.    (* wrapped native price (per chain) *)
Definition K_FEEUPD : N := 11.    (* fee-quoter getDestinationChainGasPrice on the destination (per selector) *)
Definition K_FEED : N := 12.      (* GetFeedPricesUSD (feed chain) *)
Definition K_FQ : N := 13.        (* GetFeeQuoterTokenUpdates (destination) *)
Definition K_REPORTS : N := 14.   (* CommitReportsGTETimestamp query (destination) *)
Definition K_EXECUTED : N := 15.  (* ExecutedMessageRanges (destination, per source chain) *)
Definition K_NONCES : N := 16.    (* Nonces (destination, per source chain) *)
Definition K_LINK : N := 17.      (* LINK price / destination fee components used by the costly-message observer *)

Record rstate := mkRs {
  rs_init : bool;                       (* contracts initialised: plugin flag set and discovered contracts bound *)
  rs_fail : N -> N -> bool;
  rs_cursed_all : bool;                 (* global curse or cursed destination *)
  rs_cursed : list N;                   (* cursed source chains *)
  rs_enabled : list N;                  (* source chains enabled on the off-ramp *)
  rs_rmn : rmncfg;                      (* RMN remote configuration stored on the destination *)
  rs_ranges : list N;                   (* chains of the previous outcome's RangesSelectedForReport *)
  rs_tokens : list N;                   (* tokens of the off-chain config (TokenInfo keys) *)
  rs_fq : list N;                       (* tokens that have a fee-quoter update on the destination *)
  rs_comp : list (N * (option Z * option Z));   (* chain writer fee components per chain *)
  rs_native : list (N * Z);             (* wrapped native token price per chain, where one is available *)
  rs_upd : list N;                      (* chains with a non-empty fee update on the destination fee quoter *)
  rs_reports : list (N * list cdata);   (* commit reports on the destination grouped by source chain (none executed) *)
  rs_pending : list (N * list cdata);   (* previous outcome's pending commit reports regrouped by source chain *)
  rs_nmsgs : list (N * N);              (* messages readable on each source chain for the pending ranges *)
  rs_senders : list (N * N)             (* distinct senders among the pending messages per source chain *)
}.

Definition role (g : cfg) (i : N) : list N := filter (reads g i) (home_chains g).
Definition sources (g : cfg) : list N := filter (fun c => negb (N.eqb c (c_dest g))) (home_chains g).
Definition own_sources (g : cfg) (i : N) : list N := filter (fun c => negb (N.eqb c (c_dest g))) (role g i).
Definition cnt (l : list (N * N)) (c : N) : N := match alookup c l with Some n => n | None => 0%N end.

(* ---- discovery: ccipChainReader.DiscoverContracts through ContractDiscoveryProcessor.Observation ---- *)
Definition insert_dest (hasd : bool) (d : N) (l : list N) : list N := if hasd then sortN (d :: l) else l.
Definition dentry (n : N) (chains : list N) : dobs := if is_nil chains then [] else [(n, chains)].
Definition observe_disc (g : cfg) (i : N) (st : rstate) : dobs :=
  let d := c_dest g in
  let hasd := reads g i d in
  let own := own_sources g i in
  if hasd && rs_fail st K_DISC d then []
  else if rs_init st && (existsb (rs_fail st K_ONRAMP_DYN) own || existsb (rs_fail st K_ONRAMP_DCC) own) then []
  else
    let src := if rs_init st then own else [] in
    let en := negb (is_nil (rs_enabled st)) in
    (if hasd then dentry 0 (rs_enabled st) ++ [(2%N, [d]); (3%N, [d])] else []) ++
    dentry 4 (insert_dest hasd d src) ++ dentry 5 (insert_dest (hasd && en) d src).

(* ---- merkle root processor ---- *)
Definition observe_offramp (g : cfg) (i : N) (st : rstate) : list N :=
  match supports_dest g i with
  | Some true =>
      if rs_fail st K_CURSE (c_dest g) then []
      else if rs_cursed_all st then []
      else
        let srcs := filter (fun c => negb (memN c (rs_cursed st))) (sources g) in
        if rs_fail st K_NEXTSEQ (c_dest g) then []
        else if forallb (fun c => memN c (rs_enabled st)) srcs then srcs else []
  | _ => []
  end.

Definition observe_onramp (g : cfg) (i : N) (st : rstate) : list N :=
  let srcs := filter (reads g i) (sources g) in
  if existsb (rs_fail st K_EXPNEXT) srcs then [] else srcs.

Definition observe_rmn (g : cfg) (i : N) (st : rstate) : rmncfg :=
  if reads g i (c_dest g) then (if rs_fail st K_RMN (c_dest g) then rmn_none else rs_rmn st) else rmn_none.

Definition observe_roots (g : cfg) (i : N) (st : rstate) : list N :=
  filter (fun c => reads g i c && negb (rs_fail st K_MSGS c)) (rs_ranges st).

(* phase: 0 SelectingRangesForReport, 1 BuildingReport, 2 WaitingForReportTransmission *)
Definition observe_merkle (g : cfg) (i : N) (st : rstate) (phase : N) (retry : bool) : mobs :=
  if N.eqb phase 0 then
    mkMobs [] (observe_onramp g i st) (observe_offramp g i st) (observe_rmn g i st) (home_fchain g)
  else if N.eqb phase 1 then
    (if retry then mkMobs [] [] [] rmn_none [] else mkMobs (observe_roots g i st) [] [] rmn_none (home_fchain g))
  else if N.eqb phase 2 then
    mkMobs [] [] (observe_offramp g i st) rmn_none (home_fchain g)
  else mkMobs [] [] [] rmn_none [].

(* ---- token price processor ---- *)
Definition observe_token (g : cfg) (i : N) (st : rstate) : tobs :=
  if is_nil (c_chains g) then mkTobs [] [] []
  else
    mkTobs
      (if reads g i (c_feed g) && negb (rs_fail st K_FEED (c_feed g))
       then map (fun t => (t, false)) (rs_tokens st) else [])
      (match supports_dest g i with
       | Some true => if rs_fail st K_FQ (c_dest g) then [] else rs_fq st
       | _ => []
       end)
      (home_fchain g).

(* ---- chain fee processor ---- *)
Definition observe_comp (g : cfg) (i : N) (st : rstate) : list (N * (option Z * option Z)) :=
  flat_map (fun c => match alookup c (rs_comp st) with
                     | Some v => if rs_fail st K_FEECOMP c then [] else [(c, v)]
                     | None => []
                     end) (role g i).
Definition observe_native (g : cfg) (i : N) (st : rstate) : list (N * option Z) :=
  flat_map (fun c => match alookup c (rs_native st) with
                     | Some p => if rs_fail st K_NATIVE c then [] else [(c, Some p)]
                     | None => []
                     end) (role g i).
Definition fee_updates (g : cfg) (i : N) (st : rstate) : list N :=
  filter (fun c => memN c (rs_upd st) && negb (rs_fail st K_FEEUPD c)) (role g i).
(* ccipChainReader.GetChainFeePriceUpdate after the repair of F18a: no destination reader -> no updates *)
Definition observe_upd (g : cfg) (i : N) (st : rstate) : res (list N) :=
  if reads g i (c_dest g) then Ok (fee_updates g i st) else Ok [].
(* as it was: contractReaders[dest] is used without the existence guard; with at least one selector to look up
   the call goes through a nil interface *)
Definition observe_upd_unfixed (g : cfg) (i : N) (st : rstate) : res (list N) :=
  if reads g i (c_dest g) then Ok (fee_updates g i st)
  else if is_nil (role g i) then Ok [] else Panic.

Definition observe_chainfee_with (upd : res (list N)) (g : cfg) (i : N) (st : rstate) : res fobs :=
  rbind upd (fun u => Ok (mkFobs (observe_comp g i st) (observe_native g i st) u (home_fchain g))).

(* ---- commit.Plugin.Observation ---- *)
Definition mobs_nil : mobs := mkMobs [] [] [] rmn_none [].
Definition tobs_nil : tobs := mkTobs [] [] [].
Definition fobs_nil : fobs := mkFobs [] [] [] [].

Definition observe_commit_with (updf : cfg -> N -> rstate -> res (list N))
           (g : cfg) (i : N) (st : rstate) (phase : N) (retry : bool) : res cobs :=
  let d := observe_disc g i st in
  if negb (rs_init st) then Ok (mkCobs mobs_nil tobs_nil fobs_nil d [])
  else
    rbind (observe_chainfee_with (updf g i st) g i st) (fun f =>
      Ok (mkCobs (observe_merkle g i st phase retry) (observe_token g i st) f d (home_fchain g))).
Definition observe_commit := observe_commit_with observe_upd.
Definition observe_commit_unfixed := observe_commit_with observe_upd_unfixed.

(* ---- execute.Plugin.Observation; phase: 0 GetCommitReports, 1 GetMessages, 2 Filter ---- *)
Definition eobs_base (d : dobs) : eobs := mkEobs [] [] true [] 0 [] d.

(* [lookup] = true: CommitReportsGTETimestamp as it was before the repair of F18d — the on-ramp address of every root's
   source chain is looked up on that chain's own reader and a missing reader fails the whole query.  After the repair
   the address emitted with the root is kept for source chains this oracle does not read. *)
Definition observe_commit_reports_with (lookup : bool) (g : cfg) (i : N) (st : rstate) (d : dobs) : res eobs :=
  if negb (reads g i (c_dest g)) then Ok (eobs_base d)
  else if rs_fail st K_CURSE (c_dest g) then Ok (eobs_base d)
  else if rs_cursed_all st then Ok (eobs_base d)
  else if rs_fail st K_REPORTS (c_dest g) then Err
  else if lookup && negb (forallb (fun p => reads g i (fst p)) (rs_reports st)) then Err
  else if existsb (fun p => rs_fail st K_EXECUTED (fst p)) (rs_reports st) then Err
  (* only the known (home-chain configured), non-cursed source chains are kept *)
  else Ok (mkEobs (filter (fun p => memN (fst p) (sources g) && negb (memN (fst p) (rs_cursed st))) (rs_reports st))
                  [] true [] 0 [] d).

(* readAllMessages after the repair of F18b: source chains without a reader are skipped *)
Definition read_all_messages (g : cfg) (i : N) (st : rstate) : res (list (N * N)) :=
  let mine := filter (fun p => reads g i (fst p)) (rs_pending st) in
  if existsb (fun p => rs_fail st K_MSGS (fst p)) mine then Err
  else Ok (filter (fun p => negb (N.eqb (snd p) 0)) (map (fun p => (fst p, cnt (rs_nmsgs st) (fst p))) mine)).
(* as it was: every pending source chain is queried; a missing reader is an error *)
Definition read_all_messages_unfixed (g : cfg) (i : N) (st : rstate) : res (list (N * N)) :=
  if negb (forallb (fun p => reads g i (fst p)) (rs_pending st)) then Err
  else read_all_messages g i st.

(* costly-message observer of the production wiring: the LINK price is read from the destination fee quoter even when
   there is nothing to price; with messages, the destination's fee components (chain writer) and native token price
   are needed as well.  Fees in the scripted worlds are high enough that no message is flagged. *)
Definition dest_priced (g : cfg) (st : rstate) : bool :=
  match alookup (c_dest g) (rs_comp st), alookup (c_dest g) (rs_native st) with
  | Some (Some _, Some _), Some _ => true
  | _, _ => false
  end.
(* as it was (before the repair of F18c): every oracle runs the observer; without destination reader it fails *)
Definition observe_costly_unfixed (g : cfg) (i : N) (st : rstate) (msgs : list (N * N)) : res N :=
  let d := c_dest g in
  if negb (reads g i d) then Err
  else if rs_fail st K_LINK d then Err
  else if is_nil msgs then Ok 0%N
  else if negb (dest_priced g st) then Err
  else if rs_fail st K_FEECOMP d || rs_fail st K_NATIVE d then Err
  else Ok 0%N.
(* getMessagesObservation after the repair of F18c: an oracle that does not support the destination observes no
   costly messages instead of failing *)
Definition observe_costly (g : cfg) (i : N) (st : rstate) (msgs : list (N * N)) : res N :=
  if negb (reads g i (c_dest g)) then Ok 0%N else observe_costly_unfixed g i st msgs.

Definition observe_messages_with (ram : cfg -> N -> rstate -> res (list (N * N)))
           (costlyf : cfg -> N -> rstate -> list (N * N) -> res N)
           (g : cfg) (i : N) (st : rstate) (d : dobs) : res eobs :=
  if is_nil (rs_pending st) then Ok (eobs_base d)
  else
    rbind (ram g i st) (fun msgs =>
    rbind (costlyf g i st msgs) (fun costly =>
      Ok (mkEobs (rs_pending st) msgs true msgs costly [] d))).

Definition observe_filter (g : cfg) (i : N) (st : rstate) (d : dobs) : res eobs :=
  if negb (reads g i (c_dest g)) then Ok (eobs_base d)
  else if existsb (fun p => rs_fail st K_NONCES (fst p) && negb (N.eqb (cnt (rs_senders st) (fst p)) 0)) (rs_pending st)
       then Err   (* no sender, no call *)
  else Ok (mkEobs [] [] true [] 0 (map (fun p => (fst p, cnt (rs_senders st) (fst p))) (rs_pending st)) d).

Definition observe_exec_with (lookup : bool) (ram : cfg -> N -> rstate -> res (list (N * N)))
           (costlyf : cfg -> N -> rstate -> list (N * N) -> res N)
           (g : cfg) (i : N) (st : rstate) (phase : N) : res eobs :=
  let d := observe_disc g i st in
  if negb (rs_init st) then Ok (eobs_base d)
  else if N.eqb phase 0 then observe_commit_reports_with lookup g i st d
  else if N.eqb phase 1 then observe_messages_with ram costlyf g i st d
  else if N.eqb phase 2 then observe_filter g i st d
  else Err.
Definition observe_exec := observe_exec_with false read_all_messages observe_costly.
(* the three pre-repair variants, one defect each *)
Definition observe_exec_unfixed := observe_exec_with false read_all_messages_unfixed observe_costly.   (* F18b *)
Definition observe_exec_unfixed_c := observe_exec_with false read_all_messages observe_costly_unfixed. (* F18c *)
Definition observe_exec_unfixed_d := observe_exec_with true read_all_messages observe_costly.          (* F18d *)

(* ---- hypotheses on the values the chains hold (not on roles, not on which calls fail) ---- *)
Definition cfg_ok (g : cfg) (i : N) : bool :=
  known_oracle g i && dest_configured g && nodupb N.eqb (home_chains g) && fchain_ok (home_fchain g).
Definition values_ok (st : rstate) : bool :=
  (rmn_empty (rs_rmn st) || rmn_wellformed (rs_rmn st)) &&
  nodupb N.eqb (rs_ranges st) && nodupb N.eqb (rs_tokens st) &&
  forallb (fun p => pos_z (fst (snd p)) && nonneg_z (snd (snd p))) (rs_comp st) &&
  forallb (fun p => Z.ltb 0 (snd p)) (rs_native st) &&
  seqnums_ok (rs_reports st) && seqnums_ok (rs_pending st).
Definition no_failures (st : rstate) : Prop := forall k c, rs_fail st k c = false.
(* stable home configuration: the previous outcome's pending reports name configured chains only (the merges that
   produced it need an F for every chain they keep, so this holds as long as the home-chain config did not shrink) *)
Definition pending_known (g : cfg) (st : rstate) : bool :=
  forallb (fun p => memN (fst p) (home_chains g)) (rs_pending st).

(* input classes of the repaired findings F18c / F18d (used by the refutations of the pre-repair functions) *)
(* F18c: GetMessages phase, something pending, oracle without destination access *)
Definition f18c_class (g : cfg) (i : N) (st : rstate) (phase : N) : bool :=
  rs_init st && N.eqb phase 1 && negb (is_nil (rs_pending st)) && negb (reads g i (c_dest g)).
(* F18d: GetCommitReports phase, destination reader, a report on chain from a source the oracle does not read *)
Definition f18d_class (g : cfg) (i : N) (st : rstate) (phase : N) : bool :=
  rs_init st && N.eqb phase 0 && reads g i (c_dest g) && negb (rs_cursed_all st) &&
  negb (forallb (fun p => reads g i (fst p)) (rs_reports st)).

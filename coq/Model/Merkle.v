(* Merkle.v — model of chainlink-common pkg/merklemulti (NewTree, computeNextLayer, Root, proveSingleLayer, Prove,
   VerifyComputeRoot) over an abstract hash.  The internal hash [hash] and the padding value [zero]
   (hashutil.Hasher.HashInternal / ZeroHash) are Section variables.  Indices are Go [int]s that are never
   negative here, modelled as [nat].  No proofs in this file. *)
Require Import Verif.Model.Base.

(* parentIndex idx = idx / 2; siblingIndex idx = idx ^ 1 (flip the lowest bit) *)
Definition parent (x : nat) : nat := Nat.div2 x.
Definition sibling (x : nat) : nat := if Nat.even x then S x else Nat.pred x.

(* proveSingleLayer, index part: walks the (ascending) indices; an index immediately followed by its sibling is
   merged with it (flag SourceFromHashes = true), otherwise the sibling becomes an authentication index
   (flag SourceFromProof = false).  Result: (nextIndices, authIndices, sourceFlags). *)
Fixpoint prove_idx (idxs : list nat) : list nat * list nat * list bool :=
  match idxs with
  | [] => ([], [], [])
  | x :: rest =>
      match rest with
      | y :: rest' =>
          if Nat.eqb y (sibling x)
          then let '(n, a, f) := prove_idx rest' in (parent x :: n, a, true :: f)
          else let '(n, a, f) := prove_idx rest in (parent x :: n, sibling x :: a, false :: f)
      | [] => ([parent x], [sibling x], [false])
      end
  end.

(* BoolsToBitFlags (slicelib/bits.go): bit i of the big integer = bools[i] *)
Fixpoint bools_to_flags (l : list bool) : Z :=
  match l with
  | [] => 0%Z
  | b :: l' => ((if b then 1 else 0) + 2 * bools_to_flags l')%Z
  end.
(* BitFlagsToBools: the first [n] bits *)
Fixpoint flags_to_bools (z : Z) (n : nat) : list bool :=
  match n with
  | O => []
  | S n' => Z.odd z :: flags_to_bools (Z.div2 z) n'
  end.

Section Merkle.
  Context {H : Type}.
  Variable hash : H -> H -> H.
  Variable zero : H.

  (* computeNextLayer: the layer is padded with ZeroHash to even length, then hashed pairwise *)
  Definition pad (l : list H) : list H := if Nat.even (length l) then l else l ++ [zero].
  Fixpoint pair_up (l : list H) : list H :=
    match l with
    | a :: b :: l' => hash a b :: pair_up l'
    | [a] => [hash a zero]
    | [] => []
    end.

  (* NewTree: layers[k] is stored padded, the last layer is the single root.  The loop runs while the layer has
     more than one element; [fuel] = number of leaves is more than the number of layers. *)
  Fixpoint layers_from (fuel : nat) (layer : list H) : list (list H) :=
    match fuel with
    | O => [layer]
    | S fuel' =>
        if Nat.leb (length layer) 1 then [layer]
        else pad layer :: layers_from fuel' (pair_up layer)
    end.
  Definition tree := list (list H).
  Definition new_tree (leaves : list H) : res tree :=
    match leaves with
    | [] => Err                                   (* "Cannot construct a tree without leaves" *)
    | _ => Ok (layers_from (length leaves) leaves)
    end.
  (* Root: t.layers[len-1][0] *)
  Definition troot (t : tree) : H := hd zero (last t []).
  Definition mroot (leaves : list H) : H := troot (layers_from (length leaves) leaves).

  (* proveSingleLayer, value part: every authentication index must be inside the layer *)
  Fixpoint sub_proof (layer : list H) (auth : list nat) : res (list H) :=
    match auth with
    | [] => Ok []
    | i :: auth' =>
        match nth_error layer i with
        | None => Err                             (* "auth index is out of bounds" *)
        | Some h => rbind (sub_proof layer auth') (fun r => Ok (h :: r))
        end
    end.

  (* Prove: all layers but the last, concatenating sub-proofs and flags *)
  Fixpoint prove_layers (t : tree) (idxs : list nat) : res (list H * list bool) :=
    match t with
    | [] => Ok ([], [])
    | layer :: t' =>
        match t' with
        | [] => Ok ([], [])                       (* the root layer is excluded *)
        | _ =>
            let '(next, auth, fl) := prove_idx idxs in
            rbind (sub_proof layer auth) (fun sp =>
            rbind (prove_layers t' next) (fun r => Ok (sp ++ fst r, fl ++ snd r)))
        end
    end.
  Definition prove (t : tree) (idxs : list nat) : res (list H * list bool) := prove_layers t idxs.

  (* ---- VerifyComputeRoot ----
     State of the main loop: [lv] = leafHashes[leafPos:], [hs] = hashes[hashPos:i] (computed, not yet read),
     [ps] = proof.Hashes[proofPos:].  The second operand and a SourceFromHashes first operand are read from the
     leaves while any are left, then from the computed hashes.
     Modelling note: when the Go code reads hashes[hashPos] with hashPos >= i (nothing computed is left) it gets a
     junk value (the slice is pre-sized) and carries on; from then on hashPos stays > i, so the final test
     hashPos = totalHashes-1 must fail and an error is returned.  The model returns that error at once.
     proofPos cannot run past the proof hashes because the number of SourceFromProof flags was checked. *)
  Definition pop_hash (lv hs : list H) : option (H * list H * list H) :=
    match lv with
    | x :: lv' => Some (x, lv', hs)
    | [] => match hs with x :: hs' => Some (x, [], hs') | [] => None end
    end.

  Fixpoint vloop (flags : list bool) (lv hs ps : list H) : res H :=
    match flags with
    | [] =>
        (* hashPos = totalHashes-1, leafPos = leavesLength, proofPos = proofsLength; result hashes[totalHashes-1] *)
        match lv, hs, ps with
        | [], [r], [] => Ok r
        | _, _, _ => Err
        end
    | true :: flags' =>
        match pop_hash lv hs with
        | None => Err
        | Some (a, lv1, hs1) =>
            match pop_hash lv1 hs1 with
            | None => Err
            | Some (b, lv2, hs2) => vloop flags' lv2 (hs2 ++ [hash a b]) ps
            end
        end
    | false :: flags' =>
        match ps with
        | [] => Panic
        | a :: ps' =>
            match pop_hash lv hs with
            | None => Err
            | Some (b, lv1, hs1) => vloop flags' lv1 (hs1 ++ [hash a b]) ps'
            end
        end
    end.

  Definition max_leaves : nat := 256.
  Definition count_false (l : list bool) : nat := length (filter negb l).

  Definition verify (leaves proofs : list H) (flags : list bool) : res H :=
    let l := length leaves in
    let p := length proofs in
    if Nat.eqb l 0 && Nat.eqb p 0 then Err
    else if Nat.ltb (max_leaves + 1) l || Nat.ltb (max_leaves + 1) p then Err
    else
      let total := (l + p - 1)%nat in
      if Nat.ltb max_leaves total then Err
      else if negb (Nat.eqb total (length flags)) then Err
      else if Nat.eqb total 0 then
        match leaves with x :: _ => Ok x | [] => Panic end      (* leafHashes[0] *)
      else if negb (Nat.eqb (count_false flags) p) then Err
      else vloop flags leaves [] proofs.
End Merkle.

(* Determinism.v — the order-sensitive seams between "what all oracles agree on" and "the bytes they emit":
   - minObservation.GetValid (internal/plugincommon/consensus/min_observation.go): iterates a Go map; after the
     repair of F17 it iterates in ascending id order;
   - last-writer-wins result maps built from GetValid (execute mergeMessageObservations / mergeNonceObservations);
   - sort-before-encode (commit Outcome.Sort, execute newSortedOutcome, price outputs);
   - the %v identity of items carrying a time.Time (execute CommitData.Timestamp), F25. *)
Require Import Verif.Model.Base Verif.Model.Consensus.

(* The cache of minObservation: (id, (item, count)) in SOME iteration order chosen by the Go runtime. *)
Definition cache (T : Type) := list (N * (T * N)).

(* GetValid before the repair: iteration order of the map *)
Definition get_valid_unfixed {T} (thr : N) (c : cache T) : list T :=
  map (fun e => fst (snd e)) (filter (fun e => N.leb thr (snd (snd e))) c).

(* GetValid after the repair: ascending id *)
Definition get_valid {T} (thr : N) (c : cache T) : list T :=
  get_valid_unfixed thr (sort_by (fun a b => N.leb (fst a) (fst b)) c).

(* results[key item] = item for item in GetValid order: the last writer wins *)
Fixpoint last_writer {T} (key : T -> N) (items : list T) (acc : list (N * T)) : list (N * T) :=
  match items with
  | [] => acc
  | x :: items' =>
      last_writer key items' ((key x, x) :: filter (fun p => negb (N.eqb (fst p) (key x))) acc)
  end.
Definition lww_lookup {T} (key : T -> N) (items : list T) (k : N) : option T :=
  alookup k (last_writer key items []).

(* ---- %v identity of a decoded time.Time ----
   A decoded RFC 3339 time is (instant, utc offset in seconds, spelled_with_Z).
   Go attaches: UTC location for the literal "Z"; the Local location when the offset equals the local zone's offset
   at that instant; otherwise a nameless fixed zone. Time.String prints instant (in that zone), offset and zone name. *)
Record wire_time := { instant : Z; offset : Z; spelled_z : bool }.
Record zone := { zone_offset : Z -> Z; zone_name : N }.   (* name as an interned id; 0 = empty name; 1 = "UTC" *)

Definition rendered_name (loc : zone) (t : wire_time) : N :=
  if spelled_z t then 1%N
  else if Z.eqb (offset t) (zone_offset loc (instant t)) then zone_name loc
  else 0%N.
(* what %v shows: the instant, the offset and the zone name *)
Definition render (loc : zone) (t : wire_time) : Z * Z * N := (instant t, offset t, rendered_name loc t).
Definition render_eqb (a b : Z * Z * N) : bool :=
  let '(i1, o1, n1) := a in let '(i2, o2, n2) := b in Z.eqb i1 i2 && Z.eqb o1 o2 && N.eqb n1 n2.

(* Timestamp.UTC(): same instant, UTC location *)
Definition to_utc (t : wire_time) : wire_time := {| instant := instant t; offset := 0; spelled_z := true |}.

(* PricesHist.v — the two price processors of the commit plugin over a HISTORY of rounds (C14).
   One processor instance lives as long as the plugin: its configuration (write frequency, deviation thresholds, role-DON F,
   destination, feed chain) is fixed at construction. Every round commit.Plugin.Outcome calls
       processor.Outcome(ctx, prevOutcome.ChainFeeOutcome / .TokenPriceOutcome, query, observations of THIS round)
   and stores the Outcome VALUE it gets back in the next plugin outcome — also when the error is non-nil (the error is
   only logged). The role map (home chain) is read afresh by ValidateObservation in every round.
   commit/chainfee/outcome.go and commit/tokenprice/processor.go take the previous outcome as an argument and never
   read it: the argument is kept in the model so that the history theorems talk about the call as it is made. *)
Require Import Verif.Model.Base Verif.Model.Consensus Verif.Model.CommitConsensus Verif.Model.Prices.

Definition prices := list (N * Z).

(* the prices of the Outcome value a processor call hands back: an error / panic exit carries none *)
Definition carried (r : res prices) : prices := match r with Ok l => l | _ => [] end.

(* ---------- generic: one long-lived instance, the carried value of round k is the previous outcome of round k+1 ---------- *)
Section Run.
  Context {C R O : Type}.
  Variable step : C -> prices -> R -> O.
  Variable next : O -> prices.
  Fixpoint run_hist (cfg : C) (prev : prices) (rds : list R) : list O :=
    match rds with
    | [] => []
    | rd :: t => let o := step cfg prev rd in o :: run_hist cfg (next o) t
    end.
End Run.

(* the observable of one round: validation verdicts, Outcome's result, prices of the returned Outcome value *)
Definition round_out := (list bool * res prices * prices)%type.
Definition ro_next (o : round_out) : prices := snd o.

(* ================= chain fee processor ================= *)
Record cf_cfg := mkCfCfg { cfc_freq : Z; cfc_feeinfo : list (N * (Z * Z)); cfc_F : Z; cfc_dest : N }.
(* what may differ from round to round: role map, known oracles, the attributed observations on the wire *)
Record cf_round := mkCfRound { cr_roles : roles_t; cr_known : list N; cr_aos : list (N * cf_raw) }.

Definition cf_verdicts (cfg : cf_cfg) (rd : cf_round) : list bool :=
  map (cf_validate (cr_roles rd) (cr_known rd) (cfc_dest cfg)) (cr_aos rd).
(* the observations that reach Outcome: the validated ones, in arrival order *)
Definition cf_accepted (cfg : cf_cfg) (rd : cf_round) : list (N * cf_obs) :=
  map (fun ao => (fst ao, cf_clean (snd ao)))
      (filter (cf_validate (cr_roles rd) (cr_known rd) (cfc_dest cfg)) (cr_aos rd)).

Definition cf_step_result (cfg : cf_cfg) (rd : cf_round) : res prices :=
  cf_outcome (cfc_freq cfg) (cfc_feeinfo cfg) (cfc_F cfg) (cfc_dest cfg) (cf_accepted cfg rd).
(* processor.Outcome(ctx, prevOutcome, query, aos) preceded by ValidateObservation(prevOutcome, query, ao) per observation *)
Definition cf_step (cfg : cf_cfg) (prev : prices) (rd : cf_round) : round_out :=
  let r := cf_step_result cfg rd in (cf_verdicts cfg rd, r, carried r).

Definition cf_history (cfg : cf_cfg) (prev : prices) (rds : list cf_round) : list round_out :=
  run_hist cf_step ro_next cfg prev rds.

(* a processor that hands the previous outcome back on its error exit and on its "no consensus on fee components,
   nothing to update" exit (NOT the code under verification: the variant the history theorems must tell apart) *)
Definition cf_step_stale (cfg : cf_cfg) (prev : prices) (rd : cf_round) : round_out :=
  let acc := cf_accepted cfg rd in
  match cf_consensus (cfc_F cfg) (cfc_dest cfg) acc with
  | Ok c =>
      match cc_feecomp c with
      | [] => (cf_verdicts cfg rd, Ok prev, prev)
      | _ => let r := cf_outcome (cfc_freq cfg) (cfc_feeinfo cfg) (cfc_F cfg) (cfc_dest cfg) acc in
             (cf_verdicts cfg rd, r, carried r)
      end
  | _ => (cf_verdicts cfg rd, Err, prev)
  end.

(* ================= token price processor ================= *)
Record tp_cfg := mkTpCfg { tpc_freq : Z; tpc_tokeninfo : list (N * Z); tpc_feedchain : N; tpc_F : Z; tpc_dest : N }.
Record tp_round := mkTpRound { tr_roles : roles_t; tr_known : list N; tr_aos : list (N * tp_raw) }.

Definition tp_verdicts (cfg : tp_cfg) (rd : tp_round) : list bool :=
  map (tp_validate (tr_roles rd) (tr_known rd) (tpc_feedchain cfg) (tpc_dest cfg)) (tr_aos rd).
Definition tp_accepted (cfg : tp_cfg) (rd : tp_round) : list (N * tp_obs) :=
  map (fun ao => (fst ao, tp_clean (snd ao)))
      (filter (tp_validate (tr_roles rd) (tr_known rd) (tpc_feedchain cfg) (tpc_dest cfg)) (tr_aos rd)).

Definition tp_step_result (cfg : tp_cfg) (rd : tp_round) : res prices :=
  tp_outcome (tpc_freq cfg) (tpc_tokeninfo cfg) (tpc_feedchain cfg) (tpc_F cfg) (tpc_dest cfg) (tp_accepted cfg rd).
Definition tp_step (cfg : tp_cfg) (prev : prices) (rd : tp_round) : round_out :=
  let r := tp_step_result cfg rd in (tp_verdicts cfg rd, r, carried r).

Definition tp_history (cfg : tp_cfg) (prev : prices) (rds : list tp_round) : list round_out :=
  run_hist tp_step ro_next cfg prev rds.

(* ================= the price part of commit.Plugin.Outcome / Reports over a history ================= *)
(* previous plugin outcome = (ChainFeeOutcome.GasPrices, TokenPriceOutcome.TokenPrices); Reports copies both lists into
   PriceUpdates.GasPriceUpdates / TokenPriceUpdates *)
Definition pl_step (cfg : cf_cfg * tp_cfg) (prev : prices * prices) (rd : cf_round * tp_round) : prices * prices :=
  (snd (cf_step (fst cfg) (fst prev) (fst rd)), snd (tp_step (snd cfg) (snd prev) (snd rd))).
Fixpoint pl_history (cfg : cf_cfg * tp_cfg) (prev : prices * prices) (rds : list (cf_round * tp_round))
  : list (prices * prices) :=
  match rds with
  | [] => []
  | rd :: t => let o := pl_step cfg prev rd in o :: pl_history cfg o t
  end.

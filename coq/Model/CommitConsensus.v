(* CommitConsensus.v — model of commit/merkleroot: types.go:aggregateObservations,
   validate_observation.go:Processor.ValidateObservation (+ the role lookups of plugincommon.ChainSupport it calls),
   outcome.go:getConsensusObservation (as repaired by fixes/F26.patch; the pre-repair function is get_consensus_unfixed).
   Byte strings (on-ramp address, merkle root) and the whole RMN remote config are ids interned by the harness from a
   canonical encoding of their content (every exported field), so equal id <=> equal value; that minObservation's own
   identity (sha3 of the "%v" rendering) separates exactly the values that differ is checked by the correspondence. *)
Require Import Verif.Model.Base Verif.Model.Consensus.

(* ---------- Go "map[K][]V built by appending": group (key, value) entries by key ----------
   keys in first-occurrence order, values of a key in entry order *)
Definition vals_of {V} (k : N) (es : list (N * V)) : list V :=
  map snd (filter (fun e => N.eqb (fst e) k) es).
Definition group {V} (es : list (N * V)) : list (N * list V) :=
  map (fun k => (k, vals_of k es)) (dedup N.eqb (map fst es)).

(* ---------- observation types ---------- *)
(* MerkleRootChain: (ChainSel, OnRampAddress id, (start, end), MerkleRoot id) *)
Definition root_t := (N * N * (N * N) * N)%type.
Definition root_chain (r : root_t) : N := let '(c, _, _, _) := r in c.
Definition root_eqb (a b : root_t) : bool :=
  let '(c1, a1, (s1, e1), r1) := a in
  let '(c2, a2, (s2, e2), r2) := b in
  N.eqb c1 c2 && N.eqb a1 a2 && N.eqb s1 s2 && N.eqb e1 e2 && N.eqb r1 r2.

(* rmntypes.RemoteConfig: identity id + the facts IsEmpty / validateRMNRemoteConfig look at.
   signers: (OnchainPublicKey empty?, NodeIndex) *)
Record rmn_cfg := mkRmn {
  rc_id : N;
  rc_addr_empty : bool;
  rc_digest_zero : bool;
  rc_signers : list (bool * N);
  rc_f : N;
  rc_version : N;
  rc_rver_zero : bool }.

Record obs := mkObs {
  o_roots : list root_t;
  o_onramp : list (N * N);      (* SeqNumChain (ChainSel, SeqNum) *)
  o_offramp : list (N * N);
  o_rmn : rmn_cfg;
  o_fchain : list (N * Z) }.    (* Go map: keys unique *)

Definition aobs := (N * obs)%type.   (* (OracleID, Observation) *)

Definition rmn_is_empty (c : rmn_cfg) : bool :=
  rc_addr_empty c && rc_digest_zero c && Nat.eqb (length (rc_signers c)) 0 &&
  N.eqb (rc_f c) 0 && N.eqb (rc_version c) 0 && rc_rver_zero c.

Definition obs_is_empty (o : obs) : bool :=
  Nat.eqb (length (o_roots o)) 0 && Nat.eqb (length (o_onramp o)) 0 && Nat.eqb (length (o_offramp o)) 0 &&
  rmn_is_empty (o_rmn o) && Nat.eqb (length (o_fchain o)) 0.

(* ---------- the per-field (key, value) entries of one observation; keyed by the ENTRY's own chain field ---------- *)
Definition roots_kv (o : obs) : list (N * root_t) := map (fun r => (root_chain r, r)) (o_roots o).
Definition onramp_kv (o : obs) : list (N * N) := o_onramp o.
Definition offramp_kv (o : obs) : list (N * N) := o_offramp o.
Definition fchain_kv (o : obs) : list (N * Z) := o_fchain o.

(* all entries of all observations in slice order, each tagged with its oracle
   (generic in the observation type O: also used by the discovery processor) *)
Definition entries {O V} (get : O -> list (N * V)) (aos : list (N * O)) : list (N * (N * V)) :=
  flat_map (fun ao => map (fun e => (fst e, (fst ao, snd e))) (get (snd ao))) aos.
(* the attributed votes for key k, and the aggregated map (attribution dropped, as in the Go struct) *)
Definition votes {O V} (get : O -> list (N * V)) (aos : list (N * O)) (k : N) : list (N * V) :=
  vals_of k (entries get aos).
Definition agg_map {O V} (get : O -> list (N * V)) (aos : list (N * O)) : list (N * list V) :=
  map (fun kv => (fst kv, map snd (snd kv))) (group (entries get aos)).

(* the RMN remote config is one optional datum per observation, filed under the destination chain *)
Definition rmn_kv (dest : N) (o : obs) : list (N * N) :=
  if rmn_is_empty (o_rmn o) then [] else [(dest, rc_id (o_rmn o))].

Definition rmn_votes (aos : list aobs) : list (N * N) :=
  flat_map (fun ao => if rmn_is_empty (o_rmn (snd ao)) then [] else [(fst ao, rc_id (o_rmn (snd ao)))]) aos.

Record agg := mkAgg {
  a_roots : list (N * list root_t);
  a_onramp : list (N * list N);
  a_offramp : list (N * list N);
  a_rmn : list N;
  a_fchain : list (N * list Z) }.

Definition aggregate (aos : list aobs) : agg :=
  mkAgg (agg_map roots_kv aos) (agg_map onramp_kv aos) (agg_map offramp_kv aos)
        (map snd (rmn_votes aos)) (agg_map fchain_kv aos).

(* ---------- validation ---------- *)
(* role assignment: chain -> oracles designated for it (home-chain config, SupportedNodes) *)
Definition roles_t := list (N * list N).
Definition supported (roles : roles_t) (o : N) : list N :=
  map fst (filter (fun r => memN o (snd r)) roles).
(* SupportsDestChain: error when the destination has no chain config *)
Definition supports_dest (roles : roles_t) (dest o : N) : option bool :=
  match alookup dest roles with None => None | Some l => Some (memN o l) end.

(* validateObservedMerkleRoots / validateObservedOnRampMaxSeqNums: every chain supported, no chain twice *)
Definition chains_ok (sup : list N) (cs : list N) : bool :=
  forallb (fun c => memN c sup) cs && nodupb N.eqb cs.

Definition rmn_valid (sd : bool) (c : rmn_cfg) : bool :=
  if rmn_is_empty c then true
  else sd && negb (rc_digest_zero c) && negb (rc_rver_zero c) &&
       negb (N.ltb (N.of_nat (length (rc_signers c))) (succ64 (rc_f c))) &&
       negb (rc_addr_empty c) &&
       forallb (fun s => negb (fst s)) (rc_signers c) && nodupb N.eqb (map snd (rc_signers c)).

(* Processor.ValidateObservation; [known] = oracle ids present in oracleIDToP2PID; result true = nil error *)
Definition validate_obs (retry : bool) (roles : roles_t) (known : list N) (dest : N) (ao : aobs) : bool :=
  let o := fst ao in
  let ob := snd ao in
  if retry && negb (obs_is_empty ob) then false
  else
    forallb (fun e => Z.ltb 0 (snd e)) (o_fchain ob) &&
    memN o known &&
    match supports_dest roles dest o with
    | None => false
    | Some sd =>
        chains_ok (supported roles o) (map root_chain (o_roots ob)) &&
        chains_ok (supported roles o) (map fst (o_onramp ob)) &&
        (match o_offramp ob with [] => true | _ => sd && nodupb N.eqb (map fst (o_offramp ob)) end) &&
        rmn_valid sd (o_rmn ob)
    end.

(* ---------- getConsensusObservation ---------- *)
Record cons := mkCons {
  c_roots : list (N * root_t);
  c_onramp : list (N * N);
  c_offramp : list (N * N);
  c_rmn : list (N * N);
  c_fchain : list (N * Z) }.

(* as repaired by fixes/F26.patch: off-ramp next numbers are destination data (only destination readers may report
   them), so every key of that map is agreed at the constant threshold 2*f_dest+1 — also a source chain whose own f is
   not agreed; the other per-chain maps stay at 2*f_key+1 *)
Definition get_consensus (F : Z) (dest : N) (aos : list aobs) : res cons :=
  let a := aggregate aos in
  let fch := consensus_map Z.eqb (fun _ : N => Some (two_f_plus_1 F)) (a_fchain a) in
  match alookup dest fch with
  | None => Err
  | Some fd =>
      Ok (mkCons (consensus_map root_eqb (thr_2f1 fch) (a_roots a))
                 (consensus_map N.eqb (thr_2f1 fch) (a_onramp a))
                 (consensus_map N.eqb (fun _ : N => Some (two_f_plus_1 fd)) (a_offramp a))
                 (consensus_map N.eqb (thr_2f1 fch) [(dest, a_rmn a)])
                 fch)
  end.

(* before fixes/F26.patch: the off-ramp entry of source chain k was agreed at 2*f_k+1 *)
Definition get_consensus_unfixed (F : Z) (dest : N) (aos : list aobs) : res cons :=
  let a := aggregate aos in
  let fch := consensus_map Z.eqb (fun _ : N => Some (two_f_plus_1 F)) (a_fchain a) in
  match alookup dest fch with
  | None => Err
  | Some _ =>
      Ok (mkCons (consensus_map root_eqb (thr_2f1 fch) (a_roots a))
                 (consensus_map N.eqb (thr_2f1 fch) (a_onramp a))
                 (consensus_map N.eqb (thr_2f1 fch) (a_offramp a))
                 (consensus_map N.eqb (thr_2f1 fch) [(dest, a_rmn a)])
                 fch)
  end.

(* Consensus.v — model of internal/plugincommon/consensus: threshold.go, min_observation.go, consensus.go.
   Item identity is a boolean equality [eqb] supplied by the caller (the implementation's identity is
   sha3(fmt "%v" item); the harness interns items so that equal id <=> equal rendering). *)
Require Import Verif.Model.Base.

(* Threshold(2*f+1) / Threshold(f+1): Go computes in int then converts to uint (wraps for negative f). *)
Definition to_uint (z : Z) : N := Z.to_N (z mod 18446744073709551616)%Z.
Definition two_f_plus_1 (f : Z) : N := to_uint (2 * f + 1).
Definition f_plus_1 (f : Z) : N := to_uint (f + 1).

Section MinObs.
  Context {T : Type}.
  Variable eqb : T -> T -> bool.

  Fixpoint count (x : T) (l : list T) : N :=
    match l with
    | [] => 0%N
    | y :: l' => ((if eqb x y then 1 else 0) + count x l')%N
    end.

  (* distinct items in first-occurrence order (the implementation keeps them in a Go map: ANY order;
     the order only matters to callers that use more than one valid item) *)
  Fixpoint dedup (l : list T) : list T :=
    match l with
    | [] => []
    | x :: l' => x :: filter (fun y => negb (eqb x y)) (dedup l')
    end.

  (* minObservation.Add for every item then GetValid *)
  Definition valid (thr : N) (items : list T) : list T :=
    filter (fun x => N.leb thr (count x items)) (dedup items).

  (* GetConsensusMap over a Go map given as an association list *)
  Fixpoint consensus_map {K} (thr_of : K -> option N) (m : list (K * list T)) : list (K * T) :=
    match m with
    | [] => []
    | (k, items) :: m' =>
        match thr_of k with
        | None => consensus_map thr_of m'
        | Some thr =>
            match valid thr items with
            | [v] => (k, v) :: consensus_map thr_of m'
            | _ => consensus_map thr_of m'
            end
        end
    end.

  (* GetConsensusMapAggregator after the repair of F08: a key without threshold is skipped *)
  Fixpoint consensus_agg {K} (thr_of : K -> option N) (agg : list T -> T) (m : list (K * list T)) : list (K * T) :=
    match m with
    | [] => []
    | (k, vals) :: m' =>
        match thr_of k with
        | None => consensus_agg thr_of agg m'
        | Some thr =>
            if N.ltb (N.of_nat (length vals)) thr then consensus_agg thr_of agg m'
            else (k, agg vals) :: consensus_agg thr_of agg m'
        end
    end.

  (* the function as it was before the repair: no threshold for the key => aggregate whatever is there *)
  Fixpoint consensus_agg_unfixed {K} (thr_of : K -> option N) (agg : list T -> T) (m : list (K * list T)) : list (K * T) :=
    match m with
    | [] => []
    | (k, vals) :: m' =>
        match thr_of k with
        | Some thr =>
            if N.ltb (N.of_nat (length vals)) thr then consensus_agg_unfixed thr_of agg m'
            else (k, agg vals) :: consensus_agg_unfixed thr_of agg m'
        | None => (k, agg vals) :: consensus_agg_unfixed thr_of agg m'
        end
    end.
End MinObs.

(* thresholds from an fChain association list *)
Definition thr_2f1 (fchain : list (N * Z)) (k : N) : option N :=
  match alookup k fchain with Some f => Some (two_f_plus_1 f) | None => None end.
Definition thr_f1 (fchain : list (N * Z)) (k : N) : option N :=
  match alookup k fchain with Some f => Some (f_plus_1 f) | None => None end.

(* Median (consensus.Median): sort a copy, take element len/2; zero value on empty *)
Definition medianZ (l : list Z) : Z := nth (Nat.div2 (length l)) (sort_by Z.leb l) 0%Z.
